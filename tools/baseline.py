#!/venv/bin/python
"""runs the repository's pinned baseline suite on a tree (default /repo) and compares with BASELINE.json stable_pass.
usage: baseline.py [repo_dir]   -> exit 0 when every stable_pass test still passes"""
import json, os, subprocess, sys, tempfile
import xml.etree.ElementTree as ET
repo = sys.argv[1] if len(sys.argv) > 1 else '/repo'
base = json.load(open('/root/.vp/BASELINE.json'))
fd, path = tempfile.mkstemp(suffix='.xml'); os.close(fd)
env = dict(os.environ); env.pop('PYG_BASE_VERIF', None)
env['PYTHONPATH'] = os.path.join(repo, 'src'); env['PYTHONDONTWRITEBYTECODE'] = '1'
subprocess.run(['/venv/bin/python', '-m', 'pytest', '-q', '-p', 'no:cacheprovider', '--timeout=900', '--continue-on-collection-errors',
                '--junitxml=' + path, '-x' if False else '-q'], cwd=repo, env=env, stdout=subprocess.DEVNULL, stderr=subprocess.DEVNULL)
passed = set()
for tc in ET.parse(path).getroot().iter('testcase'):
    if not any(c.tag in ('failure', 'error', 'skipped') for c in tc):
        passed.add('%s::%s' % (tc.get('classname'), tc.get('name')))
os.remove(path)
missing = [t for t in base['stable_pass'] if t not in passed]
print('baseline: %i of %i stable tests pass; newly passing: %s' % (len(base['stable_pass']) - len(missing), len(base['stable_pass']), sorted(passed - set(base['stable_pass']))))
for m in missing:
    print('  NOW FAILING:', m)
sys.exit(1 if missing else 0)
