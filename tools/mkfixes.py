#!/venv/bin/python
"""prints the table of DESIGN.md section 8.2 from known_findings.json (status fixed) and the subjects of the fix: commits in /repo"""
import json, os, re, subprocess
HERE = os.path.dirname(os.path.dirname(os.path.abspath(__file__)))
k = json.load(open(os.path.join(HERE, 'known_findings.json')))
subj = dict(l.split(' ', 1) for l in subprocess.check_output(['git', '-C', '/repo', 'log', '--format=%h %s']).decode().splitlines())
print('| finding (replay file) | property | commit | what failed |')
print('|---|---|---|---|')
for e in k:
    if e['status'] != 'fixed':
        continue
    name = os.path.basename(e.get('replay') or '').replace('.json', '')
    what = re.sub(r'\s+', ' ', e['what']).replace('|', '/')
    print('| %s | %s | %s | %s |' % (name, e['property'], e['commit'], what))
