#!/bin/bash
# tools/soak.sh [tier] [seeds...] : every registered check at several VERIF_SEED values on the unchanged tree; anything but exit 0 is printed
cd "$(dirname "$0")/.."
tier=${1:-quick}; shift
seeds=${@:-1 2 3 4 5}
for s in $seeds; do
  for i in 01 02 03 04 05 06 07 08 09 10 11 12 13 14 15 16 17 18 19 20; do
    t0=$(date +%s)
    VERIF_SEED=$s timeout 7200 ./check C$i --tier $tier --no-evidence > /tmp/soak_C${i}_$s.log 2>&1; rc=$?
    t1=$(date +%s)
    if [ $rc -ne 0 ]; then echo "seed=$s C$i rc=$rc $((t1-t0))s"; grep -E "HARNESS|VIOLATION" /tmp/soak_C${i}_$s.log | cut -c1-300; fi
  done
  echo "seed=$s done"
done
