#!/bin/bash
# tools/fuzzseed.sh <seed name> <sub> [runs] [seed]: coverage-guided campaign of one sub-check against a scratch copy of /repo with the seeded patch applied
cd "$(dirname "$0")/.."
n=$1; sub=$2; runs=${3:-30000}; sd=${4:-1}
P=${n%%-*}
wt=$(mktemp -d /tmp/pv-fz-XXXX)
git -C /repo worktree add --detach -q $wt/wt HEAD && git -C $wt/wt apply $PWD/seeded/$n/patch.diff || exit 2
export PV_REPO_SRC=$wt/wt/src PYTHONPATH=$wt/wt/src:$PWD:$PWD/.deps PYTHONHASHSEED=0 PYTHONDONTWRITEBYTECODE=1
timeout 3000 /venv/bin/python -W ignore -m pv.fuzz $P $sub $wt/out.json --runs $runs --seed $sd >/dev/null 2>$wt/err
python3 - $wt/out.json $n $sub <<'PY'
import json,sys
try:
    r=json.load(open(sys.argv[1]))
    print(sys.argv[2], sys.argv[3], 'evals', r['evaluations'], 'calls', r['calls'], 'wall %.0fs'%r['wall'], 'FAIL: '+r['fail'][1][:200] if r['fail'] else 'no failure', (r['error'] or '')[-300:])
except Exception as e:
    print(sys.argv[2], 'no result', e)
PY
git -C /repo worktree remove --force $wt/wt; rm -rf $wt
