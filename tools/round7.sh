#!/bin/bash
# tools/round7.sh C05 [C16 ...] : evaluate the two round-7 seeds of each property (from /tmp/seed7/<ID>/out/seed_k), keep them as <ID>-13 / <ID>-14
cd "$(dirname "$0")/.."
for P in "$@"; do
  for k in 1 2; do
    n=$P-$((12+k))
    if [ -f /tmp/seed7/$P/out/seed_$k/patch.diff ]; then
      tools/seeded.py /tmp/seed7/$P/out/seed_$k --prop $P --keep $n > seeded/results/$n.json 2>/tmp/seed7/$P/eval_$k.err
      python3 - "$n" <<'PY'
import json,sys
n=sys.argv[1]
try:
    r=json.load(open('/verif/seeded/results/%s.json'%n))
    print(n, 'clean:',r.get('demo_on_clean'),'| patched:',r.get('demo_with_patch'),'| suite_ok:',r.get('suite_ok'),'| caught:',r.get('caught'),'|',(r.get('check') or [{}])[0].get('first_message','')[:160], (r.get('check') or [{}])[0].get('harness'))
except Exception as e:
    print(n,'ERROR',e)
PY
    else echo "$P seed_$k missing"; fi
  done
done
