#!/bin/bash
# tools/benign.sh <dir with patch.diff> <PROP> [seeds]: a property-PRESERVING change (written by an independent sub-agent) is applied to a scratch copy of /repo and the
# registered quick check of the property is run against it: anything but exit 0 is a false alarm of the check (or a change that is not benign after all - decide by reading it)
cd "$(dirname "$0")/.."
d=$1; P=$2; seeds=${3:-1}
wt=$(mktemp -d /tmp/pv-benign-XXXX)
git -C /repo worktree add --detach -q $wt/wt HEAD || exit 2
if ! git -C $wt/wt apply $d/patch.diff 2>$wt/err; then echo "$d $P: patch does not apply: $(head -2 $wt/err)"; git -C /repo worktree remove --force $wt/wt; rm -rf $wt; exit 2; fi
for s in $seeds; do
  PV_REPO_SRC=$wt/wt/src PV_FUZZ=0 VERIF_SEED=$s timeout 3000 ./check $P --tier quick --no-evidence > $wt/log 2>&1; rc=$?
  echo "$(basename $d) $P seed=$s exit=$rc $(grep -E '^  |HARNESS' $wt/log | head -2 | cut -c1-400)"
done
git -C /repo worktree remove --force $wt/wt; rm -rf $wt
