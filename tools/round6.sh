#!/bin/bash
# tools/round4.sh C05 [C16 ...] : evaluate the two round-6 seeds of each property (from /tmp/seed6/<ID>/out/seed_k), keep them as <ID>-11 / <ID>-12
cd "$(dirname "$0")/.."
for P in "$@"; do
  for k in 1 2; do
    n=$P-$((10+k))
    if [ -f /tmp/seed6/$P/out/seed_$k/patch.diff ]; then
      tools/seeded.py /tmp/seed6/$P/out/seed_$k --prop $P --keep $n > seeded/results/$n.json 2>/tmp/seed6/$P/eval_$k.err
      python3 - "$n" <<'PY'
import json,sys
n=sys.argv[1]
try:
    r=json.load(open('/verif/seeded/results/%s.json'%n))
    print(n, 'clean:',r.get('demo_on_clean'),'| patched:',r.get('demo_with_patch'),'| suite_ok:',r.get('suite_ok'),'| caught:',r.get('caught'),'|',(r.get('check') or [{}])[0].get('first_message','')[:160], (r.get('check') or [{}])[0].get('harness'))
except Exception as e:
    print(n,'ERROR',e)
PY
    else echo "$P seed_$k missing"; fi
  done
done
