#!/venv/bin/python
"""regenerates seeded/RESULTS.md from seeded/results/*.json (first evaluation <name>.json, re-evaluations <name>b.json, <name>c.json),
seeded/<name>/meta.json (the sub-agent's own summary) and seeded/notes.json (what was strengthened / why not claimed)"""
import glob, json, os, re
HERE = os.path.dirname(os.path.dirname(os.path.abspath(__file__)))
notes = json.load(open(os.path.join(HERE, 'seeded', 'notes.json')))
names = sorted(d for d in os.listdir(os.path.join(HERE, 'seeded')) if re.fullmatch(r'C\d\d-\d+', d))
def load(p):
    try:
        return json.load(open(p))
    except Exception:
        return None
rows, n_first, n_now, n_all, n_stale = [], 0, 0, 0, 0
for name in names:
    meta = load(os.path.join(HERE, 'seeded', name, 'meta.json')) or {}
    first = load(os.path.join(HERE, 'seeded', 'results', name + '.json'))
    later = [load(p) for p in sorted(glob.glob(os.path.join(HERE, 'seeded', 'results', name + '[b-z].json')))]
    later = [l for l in later if l]
    stale = bool(later) and later[-1].get('patch_applies') is not True      # the patch was written against an older tree (fix commits changed its context since)
    later = [l for l in later if l.get('patch_applies') is True]
    now = later[-1] if later else first
    if first is None:
        continue
    ok = lambda r: 'caught' if r.get('caught') else 'missed'
    valid = first.get('demo_on_clean') == 'passes' and str(first.get('demo_with_patch', '')).startswith('fails') and first.get('suite_ok', True)
    note = notes.get(name, '')
    status_now = 'not claimed' if note.startswith('NOT CLAIMED') else ok(now)
    pre = note.startswith('[pre-strengthened')
    first_txt = 'missed (predicted)' if pre else ok(first)
    n_all += 1; n_first += (first.get('caught', False) and not pre); n_now += status_now.startswith('caught')
    summ = re.sub(r'\s+', ' ', str(meta.get('summary', '')))[:260].replace('|', '/')
    need = re.sub(r'\s+', ' ', str(meta.get('needs_to_manifest', '')))[:200].replace('|', '/')
    if stale and status_now == 'caught':
        status_now = 'caught (last evaluated before later fix commits; the patch no longer applies to the current tree)'
        n_stale += 1
    rows.append('| %s | %s | %s | %s | %s | %s | %s |' % (name, summ, need, 'yes' if valid else 'NO: ' + str(first.get('demo_on_clean'))[:40], first_txt, status_now, note.replace('|', '/')))
out = ['# Independently seeded changes - catch matrix', '',
       'Each `<ID>-<k>/` holds `patch.diff`, `demo.py` and `meta.json` written by a fresh sub-agent that saw only the property record and a scratch worktree of /repo',
       '(round 2 agents also saw one-line summaries of the earlier seeds of that property, to avoid duplicates), plus the `verification` block added by `tools/seeded.py`:',
       'the demo passes on a clean copy, fails with the patch, the pinned suite is still 224/224 with the patch, and the registered quick check was run against the patched copy',
       '(`PV_REPO_SRC`). "first" = the check as it stood when the seed arrived; "now" = after strengthening (raw outputs in `results/`).', '',
       '%i seeded changes: %i caught by the first version of the check, %i caught now (%i of these were last evaluated on the tree they were written for: fix commits in /repo have since changed the lines they patch).' % (n_all, n_first, n_now, n_stale), '',
       '| seed | change (sub-agent summary) | needs | confirmed (demo clean/patched, suite) | first | now | strengthening / remark |', '|---|---|---|---|---|---|---|'] + rows
open(os.path.join(HERE, 'seeded', 'RESULTS.md'), 'w').write('\n'.join(out) + '\n')
print('%i seeds, %i first, %i now' % (n_all, n_first, n_now))
