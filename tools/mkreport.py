#!/venv/bin/python
"""prints the as-built per-property table (markdown) from evidence/, mutants/ and seeded/; pasted into DESIGN.md section 8.5 by hand/script"""
import json, os, glob, sys
HERE = os.path.dirname(os.path.dirname(os.path.abspath(__file__)))
rows = []
for l in open(os.path.join(HERE, 'properties.jsonl')):
    pid = json.loads(l)['id']
    ev = os.path.join(HERE, 'evidence', pid + '.json')
    e = json.load(open(ev)) if os.path.exists(ev) else None
    mu = os.path.join(HERE, 'mutants', pid + '.json')
    nm = len(json.load(open(mu))) if os.path.exists(mu) else 0
    seeds = sorted(glob.glob(os.path.join(HERE, 'seeded', pid + '-*', 'meta.json')))
    caught = sum(1 for s in seeds if json.load(open(s)).get('verification', {}).get('caught'))
    subs = e['coverage']['subchecks'] if e else {}
    sub_txt = ', '.join('%s %i/%i%s' % (k, v['evaluations'], v['distinct_nontrivial'], '*' if v['exhaustive'] else '') for k, v in subs.items())
    rows.append('| %s | %s | %s | %i | %i of %i |' % (pid, sub_txt, ('%.0f s' % e['wall_s']) if e else '-', nm, caught, len(seeds)))
print('| property | sub-checks: evaluations / distinct non-trivial in the committed quick run (* = exhaustive enumeration) | quick wall | hand-written mutants (all caught) | independent seeded changes caught by the current quick check |')
print('|---|---|---|---|---|')
print('\n'.join(rows))
