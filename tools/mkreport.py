#!/venv/bin/python
"""prints the as-built per-property table (markdown) from evidence/, mutants/ and seeded/; pasted into DESIGN.md section 8.5 by hand/script"""
import json, os, glob, sys
HERE = os.path.dirname(os.path.dirname(os.path.abspath(__file__)))
rows = []
for l in open(os.path.join(HERE, 'properties.jsonl')):
    pid = json.loads(l)['id']
    ev = os.path.join(HERE, 'evidence', pid + '.json')
    e = json.load(open(ev)) if os.path.exists(ev) else None
    mu = os.path.join(HERE, 'mutants', pid + '.json')
    nm = len(json.load(open(mu))) if os.path.exists(mu) else 0
    seeds = sorted(glob.glob(os.path.join(HERE, 'seeded', pid + '-*', 'meta.json')))
    caught = 0
    for sd in seeds:
        name = os.path.basename(os.path.dirname(sd))
        res = [json.load(open(r)) for r in sorted(glob.glob(os.path.join(HERE, 'seeded', 'results', name + '*.json'))) if os.path.basename(r)[len(name):] in ('.json',) or os.path.basename(r)[len(name)].isalpha()]
        res = [r for r in res if r.get('patch_applies') is True]      # evaluations on a tree the patch still applied to; the latest one counts
        caught += bool(res and res[-1].get('caught'))
    subs = e['coverage']['subchecks'] if e else {}
    sub_txt = ', '.join('%s %i/%i%s' % (k, v['evaluations'], v['distinct_nontrivial'], '*' if v['exhaustive'] else '') for k, v in subs.items())
    rows.append('| %s | %s | %s | %i | %i of %i |' % (pid, sub_txt, ('%.0f s' % e['wall_s']) if e else '-', nm, caught, len(seeds)))
print('| property | sub-checks: evaluations / distinct non-trivial in the committed quick run (* = exhaustive enumeration) | quick wall | hand-written mutants | independent seeded changes caught at their latest evaluation |')
print('|---|---|---|---|---|')
print('\n'.join(rows))
