#!/venv/bin/python
"""
sensitivity runs: applies each mutant of mutants/<ID>.json to a scratch copy of /repo/src and runs the quick check against it.
usage: tools/mutants.py C02 [--baseline] [--only name]
mutants file: [{"name":..., "file": "_dictable.py", "old": "...", "new": "...", "count": 1}]
--baseline additionally runs the repo's pinned test-suite on the mutant (it should still pass = the tests cannot see the mutant)
"""
import json, os, shutil, subprocess, sys, tempfile
HERE = os.path.dirname(os.path.dirname(os.path.abspath(__file__)))
pid = sys.argv[1].upper()
baseline = '--baseline' in sys.argv
only = sys.argv[sys.argv.index('--only') + 1] if '--only' in sys.argv else None
muts = json.load(open(os.path.join(HERE, 'mutants', pid + '.json')))
results = []
for m in muts:
    if only and m['name'] != only:
        continue
    tmp = tempfile.mkdtemp(prefix='pv-mut-%s-' % pid)
    try:
        shutil.copytree('/repo/src', os.path.join(tmp, 'src'))
        if baseline:
            shutil.copytree('/repo/tests', os.path.join(tmp, 'tests'))
            for f in ('setup.cfg', 'pyproject.toml'):
                if os.path.exists('/repo/' + f):
                    shutil.copy('/repo/' + f, tmp)
        path = os.path.join(tmp, 'src', 'pyg_base', m['file'])
        s = open(path).read()
        n = s.count(m['old'])
        if n != m.get('count', 1):
            results.append((m['name'], 'MUTANT DOES NOT APPLY (%i matches)' % n, ''))
            continue
        open(path, 'w').write(s.replace(m['old'], m['new']))
        env = dict(os.environ, PV_REPO_SRC=os.path.join(tmp, 'src'))
        r = subprocess.run([os.path.join(HERE, 'check'), pid, '--tier', 'quick', '--no-evidence'] + (['--only', m['subs']] if m.get('subs') else []),
                           env=env, capture_output=True, text=True, timeout=3000)
        viol = [l for l in r.stdout.splitlines() if l.startswith('VIOLATION')]
        msg = [l for l in r.stdout.splitlines() if l.startswith('  ')][:1]
        status = 'caught' if r.returncode == 1 and viol else ('HARNESS-ERROR' if r.returncode == 2 else 'MISSED')
        b = ''
        if baseline:
            rb = subprocess.run([os.path.join(HERE, 'tools', 'baseline.py'), tmp], capture_output=True, text=True)
            b = 'suite passes' if rb.returncode == 0 else 'suite FAILS: ' + ' '.join(l.strip() for l in rb.stdout.splitlines()[1:4])
        results.append((m['name'], status, (msg[0].strip()[:160] if msg else '') + (' | ' + b if b else '')))
    finally:
        shutil.rmtree(tmp, ignore_errors=True)
for name, status, msg in results:
    print('%-40s %-14s %s' % (name, status, msg))
sys.exit(0 if all(s == 'caught' for _, s, _ in results) else 1)
