#!/bin/bash
# tools/validate.sh : MANIFEST.json and every evidence/<id>.json against the schemas in /root/.vp (jsonschema lives in the tooling venv)
cd "$(dirname "$0")/.."
python3-vt - <<'PY'
import json, glob, jsonschema, sys
ok = True
m = json.load(open('MANIFEST.json'))
try:
    jsonschema.validate(m, json.load(open('/root/.vp/MANIFEST.schema.json'))); print('MANIFEST ok:', len(m['checks']), 'checks; not_applicable', m.get('not_applicable'))
except Exception as e:
    ok = False; print('MANIFEST INVALID', str(e)[:300])
es = json.load(open('/root/.vp/EVIDENCE.schema.json'))
for p in sorted(glob.glob('evidence/*.json')):
    try:
        jsonschema.validate(json.load(open(p)), es)
    except Exception as e:
        ok = False; print(p, 'INVALID', str(e)[:300])
print('evidence files:', len(glob.glob('evidence/*.json')), 'all valid' if ok else 'PROBLEMS')
sys.exit(0 if ok else 1)
PY
