#!/venv/bin/python
"""
Evaluates one seeded change (a directory holding patch.diff, demo.py, meta.json written by an independent sub-agent):
  1. demo passes on a clean scratch copy of /repo's HEAD,
  2. the patch applies, demo fails with it,
  3. the repository's pinned suite still passes with it (tools/baseline.py),
  4. ./check <property> --tier quick run against the patched copy (PV_REPO_SRC) reports a VIOLATION (or not).
With --keep <name> a confirmed change is stored as /verif/seeded/<name>/ with the verification record added to meta.json.

usage: tools/seeded.py <seed_dir> [--prop C07] [--keep C07-1] [--tier quick|thorough] [--no-baseline] [--seeds 1,2]
The scratch copy lives under /tmp and is removed at the end. /repo itself is never modified (other work may be running against it);
applying the patch to a copy and pointing the check at it with PV_REPO_SRC is equivalent to `git -C /repo apply` + run + checkout.
"""
import json
import os
import shutil
import subprocess
import sys
import tempfile

HERE = os.path.dirname(os.path.dirname(os.path.abspath(__file__)))


def sh(cmd, **kw):
    return subprocess.run(cmd, capture_output=True, text=True, **kw)


def main():
    args = sys.argv[1:]
    seed = os.path.abspath(args[0])
    opt = lambda k, d=None: args[args.index(k) + 1] if k in args else d
    meta = json.load(open(os.path.join(seed, 'meta.json'))) if os.path.exists(os.path.join(seed, 'meta.json')) else {}
    prop = (opt('--prop') or meta.get('property')).upper()
    tier = opt('--tier', 'quick')
    seeds = [int(s) for s in opt('--seeds', '1').split(',')]
    tmp = tempfile.mkdtemp(prefix='pv-seed-%s-' % prop)
    rec = dict(property=prop)
    try:
        wt = os.path.join(tmp, 'wt')
        r = sh(['git', '-C', '/repo', 'worktree', 'add', '--detach', '-q', wt, 'HEAD'])
        if r.returncode:
            print(r.stderr)
            return 2
        env = dict(os.environ, PYTHONPATH=os.path.join(wt, 'src'), PYTHONDONTWRITEBYTECODE='1')
        demo = os.path.join(seed, 'demo.py')
        r0 = sh(['timeout', '300', '/venv/bin/python', demo], env=env, cwd=wt)
        rec['demo_on_clean'] = 'passes' if r0.returncode == 0 else 'FAILS (rc %i): %s' % (r0.returncode, (r0.stderr or r0.stdout)[-300:])
        ra = sh(['git', '-C', wt, 'apply', os.path.join(seed, 'patch.diff')])
        rec['patch_applies'] = ra.returncode == 0 or ra.stderr[-300:]
        if ra.returncode == 0:
            r1 = sh(['timeout', '300', '/venv/bin/python', demo], env=env, cwd=wt)
            rec['demo_with_patch'] = 'fails (rc %i)' % r1.returncode if r1.returncode != 0 else 'STILL PASSES'
            if '--no-baseline' not in args:
                rb = sh([os.path.join(HERE, 'tools', 'baseline.py'), wt])
                rec['suite_with_patch'] = rb.stdout.strip().splitlines()[0] if rb.stdout else rb.stderr[-200:]
                rec['suite_ok'] = rb.returncode == 0
            rec['check'] = []
            for s in seeds:
                e2 = dict(os.environ, PV_REPO_SRC=os.path.join(wt, 'src'), VERIF_SEED=str(s))
                rc = sh(['timeout', '3000', os.path.join(HERE, 'check'), prop, '--tier', tier, '--no-evidence'], env=e2, cwd=HERE)
                viol = [l for l in rc.stdout.splitlines() if l.startswith('VIOLATION')]
                msgs = [l.strip() for l in rc.stdout.splitlines() if l.startswith('  ')]
                rec['check'].append(dict(seed=s, tier=tier, exit=rc.returncode, caught=bool(rc.returncode == 1 and viol), first_message=(msgs[0][:400] if msgs else ''),
                                         harness=[l for l in rc.stdout.splitlines() if l.startswith('HARNESS')][:2]))
            rec['caught'] = all(c['caught'] for c in rec['check'])
        print(json.dumps(rec, indent=1))
        keep = opt('--keep')
        if keep:
            dst = os.path.join(HERE, 'seeded', keep)
            os.makedirs(dst, exist_ok=True)
            for f in ('patch.diff', 'demo.py'):
                shutil.copy(os.path.join(seed, f), dst)
            meta['verification'] = rec
            meta['property'] = prop
            json.dump(meta, open(os.path.join(dst, 'meta.json'), 'w'), indent=1)
    finally:
        sh(['git', '-C', '/repo', 'worktree', 'remove', '--force', os.path.join(tmp, 'wt')])
        shutil.rmtree(tmp, ignore_errors=True)
    return 0


if __name__ == '__main__':
    sys.exit(main())
