#!/bin/bash
# tools/reeval.sh C19-13 [C19-14 ...] : re-evaluate kept seeds against the current checks and store the result as seeded/results/<name><letter>.json (next free letter)
cd "$(dirname "$0")/.."
for n in "$@"; do
  for l in b c d e f g h; do [ -f seeded/results/$n$l.json ] || break; done
  tools/seeded.py seeded/$n --prop ${n%%-*} --no-baseline > seeded/results/$n$l.json 2>/dev/null
  /venv/bin/python -c "
import json; r=json.load(open('seeded/results/$n$l.json')); print('$n$l', 'caught:', r.get('caught'), (r.get('check') or [{}])[0].get('first_message','')[:140])" 2>/dev/null
done
