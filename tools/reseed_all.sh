#!/bin/bash
# tools/reseed_all.sh [jobs] [pattern]: re-evaluates every kept seeded change against the current checks (quick tier, no baseline run), <jobs> at a time;
# writes seeded/results/<name>z.json (the latest re-evaluation) and prints the ones that are NOT caught
cd "$(dirname "$0")/.."
jobs=${1:-4}; pat=${2:-C}
ls -d seeded/${pat}*-* | xargs -n1 basename | xargs -P $jobs -I{} sh -c 'PV_FUZZ=0 tools/seeded.py seeded/{} --no-baseline > seeded/results/{}z.json 2>/dev/null'
python3 - "$pat" <<'PY'
import json,glob,sys,os
miss=[]; n=0
for f in sorted(glob.glob('/verif/seeded/results/%s*z.json' % sys.argv[1])):
    try: r=json.load(open(f))
    except Exception: miss.append((os.path.basename(f),'unreadable')); continue
    n+=1
    if not r.get('caught'):
        miss.append((os.path.basename(f)[:-6], 'patch does not apply' if r.get('patch_applies') is not True else (r.get('check') or [{}])[0].get('harness') or 'not caught'))
print('%i re-evaluated, %i not caught:' % (n, len(miss)))
for m in miss: print('  ', m)
PY
