#!/venv/bin/python
"""regenerates MANIFEST.json from the property modules present in pv/props (keeps the manifest valid at all times)"""
import json, os, sys, subprocess
HERE = os.path.dirname(os.path.dirname(os.path.abspath(__file__)))
sys.path.insert(0, HERE)
props = [json.loads(l) for l in open(os.path.join(HERE, 'properties.jsonl'))]
TECH = json.load(open(os.path.join(HERE, 'tools', 'techniques.json')))
repo_commits = subprocess.run(['git', '-C', '/repo', 'log', '--format=%H %s'], capture_output=True, text=True).stdout.splitlines()
checks, na = [], []
# what the widening passes of rounds 4-6 added to every module (DESIGN 8.4): stated once here, the per-property details are the `rule` texts of the evidence files
GEN = ('; generators widened by construction with labelled input classes and floors (state carried between calls / sessions on one set of objects, in-place edits, one value in several raw types, '
       'zone-aware stamps, values within a tolerance, shapes of user functions, boundary and out-of-domain inputs); thorough tier: the same generator / oracle pairs also under coverage-guided fuzzing (atheris)')
for p in props:
    pid = p['id']
    t = TECH.get(pid)
    if not os.path.exists(os.path.join(HERE, 'pv', 'props', pid.lower() + '.py')) or t is None or t.get('not_built'):
        na.append(dict(property_id=pid, reason=(t or {}).get('reason', 'check not built yet (work in progress; see DESIGN.md section 5 for the plan)')))
        continue
    checks.append(dict(
        property_id=pid,
        quick_cmd='./check %s --tier quick' % pid,
        thorough_cmd='./check %s --tier thorough' % pid,
        evidence_file='evidence/%s.json' % pid,
        replay_cmd_template='./check %s --replay {path}' % pid,
        engine='pv',
        level_claimed=dict(category='exploration', text=t['level_text'], design_ref='DESIGN.md section 5, %s' % pid),
        level_note=t['level_note'],
        technique=t['technique'] + GEN))
man = dict(
    version=1,
    setup_cmd='/venv/bin/python -c "import hypothesis" 2>/dev/null || /venv/bin/pip install --no-index --find-links /opt/veriftools/wheels hypothesis; '
              'PYTHONPATH=.deps /venv/bin/python -c "import atheris" 2>/dev/null || /venv/bin/pip install -q --no-index --find-links /opt/veriftools/wheels --target .deps atheris || echo "atheris not installed: the coverage-guided stage of the thorough tier will be skipped"; '
              'PYTHONPATH=/repo/src:. /venv/bin/python -c "import pv.runner, pv.core, pv.codec, hypothesis, pyg_base; print(\'pv ready, hypothesis\', hypothesis.__version__)"',
    hooks=dict(guard='PYG_BASE_VERIF', enable='no source hooks are needed: every observation point is public API; ./check exports PYG_BASE_VERIF=1 (unused by the library) and imports pyg_base from /repo/src of the working tree',
               baseline_off_cmd='cd /repo && /venv/bin/python -m pytest -ra -q -p no:cacheprovider --timeout=900 --continue-on-collection-errors',
               source_commits=[], add_only=True),
    engines=[dict(name='pv', path='pv/', serves_properties=[c['property_id'] for c in checks],
                  kind_free_text='property-based testing with Hypothesis (plain-data spec generators -> builder -> independent oracle), rule-based state machines for histories, complete enumeration of finite sub-domains, fuel guard for termination; 16-way process sharding; thorough tier: the same generators and oracles also driven by coverage-guided fuzzing (atheris / libFuzzer feeding Hypothesis fuzz_one_input, python-level coverage of pyg_base)')],
    checks=checks,
    notes='All checks: ./check <ID> --tier quick|thorough; VERIF_SEED selects the hypothesis seed; exit 0 held / 1 VIOLATION / 2 harness error. Known findings and fixed defects: known_findings.json. Seeded mutants: seeded/.',
    not_applicable=na)
json.dump(man, open(os.path.join(HERE, 'MANIFEST.json'), 'w'), indent=1)
print('MANIFEST.json: %i checks, %i not claimed' % (len(checks), len(na)))
