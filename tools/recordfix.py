#!/venv/bin/python
"""tools/recordfix.py <PROP> <Fnn-name> <replay file under out/> "<what failed>": after the `fix:` commit in /repo - copies the replay to replays/<PROP>/<name>.json,
appends the `fixed` entry (with /repo's HEAD commit) to known_findings.json"""
import json, shutil, subprocess, sys, os
prop, name, src, what = sys.argv[1:5]
HERE = os.path.dirname(os.path.dirname(os.path.abspath(__file__)))
dst = os.path.join(HERE, 'replays', prop, name + '.json')
os.makedirs(os.path.dirname(dst), exist_ok=True)
shutil.copy(src, dst)
c = subprocess.run(['git', '-C', '/repo', 'log', '--format=%h', '-1'], capture_output=True, text=True).stdout.strip()
k = json.load(open(os.path.join(HERE, 'known_findings.json')))
k.append(dict(status='fixed', property=prop, commit=c, what=what, replay=os.path.relpath(dst, HERE)))
json.dump(k, open(os.path.join(HERE, 'known_findings.json'), 'w'), indent=1)
print('recorded', name, c)
