# -*- coding: utf-8 -*-
"""
spec values <-> real objects, plus hypothesis strategies for the shared scalar universe.

A *value spec* is JSON: None / bool / int / finite float / str stand for themselves; everything else is a
tagged list:
    ["nan", k]            float NaN object number k (one object per k per case -> identity is controlled)
    ["inf", s]            s * inf
    ["dt", ordinal, sec]  datetime.datetime
    ["date", ordinal]     datetime.date
    ["ts", ordinal, sec]  pandas.Timestamp
    ["dt64", ordinal, sec, unit]  numpy.datetime64
    ["nat"]               pandas.NaT
    ["np", dtype, v]      numpy scalar (v is itself a value spec)
    ["list", [..]], ["tuple", [..]], ["dict", [[k, v], ..]], ["Dict", ..], ["dictattr", ..]
    ["arr", dtype, shape, [flat values]]
"""
import datetime
import math

import numpy as np
from hypothesis import strategies as st

EPOCH = datetime.datetime(1, 1, 1)


class Env(object):
    """per-case environment holding NaN objects by identity number"""

    def __init__(self):
        self.nans = {}

    def nan(self, k):
        if k not in self.nans:
            self.nans[k] = float('nan') if k >= 0 else np.float64('nan')
            # float('nan') returns a new object each call in CPython
        return self.nans[k]


def mkdt(ordinal, sec=0, us=0):
    return datetime.datetime.fromordinal(ordinal) + datetime.timedelta(seconds=sec, microseconds=us)


def build(v, env=None):
    if env is None:
        env = Env()
    if v is None or isinstance(v, (bool, int, float, str)):
        return v
    tag = v[0]
    if tag == 'nan':
        return env.nan(v[1])
    if tag == 'inf':
        return v[1] * math.inf
    if tag == 'dt':
        return mkdt(*v[1:])
    if tag == 'date':
        return datetime.date.fromordinal(v[1])
    if tag == 'ts':
        import pandas as pd
        return pd.Timestamp(mkdt(*v[1:]))
    if tag == 'dt64':
        return np.datetime64(mkdt(v[1], v[2]), v[3])
    if tag == 'nat':
        import pandas as pd
        return pd.NaT
    if tag == 'np':
        return getattr(np, v[1])(build(v[2], env))
    if tag == 'list':
        return [build(x, env) for x in v[1]]
    if tag == 'tuple':
        return tuple(build(x, env) for x in v[1])
    if tag == 'dict':
        return {k: build(x, env) for k, x in v[1]}
    if tag == 'Dict':
        from pyg_base import Dict
        return Dict({k: build(x, env) for k, x in v[1]})
    if tag == 'dictattr':
        from pyg_base import dictattr
        return dictattr({k: build(x, env) for k, x in v[1]})
    if tag == 'arr':
        dtype, shape, flat = v[1], v[2], v[3]
        vals = [build(x, env) for x in flat]
        if dtype == 'object':
            a = np.empty(len(vals), dtype=object)
            for i, x in enumerate(vals):
                a[i] = x
        else:
            a = np.array(vals, dtype=dtype)
        return a.reshape(shape)
    raise ValueError('unknown value spec %r' % (v,))


def is_nan_spec(v):
    return isinstance(v, (list, tuple)) and len(v) and v[0] == 'nan'


# canonical, hashable token of a *built* scalar, in which every NaN is one token and ints/floats keep their type
def token(x):
    if x is None:
        return ('none',)
    if isinstance(x, (bool, np.bool_)):
        return ('bool', bool(x))
    if isinstance(x, (int, np.integer)):
        return ('int', int(x))
    if isinstance(x, (float, np.floating)):
        return ('nan',) if x != x else ('float', float(x))
    if isinstance(x, str):
        return ('str', x)
    if isinstance(x, datetime.datetime):
        return ('dt', x.toordinal(), x.hour * 3600 + x.minute * 60 + x.second, x.microsecond)
    if isinstance(x, datetime.date):
        return ('date', x.toordinal())
    if isinstance(x, (list, tuple)):
        return (type(x).__name__,) + tuple(token(i) for i in x)
    if isinstance(x, dict):
        return (type(x).__name__,) + tuple(sorted((k, token(v)) for k, v in x.items()))
    return ('obj', type(x).__name__, repr(x))


# value-level token: ints and floats with the same value collapse, NaN is one token (the key equality of C02)
def vtoken(x):
    if x is None:
        return ('none',)
    if isinstance(x, (bool, np.bool_)):
        return ('bool', bool(x))
    if isinstance(x, (int, np.integer)):
        return ('num', int(x))
    if isinstance(x, (float, np.floating)):
        if x != x:
            return ('nan',)
        x = float(x)
        return ('num', int(x)) if x.is_integer() else ('num', x)      # exact: 2**53 + 1 and float(2**53) are different keys
    if isinstance(x, str):
        return ('str', x)
    if isinstance(x, datetime.datetime):
        return ('dt', x.toordinal(), x.hour * 3600 + x.minute * 60 + x.second, x.microsecond)
    if isinstance(x, datetime.date):
        return ('date', x.toordinal())
    if isinstance(x, (list, tuple)):
        return ('seq',) + tuple(vtoken(i) for i in x)
    return ('obj', type(x).__name__, repr(x))


# ------------------------------------------------------------------------ strategies (plain data only)

D0 = datetime.datetime(2000, 1, 3).toordinal()   # a Monday


def s_nan(k=2):
    return st.integers(0, k - 1).map(lambda i: ['nan', i])


def s_dt(days=10, intraday=False):
    if intraday:
        return st.tuples(st.integers(D0, D0 + days - 1), st.sampled_from([0, 3600, 43200, 86399])).map(lambda t: ['dt', t[0], t[1]])
    return st.integers(D0, D0 + days - 1).map(lambda o: ['dt', o, 0])


S_INTS = st.integers(-3, 6)
S_FLOATS = st.sampled_from([-1.5, 0.0, 1.0, 2.0, 2.5])
S_STRS = st.sampled_from(['', 'a', 'ab', 'b', 'A'])


def s_scalar(nan=False, dates=True, none=True):
    """the shared scalar universe S (S_nan when nan=True)"""
    parts = [S_INTS, S_FLOATS, S_STRS]
    if none:
        parts.append(st.none())
    if dates:
        parts.append(s_dt())
    if nan:
        parts.append(s_nan())
    return st.one_of(*parts)
