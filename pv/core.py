# -*- coding: utf-8 -*-
"""
Core of the pv framework: sub-check descriptions, the Violation exception, the
guards around calls into the code under test, and the per-run recorder.

A sub-check is   generator of plain-data specs -> builder -> oracle.
`run(spec)` receives a JSON-able spec, builds the real objects, calls pyg_base
and the independent oracle, and either raises Violation or returns an info
dict  {'nt': bool, 'cls': [class labels]}.
"""
import hashlib
import json
import sys
import traceback
from collections import Counter
from contextlib import contextmanager


class Violation(Exception):
    """the property under test does not hold on this case"""


class OutOfFuel(BaseException):
    """raised by the fuel guard; BaseException so that pyg_base's `except Exception` cannot swallow it"""


class HarnessError(Exception):
    """the harness (generator / builder / oracle) is broken - never reported as a violation"""


# ----------------------------------------------------------------------------- guards

@contextmanager
def fuel(limit):
    """
    Deterministic termination guard: counts python + C function calls made while the block runs
    and raises OutOfFuel when the count exceeds `limit`.
    """
    count = [0]

    def prof(frame, event, arg):
        if event == 'call' or event == 'c_call':
            count[0] += 1
            if count[0] > limit:
                sys.setprofile(None)
                raise OutOfFuel('more than %i calls' % limit)
    old = sys.getprofile()
    sys.setprofile(prof)
    try:
        yield count
    finally:
        sys.setprofile(old)


def call(what, f, *args, **kwargs):
    """calls the code under test; any exception it raises is a violation of a 'never raises / returns X' claim"""
    try:
        return f(*args, **kwargs)
    except Violation:
        raise
    except OutOfFuel as e:
        raise Violation('%s: did not terminate (%s)' % (what, e))
    except Exception as e:
        raise Violation('%s: raised %s: %s' % (what, type(e).__name__, str(e)[:300]))


def call_fuel(what, limit, f, *args, **kwargs):
    try:
        with fuel(limit):
            return f(*args, **kwargs)
    except Violation:
        raise
    except OutOfFuel as e:
        raise Violation('%s: did not terminate (%s)' % (what, e))
    except Exception as e:
        raise Violation('%s: raised %s: %s' % (what, type(e).__name__, str(e)[:300]))


def call_or(what, allowed, f, *args, **kwargs):
    """
    calls the code under test where raising one of `allowed` is part of the contract.
    returns (True, result) or (False, exception)
    """
    try:
        return True, f(*args, **kwargs)
    except allowed as e:
        return False, e
    except Violation:
        raise
    except OutOfFuel as e:
        raise Violation('%s: did not terminate (%s)' % (what, e))
    except Exception as e:
        raise Violation('%s: raised %s: %s' % (what, type(e).__name__, str(e)[:300]))


def must_raise(what, exc, f, *args, **kwargs):
    """the contract says f(*args) raises `exc` (and nothing else, and does not return)"""
    try:
        res = f(*args, **kwargs)
    except exc:
        return
    except Violation:
        raise
    except OutOfFuel as e:
        raise Violation('%s: did not terminate (%s)' % (what, e))
    except Exception as e:
        raise Violation('%s: expected %s but raised %s: %s' % (what, getattr(exc, '__name__', exc), type(e).__name__, str(e)[:200]))
    raise Violation('%s: expected %s but returned %s' % (what, getattr(exc, '__name__', exc), short(res)))


def check(cond, msg, *fmt):
    if not cond:
        raise Violation(msg % tuple(short(f) for f in fmt) if fmt else msg)


def short(x, n=300):
    try:
        s = repr(x)
    except Exception:
        s = '<unrepr-able %s>' % type(x).__name__
    return s if len(s) <= n else s[:n] + '...'


# ----------------------------------------------------------------------------- specs

def to_json(spec):
    """tuples -> lists recursively; dict keys must already be strings"""
    if isinstance(spec, (list, tuple)):
        return [to_json(s) for s in spec]
    if isinstance(spec, dict):
        return {str(k): to_json(v) for k, v in spec.items()}
    if spec is None or isinstance(spec, (bool, int, float, str)):
        return spec
    raise HarnessError('spec holds a non-JSON value %r of type %s' % (spec, type(spec)))


def spec_hash(spec_j):
    s = json.dumps(spec_j, sort_keys=True, separators=(',', ':'))
    return int.from_bytes(hashlib.blake2b(s.encode(), digest_size=8).digest(), 'big')


# ----------------------------------------------------------------------------- sub-checks

class Sub(object):
    """
    A Hypothesis-driven sub-check.

    name      : identifier within the property
    strategy  : callable(tier) -> hypothesis strategy producing plain-data specs
    run       : callable(spec) -> info dict, raises Violation
    quick     : number of generated cases in the quick tier (one process)
    thorough  : number of generated cases PER SHARD in the thorough tier (16 shards)
    rule      : text describing generation + the non-trivial rule
    floor     : minimal fraction of non-trivial cases (below => harness error, exit 2)
    """
    kind = 'hyp'

    def __init__(self, name, strategy, run, quick, thorough, rule, floor=0.05, shards=16, class_floors=None):
        self.name = name
        self.strategy = strategy
        self.run = run
        self.quick = quick
        self.thorough = thorough
        self.rule = rule
        self.floor = floor
        self.shards = shards
        self.class_floors = class_floors or {}


class EnumSub(object):
    """
    A sub-check over a finite domain that is enumerated completely.
    enum(tier) -> (total, chunker) where chunker(i, nchunks) yields the specs of chunk i.
    In the quick tier `quick_sample` cases are drawn instead by hypothesis from `strategy`.
    """
    kind = 'enum'

    def __init__(self, name, enum, run, rule, strategy=None, quick=0, chunks=64, floor=0.0, thorough_only=False):
        self.name = name
        self.enum = enum
        self.run = run
        self.rule = rule
        self.strategy = strategy
        self.quick = quick
        self.chunks = chunks
        self.floor = floor
        self.thorough_only = thorough_only
        self.class_floors = {}


class MachineSub(object):
    """
    A stateful sub-check. `model` is a class with
        OPS  = {op name: {arg name: strategy}}        (plain-data arguments only)
        PRE  = {op name: predicate(model)}            (optional)
        op_<name>(**args)                             applies the operation to the real object and to the reference model
        check()                                       invariant, run after every step (raises Violation)
        info()                                        -> {'nt': bool, 'cls': [...]} at the end of a history
    The history (list of [op, args]) is the spec; replay re-applies it without hypothesis.
    """
    kind = 'machine'

    def __init__(self, name, model, quick, thorough, rule, floor=0.05, shards=16, class_floors=None):
        self.name = name
        self.model = model
        self.quick = quick        # (machines, steps)
        self.thorough = thorough  # (machines per shard, steps)
        self.rule = rule
        self.floor = floor
        self.shards = shards
        self.class_floors = class_floors or {}

    def run(self, spec):
        m = self.model()
        try:
            for name, kw in spec:
                getattr(m, 'op_' + name)(**kw)
                m.check()
            return m.info()
        finally:
            if hasattr(m, 'teardown'):
                m.teardown()


# ----------------------------------------------------------------------------- recorder

class Recorder(object):
    """per (sub-check, shard) counters; merged by the runner"""

    MAX_SAMPLES = 4

    def __init__(self, sub, known=None):
        self.sub = sub
        self.known = known or {}      # signature name -> predicate(spec)
        self.evaluations = 0
        self.nt = set()
        self.classes = Counter()
        self.excluded = Counter()
        self.samples = []
        self.fail = None              # (spec, message)
        self.error = None             # traceback text of a harness error
        self.exhaustive = False

    def note(self, spec_j, info):
        self.evaluations += 1
        info = info or {}
        if info.get('nt'):
            h = spec_hash(spec_j)
            if h not in self.nt:
                self.nt.add(h)
                if len(self.samples) < self.MAX_SAMPLES and len(json.dumps(spec_j)) < 1500:
                    self.samples.append(spec_j)
        for c in info.get('cls', ()):
            self.classes[c] += 1

    def run_one(self, spec):
        spec_j = to_json(spec)
        for sig, pred in self.known.items():
            if pred(spec_j):
                self.excluded[sig] += 1
                return
        try:
            info = self.sub.run(spec_j)
        except Violation as v:
            self.fail = (spec_j, str(v))
            raise
        except OutOfFuel as e:
            self.fail = (spec_j, 'did not terminate: %s' % e)
            raise Violation(self.fail[1])
        self.note(spec_j, info)

    def result(self):
        return dict(sub=self.sub.name, evaluations=self.evaluations, nt=self.nt, classes=self.classes,
                    excluded=self.excluded, samples=self.samples, fail=self.fail, error=self.error,
                    exhaustive=self.exhaustive)


def run_hyp(sub, n, seed_val, tier, known=None):
    """runs one hypothesis sub-check (or one shard of it); returns a result dict"""
    import hypothesis
    from hypothesis import given, settings, HealthCheck, Phase, Verbosity
    rec = Recorder(sub, known)
    strat = sub.strategy(tier)

    @hypothesis.seed(seed_val)
    @settings(max_examples=n, database=None, deadline=None, derandomize=False, report_multiple_bugs=False,
              suppress_health_check=list(HealthCheck), phases=[Phase.generate, Phase.shrink],
              verbosity=Verbosity.quiet)
    @given(strat)
    def test(spec):
        rec.run_one(spec)
    try:
        test()
    except Violation:
        pass
    except BaseException:
        if rec.fail is None:
            rec.error = traceback.format_exc()
        # a harness error that happened while shrinking a genuine violation does not hide the violation
    return rec.result()


def run_enum_chunk(sub, tier, i, nchunks, known=None):
    rec = Recorder(sub, known)
    total, chunker = sub.enum(tier)
    try:
        for spec in chunker(i, nchunks):
            try:
                rec.run_one(spec)
            except Violation:
                break
    except BaseException:
        rec.error = traceback.format_exc()
    rec.exhaustive = True
    return rec.result()


def run_machine(sub, n, steps, seed_val, tier, known=None):
    import hypothesis
    from hypothesis import settings, HealthCheck, Phase, Verbosity
    from hypothesis.stateful import RuleBasedStateMachine, rule, invariant, precondition, run_state_machine_as_test
    rec = Recorder(sub, known)
    Model = sub.model
    state = {'log': None}

    def init(self):
        RuleBasedStateMachine.__init__(self)
        self.m = Model()
        self.log = []
        self.failed = False
        state['log'] = self.log

    def teardown(self):
        try:
            if hasattr(self.m, 'teardown'):
                self.m.teardown()
        finally:
            if not self.failed and len(self.log):
                rec.note(to_json(self.log), self.m.info())

    def inv(self):
        try:
            self.m.check()
        except BaseException:
            self.failed = True
            raise

    ns = {'__init__': init, 'teardown': teardown, 'inv': invariant()(inv)}
    pre = getattr(Model, 'PRE', {})
    ops = Model.OPS(tier) if callable(Model.OPS) else Model.OPS
    for name, argstrats in ops.items():
        def mk(name):
            def r(self, **kw):
                kw = to_json(kw)
                self.log.append([name, kw])
                try:
                    getattr(self.m, 'op_' + name)(**kw)
                except BaseException:
                    self.failed = True
                    raise
            r.__name__ = name
            r = rule(**argstrats)(r)
            if name in pre:
                p = pre[name]
                r = precondition(lambda self, p=p: p(self.m))(r)
            return r
        ns[name] = mk(name)
    M = type('M_' + sub.name, (RuleBasedStateMachine,), ns)
    sett = settings(max_examples=n, stateful_step_count=steps, database=None, deadline=None, derandomize=False,
                    report_multiple_bugs=False, suppress_health_check=list(HealthCheck),
                    phases=[Phase.generate, Phase.shrink], verbosity=Verbosity.quiet)
    try:
        run_state_machine_as_test(hypothesis.seed(seed_val)(M), settings=sett)
    except Violation as v:
        rec.fail = (to_json(state['log']), str(v))
    except OutOfFuel as e:
        rec.fail = (to_json(state['log']), 'did not terminate: %s' % e)
    except BaseException:
        rec.error = traceback.format_exc()
    return rec.result()
