# -*- coding: utf-8 -*-
"""
C03 - df_index / df_reindex / df_sync / presync put every timeseries found inside nested list/dict arguments on the prescribed
common index (and multi-column frames on the common column set), values intact, as-of filled when a fill method is given;
bare numpy arrays are aligned at the end; everything else passes through and the container structure is preserved.

Oracle: a dictionary model. A timeseries is {axis position: value}; the expected index is the ordered intersection / sorted union /
first / last / the explicit index over the timeseries met by a depth-first walk; every expected cell is computed with plain loops
(original value, or the last / next non-NaN observation under ffill / bfill). No pandas alignment primitive is used by the oracle.

Spec format (plain JSON)
    tree node : ['s', idx, vals, dtype]            Series; idx = sorted axis positions, vals = floats, None = NaN. A position is an int (the axis stamp) or a float
                                                   k + m * 1e-7 = the axis stamp k moved by m microseconds (see _stamp)
                ['f', idx, cols, rows]             DataFrame; rows[i][j] = float or None; cols = labels (all str or all int; may repeat)
                both may carry a 5th element, a dict of options: {'unit': 's'|'ms'|'us'|'ns'} = resolution of the DatetimeIndex,
                {'intcols': [j, ..]} = these frame columns are int64 (no NaN in them)
                ['a', dtype, shape, flat]          bare numpy array (row-major, None = NaN); a 5th element {'view': 'c'|'s2'|'s3'|'t'} makes it a view of
                                                   spec['buffer'] = [dtype, cells] that starts at the buffer's first element (contiguous / every 2nd, 3rd element
                                                   or row / transposed block); flat then lists the cells the view shows
                ['v', x]                           a non-timeseries member (None / int / float / str)
                ['list', [nodes]], ['tuple', [nodes]], ['dict', [[key, node], ..]], ['Dict', [[key, node], ..]]
                ['mylist', [nodes]] (a user subclass of list), ['odict', ..] (collections.OrderedDict), ['dictattr', ..] (pyg_base.dictattr), ['mydict', ..] (a user subclass of dict)
    join      : 'ij' / 'inner' / 'oj' / ... / ['idx', positions(, unit)] (a DatetimeIndex) / ['series', positions(, unit)] (a Series used as index)
                / ['raw', positions, form] (the index in another raw form: an object-dtype pd.Index of datetime.datetime 'obj_dt' / pd.Timestamp 'obj_ts' / both 'obj_mixed', a DataFrame 'frame')
                / ['arg', i] (presync(index='p<i>'): the index of that argument)
                / ['member', k] (the k-th timeseries of the tree, in walk order, is ALSO handed in as the index) / ['member_index', k] (its .index object)
    flags     : share_index (equal stamps + equal unit -> one index object), same_objects (equal leaf specs -> ONE object, passed several times),
                kw (df_* called with keyword arguments), columns_call (presync: columns= given at call time), default (presync(default=..)),
                sig (shape of the decorated function)
    session   : {'calls': [{'sel': .., 'call': <sync / presync spec>, 'edit': [leaf before, leaf after]}, ..]}: 'edit' = before this call the caller writes
                the differing cell into the object built for that leaf, in place
"""
import copy
import datetime
import json
import os

from hypothesis import strategies as st

from pv.core import Sub, Violation, call, check, short

ASSUMPTIONS = [
    'timeseries indices are strictly increasing (sorted, no duplicate stamps) subsets of a 12-stamp irregular axis (intraday and multi-day gaps); '
    'explicit target indices are sorted duplicate-free subsets of the same axis (pandas as-of reindexing needs monotonic unique stamps); the indices are '
    'DatetimeIndex objects of resolution s / ms / us / ns (mixed within a case in a minority of cases): one instant in two resolutions is one timestamp',
    'containers are list / dict / pyg Dict with string keys other than "index" or with integer keys (one kind per dict), nested to depth 3 (the statement says list/dict: df_index does not look '
    'inside nested tuples); a tuple is used only as the top-level argument of df_sync, which lists it explicitly, and as presync *args',
    'under a fill method an original NaN is not an observation: the cell gets the last/next non-NaN observation (presync docstring example a.ffill(x,y))',
    'the expected index is compared as an ordered list (ascending, as every input is ascending); the common column set is compared as a set '
    '(the statement says "column set") and duplicate labels in a result are rejected; the column labels of a case are all str or all int',
    'frames that repeat a column label are generated only where no column policy acts (df_reindex, df_index, df_sync(columns=None/False), presync(columns=False)): '
    'there they must keep their columns as they are, cells are read by position. What a column policy does with such a frame is not fixed by the statement '
    '(df_columns documents "treated like arrays"), so they are kept out of those calls',
    'left/right = first/last timeseries met by a depth-first walk in list order / dict insertion order (presync: positional arguments, then keywords)',
    'cells are float64, plus int64 Series and int64 frame columns (these without NaN); values are compared with == (no arithmetic happens, the dtype of a '
    'result is not checked), NaN positions exactly',
    'column policies act on frames with >= 2 columns; Series and single-column frames keep their shape (df_sync docstring); with columns=None/False '
    'and in df_reindex every frame keeps its own columns',
    'presync: columns=False mode passes whole objects (any tree); the default column mode is exercised on trees without frames (f is then called once, '
    'with every Series on the common index) and, separately (presync_cols), with frames, where the calls of f are recorded column by column',
    'presync policy spellings: constructor arguments, the .ij/.oj/.lj/.rj/.ffill/.bfill properties, call-time join=/method=/columns= keywords (a call-time '
    'keyword wins over the constructor), and index="p<i>" (the index of a named argument that is a single timeseries)',
    'the decorated function is f(p0..p3), f(p0, *rest), f(p0, **kw), f(*a, **kw), f(p0, *, p1, p2, p3) or a function whose declared defaults are a Series / a tuple / '
    'a dict holding timeseries: a declared default is not an argument, so it takes no part in the common index, is not aligned, and f must see the very object',
    'presync(default=x): in the per-column mode a multi-column frame that lacks the column is shown to f as x (NaN when not given), as the presync docstring says',
    'an explicit index may be one of the operands (a Series / frame handed in as index=, or its .index object); one timeseries object may occur several times in '
    'the arguments; both are judged by the ordinary oracle',
    'the fill method is exactly None / "ffill" / "bfill" (the quantifier): lists of methods, numbers, interpolation names and limit= are not generated',
    'operands unchanged includes the containers of the caller: after every call each list / dict that was handed in must hold the very objects it was built with; '
    'in a session half of the cases hand the SAME list / dict objects to several calls, and one parameterised presync decorator object serves all presync calls',
    'bare numpy arrays are checked separately from pandas objects (the quantifier says "separately"): 1-d and 2-d, 0-6 rows, int64/float64; '
    'with a fill method the NaN front padding and NaN cells are filled per column; when ffill would have to reach into a leading row that the '
    'truncation dropped, both NaN and that dropped value are accepted (the statement does not say whether lost rows are observations)',
    'cell values are unique per object / column / stamp, of the order 100 .. 1300; in a minority of cases a timeseries is scaled to the order 1e-10 .. 1e-9 with cells that are '
    'exactly 0.0 / -0.0 (an observation like any other; the sign of a zero is not compared), and a timeseries may be a revision of an earlier one: same stamps, one / every cell '
    'moved by 1e-9 or 2.5e-4, i.e. by less than the tolerances of np.isclose - "keeps exactly its original value" is judged with ==',
    'in a session the caller may write one float cell of one of his operands in place between two calls (value -> other value / NaN, NaN -> value): the calls that follow are judged '
    'by the operand as it is then (the statement is about the inputs of each call); what earlier results show after the edit is not looked at',
    'in one arrays case in eight every array is a view of ONE buffer starting at its first element (a[:n], a[::2][:n], a[::3][:n], row-strided and transposed blocks), so that '
    'arrays of one case can agree in address, dtype and shape and still hold other cells; the buffer itself must come back unwritten',
    'the decorated function is a plain function: pyg_base.wrapper refuses a functools.partial (no __name__), so "a partial with keywords" (brief class 24) cannot be decorated at all',
    'in about one case in twelve ONE timeseries (or the explicit target) has ONE stamp moved by 1 .. 999999 microseconds, mostly a stamp another operand / the target holds too: the two are '
    'different labels for every join policy and an as-of read takes the observation at or before / after the stamp at microsecond resolution; the index holding the moved stamp has resolution us or ns '
    '(an index of resolution s / ms cannot hold it: pandas would floor it while the harness builds the operand)',
    'an explicit index is also handed over as an object-dtype pd.Index holding datetime.datetime / pd.Timestamp objects (or both in turns) and as a DataFrame carrying the index (df_reindex docstring: '
    '"index : str, timeseries, pd.Index"); the result must carry the same instants, the type of the result index is not looked at. A bare list / tuple / numpy array of datetimes, of numpy datetime64 or of ISO text is NOT '
    'generated: the unchanged tree only takes a list for one bare Series (pandas does), loops over it element by element next to a list of operands, and refuses it in df_index / df_sync / presync '
    '("did not provide an index"); text labels come back as text',
    'containers of derived classes: a user subclass of list, collections.OrderedDict and pyg_base.dictattr are generated below the root and as the root of df_* calls (in one case in seven, every second container); '
    'their type must come back. A user subclass of dict (also of Dict / dictattr / OrderedDict, a defaultdict) is OUTSIDE the statement ("nested list/dict arguments": the loop factory lists the dict classes it walks by exact type, so that dictable / cell - dicts themselves - stay leaves) and generated only with PV_C03_INCLUDE_DICT_SUBCLASS=1: on the unchanged tree its members enter the common index '
    '(_pandas.py:72-77 _list uses isinstance) but come back unaligned (_loop.py:208 asks type(arg) in self.types) - df_sync([D(x=a, y=b), a]) hands back x and y on their own indices. '
    'Subclasses of tuple are not generated (nested tuples are outside the domain, see above; a namedtuple cannot be rebuilt from a list)',
    'F11 (fill method + frame with >= 2 columns + a partially-NaN row whose row-wise as-of value differs from the per-column as-of value at some target stamp) '
    'is fixed in /repo and generated; PV_C03_EXCLUDE_F11=1 leaves the class out by construction for runs against a tree without that fix',
    'F14 (bare arrays whose common length is 0 while some array is longer: ts[-0:] kept the whole array) is fixed in /repo and generated; '
    'PV_C03_EXCLUDE_F14=1 leaves the class out by construction',
    'F15 (fill method + a frame with zero rows came back without its columns) is fixed in /repo by 7d8a266 and generated again; '
    'PV_C03_EXCLUDE_F15=1 replaces such frames by zero-row Series for runs against a tree without that fix',
]

_BASE = datetime.datetime(2000, 1, 3)
AXIS = [_BASE + datetime.timedelta(hours=h) for h in (0, 12, 24, 48, 49, 96, 120, 168, 169, 240, 480, 1000)]
N = len(AXIS)
_KEYS = ['a', 'b', 'x', 'y', 'z', 'k', 'w']
_COLS = ['a', 'b', 'c', 'd']
JOINS = ['ij', 'inner', 'oj', 'outer', 'lj', 'left', 'rj', 'right']
METHODS = [None, None, 'ffill', 'bfill']

INCLUDE_F11 = os.environ.get('PV_C03_EXCLUDE_F11', '') != '1'      # fixed in /repo: the class is generated by default
INCLUDE_F14 = os.environ.get('PV_C03_EXCLUDE_F14', '') != '1'      # fixed in /repo: the class is generated by default
# F15 was fixed in /repo by 7d8a266 (nona mask of a zero-row frame), so the class is generated again; PV_C03_EXCLUDE_F15=1 leaves it out for older trees
INCLUDE_F15 = os.environ.get('PV_C03_EXCLUDE_F15', '') != '1'
# a USER subclass of dict (class D(dict), a subclass of pyg_base.Dict / dictattr / OrderedDict, a defaultdict) below or at the root: its members take part in the common index
# (_pandas._list uses isinstance) but are handed back unaligned (_loop.loops._wrapped asks `type(arg) in self.types`): a defect met by the generalisation pass for brief class 35,
# see ASSUMPTIONS. Not generated unless PV_C03_INCLUDE_DICT_SUBCLASS=1
INCLUDE_DICT_SUBCLASS = os.environ.get('PV_C03_INCLUDE_DICT_SUBCLASS', '') == '1'

# container tags: 'mylist' = a user subclass of list, 'odict' = collections.OrderedDict, 'dictattr' = pyg_base.dictattr, 'mydict' = a user subclass of dict (behind the switch)
_LISTS = ('list', 'tuple', 'mylist')
_DICTS = ('dict', 'Dict', 'odict', 'dictattr', 'mydict')
_OWNED = ('list', 'mylist') + _DICTS          # the containers a caller owns and may hand to several calls (every kind but the tuple)
_DERIVED = ('mylist', 'odict', 'dictattr', 'mydict')


class UserList(list):
    """a user's own subclass of list"""


class UserDict(dict):
    """a user's own subclass of dict"""


def _stamp(p):
    """the datetime of an axis position. An int is the axis stamp itself; a float k + m * 1e-7 is the stamp AXIS[k] moved by m microseconds (|m| < 10**6: inside
    one second, for |m| < 1000 inside one millisecond), so that positions sort as their stamps do"""
    if isinstance(p, int):
        return AXIS[p]
    k = int(round(p))
    return AXIS[k] + datetime.timedelta(microseconds=int(round((p - k) * 1e7)))


def _is_fine(p):
    return not isinstance(p, int)


# ============================================================================================ model (pure python, on specs)

def _walk(node):
    """depth-first leaves of a tree, in list order / dict insertion order"""
    t = node[0]
    if t in _LISTS:
        for c in node[1]:
            for x in _walk(c):
                yield x
    elif t in _DICTS:
        for k, c in node[1]:
            for x in _walk(c):
                yield x
    else:
        yield node


def _ts_leaves(node):
    return [l for l in _walk(node) if l[0] in ('s', 'f')]


def _depth(node):
    t = node[0]
    if t in _LISTS:
        return 1 + max([_depth(c) for c in node[1]], default=0)
    if t in _DICTS:
        return 1 + max([_depth(c) for k, c in node[1]], default=0)
    return 0


def _jkind(join):
    return join[0] if isinstance(join, list) else join[0].lower()


def _exp_index(join, idxs, top=None):
    """idxs: index (list of axis positions) of every timeseries in walk order -> expected positions, None if nothing to align"""
    if not idxs:
        return None
    k = _jkind(join)
    if k in ('idx', 'series', 'raw'):
        return list(join[1])
    if k == 'arg':
        return list(top[join[1]][1])
    if k in ('member', 'member_index'):
        return list(idxs[join[1]])
    if k == 'i':
        return [p for p in idxs[0] if all(p in s for s in idxs[1:])]
    if k == 'o':
        out = set()
        for s in idxs:
            out |= set(s)
        return sorted(out)
    if k == 'l':
        return list(idxs[0])
    if k == 'r':
        return list(idxs[-1])
    raise ValueError(join)


def _exp_cols(policy, colsets):
    """colsets: column lists of the frames with >= 2 columns, walk order -> expected common columns (list), None = no column alignment"""
    if policy is None or policy is False or not colsets:
        return None
    k = policy[0].lower()
    if k == 'i':
        return [c for c in colsets[0] if all(c in s for s in colsets[1:])]
    if k == 'o':
        out = set()
        for s in colsets:
            out |= set(s)
        return sorted(out)
    if k == 'l':
        return list(colsets[0])
    if k == 'r':
        return list(colsets[-1])
    raise ValueError(policy)


def _asof(idx, vals, target, method):
    """one column {idx[i]: vals[i]} read at the target positions. returns (values, n_filled_from_other_stamp)"""
    out, filled = [], 0
    here = dict(zip(idx, vals))
    for t in target:
        v = here.get(t)
        if v is None and method == 'ffill':
            for p, x in zip(idx, vals):
                if p <= t and x is not None:
                    v = x
            filled += v is not None
        elif v is None and method == 'bfill':
            for p, x in zip(reversed(idx), reversed(vals)):
                if p >= t and x is not None:
                    v = x
            filled += v is not None
        out.append(v)
    return out, filled


def _rowwise_asof(idx, rows, target, method):
    """the row-wise reading (rows that are entirely NaN are no observation, every other row is one): used ONLY to delimit the F11 class"""
    keep = [(p, r) for p, r in zip(idx, rows) if any(x is not None for x in r)]
    w = len(rows[0]) if rows else 0
    out = []
    for t in target:
        row = None
        if method == 'ffill':
            for p, r in keep:
                if p <= t:
                    row = r
        else:
            for p, r in reversed(keep):
                if p >= t:
                    row = r
        out.append(list(row) if row is not None else [None] * w)
    return out


def _col(rows, j):
    return [r[j] for r in rows]


def _frame_is_f11(leaf, target, method):
    idx, cols, rows = leaf[1], leaf[2], leaf[3]
    if method not in ('ffill', 'bfill') or len(cols) < 2 or not rows:
        return False
    if not any(any(x is None for x in r) and any(x is not None for x in r) for r in rows):
        return False
    rw = _rowwise_asof(idx, rows, target, method)
    for j in range(len(cols)):
        exp, _ = _asof(idx, _col(rows, j), target, method)
        if exp != [r[j] for r in rw]:
            return True
    return False


def _spec_target(spec):
    tree = spec['tree']
    leaves = _ts_leaves(tree)
    return _exp_index(spec['join'], [l[1] for l in leaves], tree[1] if tree[0] in _LISTS else None)


def is_f11(spec):
    """signature of known finding F11: fill method + multi-column frame + partially-NaN row that matters at the target index"""
    if 'tree' not in spec or spec.get('method') not in ('ffill', 'bfill'):
        return False
    target = _spec_target(spec)
    if target is None:
        return False
    return any(l[0] == 'f' and _frame_is_f11(l, target, spec['method']) for l in _ts_leaves(spec['tree']))


def _map_tree(node, f):
    t = node[0]
    if t in _LISTS:
        return [t, [_map_tree(c, f) for c in node[1]]]
    if t in _DICTS:
        return [t, [[k, _map_tree(c, f)] for k, c in node[1]]]
    return f(node)


def _repair_f11(spec):
    """construction, not filtering: in the offending frames every partially-NaN row becomes an all-NaN row (the class then cannot occur)"""
    if INCLUDE_F11 or not is_f11(spec):
        return spec
    target = _spec_target(spec)

    def fix(leaf):
        if leaf[0] == 'f' and _frame_is_f11(leaf, target, spec['method']):
            rows = [[None] * len(r) if any(x is None for x in r) else list(r) for r in leaf[3]]
            return ['f', leaf[1], leaf[2], rows] + list(leaf[4:])
        return leaf
    return dict(spec, tree=_map_tree(spec['tree'], fix))


# ---- arrays

def _arr_leaves(node):
    return [l for l in _walk(node) if l[0] == 'a']


def _arr_n(join, lens):
    if not lens:
        return None
    k = join[0].lower()
    return {'i': min(lens), 'o': max(lens), 'l': lens[0], 'r': lens[-1]}[k]


def is_f14(spec):
    """signature of known finding F14: bare arrays, common length 0, some array longer"""
    if spec.get('kind') != 'arrays':
        return False
    lens = [l[2][0] for l in _arr_leaves(spec['tree'])]
    return bool(lens) and _arr_n(spec['join'], lens) == 0 and max(lens) > 0


def _repair_f14(spec):
    """construction: every empty array gets one row, so the common length cannot be 0 while something is longer"""
    if INCLUDE_F14 or not is_f14(spec):
        return spec
    count = [0]

    def fix(leaf):
        if leaf[0] == 'a' and leaf[2][0] == 0:
            count[0] += 1
            w = leaf[2][1] if len(leaf[2]) == 2 else 1
            vals = [9000 + 10 * count[0] + j for j in range(w)]
            return ['a', leaf[1], [1] + list(leaf[2][1:]), [float(v) if leaf[1] == 'float' else v for v in vals]]
        return leaf
    return dict(spec, tree=_map_tree(spec['tree'], fix))


def is_f15(spec):
    """signature of known finding F15: fill method + a frame with zero rows (it comes back without its columns)"""
    if 'tree' not in spec or spec.get('kind') == 'arrays' or spec.get('method') not in ('ffill', 'bfill'):
        return False
    return any(l[0] == 'f' and not l[1] for l in _ts_leaves(spec['tree']))


def _repair_f15(spec):
    """construction: under a fill method a zero-row frame is replaced by a zero-row Series (same index, so every expected index is unchanged)"""
    if INCLUDE_F15 or not is_f15(spec):
        return spec
    return dict(spec, tree=_map_tree(spec['tree'], lambda l: ['s', [], [], 'float'] + list(l[4:]) if (l[0] == 'f' and not l[1]) else l))


def _repair(spec):
    return _repair_f11(_repair_f15(spec))


KNOWN = {'c03.fill_frame_partial_nan_row': is_f11, 'c03.arrays_common_length_zero': is_f14, 'c03.fill_frame_zero_rows': is_f15}


# ============================================================================================ builders

def _nan(x):
    return float('nan') if x is None else x


_SHARED = [None]     # a dict while a case with spec['share_index'] is being built: equal position lists (and unit) -> ONE pd.Index object


def _opts(node):
    return node[4] if len(node) > 4 else {}


def _unit(node_or_join):
    """resolution of the index of a leaf / of an explicit target; None = what pandas infers from datetime objects"""
    if node_or_join[0] in ('s', 'f'):
        return _opts(node_or_join).get('unit')
    return node_or_join[2] if len(node_or_join) > 2 else None


_TZ = [None]      # the time zone of every index of the case that is running (spec['tz']); None = naive stamps


def _aware(t):
    """the axis stamp t as the case spells it: the wall time t in the case's zone"""
    import pandas as pd
    return t if _TZ[0] is None else pd.Timestamp(t).tz_localize(_TZ[0])


def _same_stamp(g, t):
    if _TZ[0] is None:
        return g == t
    return getattr(g, 'tzinfo', None) is not None and g == _aware(t)       # the same instant, still zone-aware


def _mk_index(pos, unit=None):
    import pandas as pd

    def make():
        i = pd.DatetimeIndex([_stamp(p) for p in pos])
        if unit in ('s', 'ms') and any(_is_fine(p) for p in pos):
            raise AssertionError('harness: an index of resolution %s cannot hold the stamps %s' % (unit, pos))
        i = i.as_unit(unit) if unit else i
        return i.tz_localize(_TZ[0]) if _TZ[0] else i
    if _SHARED[0] is not None:
        key = (tuple(pos), unit, _TZ[0])
        if key not in _SHARED[0]:
            _SHARED[0][key] = make()
        return _SHARED[0][key]
    return make()


def _build_case(spec):
    """builds spec['tree']; with spec['share_index'] timeseries whose stamps are equal share one index object (as columns cut out
    of one frame, or series built on one calendar, do)"""
    if _SESSION[0]:        # inside a session: objects, containers and index objects are managed by run_session
        return _build(spec['tree'])
    _SHARED[0] = {} if spec.get('share_index') else None
    _OBJECTS[0] = {} if spec.get('same_objects') else None      # equal leaf specs -> one object, handed in several times
    _SNAPS[0] = []
    try:
        return _build(spec['tree'])
    finally:
        _SHARED[0] = None
        _OBJECTS[0] = None


def _share_classes(spec, leaves):
    idxs = [tuple(l[1]) for l in leaves]
    if not spec.get('share_index') or len(set(idxs)) == len(idxs):
        return []
    cls = ['shared_index_object']
    for i in range(len(idxs)):
        for j in range(i + 2, len(idxs)):
            if idxs[i] == idxs[j] and any(idxs[k] != idxs[i] for k in range(i + 1, j)):
                if 'shared_index_object_around_another_index' not in cls:
                    cls.append('shared_index_object_around_another_index')
                if j == len(idxs) - 1 and 'last_series_shares_index_object_with_earlier' not in cls:
                    cls.append('last_series_shares_index_object_with_earlier')
                    if _jkind(spec['join']) == 'r':
                        cls.append('right_join_on_a_shared_index_object')
    return cls


_OBJECTS = [None]     # timeseries leaf spec (json) -> the ONE object built for it (a session: shared by all its calls; spec['same_objects']: within the case)
_CONTAINERS = [None]  # while a session with share_containers runs: container spec (json) -> the ONE list / dict built for it, handed to several calls
_SESSION = [False]
_SNAPS = [[]]         # (container, its members at build time): the caller's own containers must come back from every call as they went in


def _build(node):
    if _OBJECTS[0] is not None and node[0] in ('s', 'f'):
        key = json.dumps(node)
        if key not in _OBJECTS[0]:
            _OBJECTS[0][key] = _build_node(node)
        return _OBJECTS[0][key]
    if _CONTAINERS[0] is not None and node[0] in _OWNED:
        key = json.dumps(node)
        if key not in _CONTAINERS[0]:
            _CONTAINERS[0][key] = _snap(_build_node(node))
        return _CONTAINERS[0][key]
    if node[0] in _OWNED:
        return _snap(_build_node(node))
    return _build_node(node)


def _snap(container):
    _SNAPS[0].append((container, list(container.items()) if isinstance(container, dict) else list(container)))
    return container


def _verify_containers(what):
    """the caller's own lists / dicts still hold the very objects (same order, same keys) they were built with"""
    for container, members in _SNAPS[0]:
        now = list(container.items()) if isinstance(container, dict) else list(container)
        ok = len(now) == len(members)
        if ok and isinstance(container, dict):
            ok = all(a[0] == b[0] and a[1] is b[1] for a, b in zip(now, members))
        elif ok:
            ok = all(a is b for a, b in zip(now, members))
        if not ok:
            raise Violation('%s modified a container of its caller: %s now holds %s' % (what, short(members, 120), short(now, 120)))


def _build_node(node):
    import numpy as np
    import pandas as pd
    t = node[0]
    if t == 'v':
        return node[1]
    if t == 's':
        idx, vals, dtype = node[1], node[2], node[3]
        if dtype == 'int':
            return pd.Series(np.array(vals, dtype='int64'), index=_mk_index(idx, _unit(node)))
        return pd.Series(np.array([_nan(v) for v in vals], dtype='float64'), index=_mk_index(idx, _unit(node)))
    if t == 'f':
        idx, cols, rows = node[1], node[2], node[3]
        intcols = _opts(node).get('intcols') or []
        if intcols:
            data = {j: np.array([_nan(r[j]) for r in rows], dtype='int64' if j in intcols else 'float64') for j in range(len(cols))}
            res = pd.DataFrame(data, index=_mk_index(idx, _unit(node)))
            res.columns = list(cols)
            return res
        data = np.array([[_nan(x) for x in r] for r in rows], dtype='float64').reshape((len(idx), len(cols)))
        return pd.DataFrame(data, index=_mk_index(idx, _unit(node)), columns=list(cols))
    if t == 'a':
        dtype, shape, flat = node[1], node[2], node[3]
        if _opts(node).get('view'):
            return _build_view(node)
        if dtype == 'int':
            return np.array(flat, dtype='int64').reshape(shape)
        return np.array([_nan(x) for x in flat], dtype='float64').reshape(shape)
    if t == 'list':
        return [_build(c) for c in node[1]]
    if t == 'tuple':
        return tuple(_build(c) for c in node[1])
    if t == 'dict':
        return {k: _build(c) for k, c in node[1]}
    if t == 'Dict':
        from pyg_base import Dict
        return Dict({k: _build(c) for k, c in node[1]})
    if t == 'mylist':
        return UserList([_build(c) for c in node[1]])
    if t == 'odict':
        import collections
        return collections.OrderedDict([(k, _build(c)) for k, c in node[1]])
    if t == 'dictattr':
        from pyg_base import dictattr
        return dictattr({k: _build(c) for k, c in node[1]})
    if t == 'mydict':
        return UserDict({k: _build(c) for k, c in node[1]})
    raise ValueError(node)


_BUFFER = [None]     # while an arrays case with spec['buffer'] runs: the ONE numpy buffer every array of the case is a view of


def _view_cells(buf, shape, layout):
    """the cells (row-major) of the view `layout` of the 1-d buffer `buf` (a plain list); every layout starts at buf[0]:
    'c' = buf[:n] / buf[:n*w].reshape(n, w); 's2', 's3' = every 2nd / 3rd element (row); 't' = buf[:n*w].reshape(w, n).T"""
    n = shape[0]
    w = shape[1] if len(shape) == 2 else 1
    if layout == 'c':
        return list(buf[:n * w])
    if layout in ('s2', 's3'):
        step = int(layout[1])
        return [buf[i * step * w + j] for i in range(n) for j in range(w)]
    if layout == 't':
        return [buf[j * n + i] for i in range(n) for j in range(w)]
    raise ValueError(layout)


def _build_view(node):
    """an array that is a VIEW of the buffer of the case: same start address and dtype as every other view, its own strides"""
    import numpy as np
    shape, layout = node[2], _opts(node)['view']
    buf = _BUFFER[0]
    n = shape[0]
    w = shape[1] if len(shape) == 2 else 1
    if layout == 'c':
        res = buf[:n * w].reshape(shape)
    elif layout in ('s2', 's3'):
        step = int(layout[1])
        res = buf[:n * step * w].reshape((n * step, w))[::step] if len(shape) == 2 else buf[::step][:n]
    else:
        res = buf[:n * w].reshape((w, n)).T
    if not (list(res.shape) == list(shape) and (res.size == 0 or np.shares_memory(res, buf))):
        raise AssertionError('harness: view %s is not a view' % (node,))
    got = [None if x != x else x for x in res.reshape(-1).tolist()]
    if got != list(node[3]):
        raise AssertionError('harness: view %s holds %s' % (node, got))
    return res


def _leaf_objects(node, obj):
    """the built timeseries objects of a tree, in walk order"""
    t = node[0]
    if t in _LISTS:
        return [x for i, c in enumerate(node[1]) for x in _leaf_objects(c, obj[i])]
    if t in _DICTS:
        return [x for k, c in node[1] for x in _leaf_objects(c, obj[k])]
    return [obj] if t in ('s', 'f') else []


def _raw_index(pos, form):
    """the explicit index in another raw form than a DatetimeIndex: an object-dtype pd.Index holding datetime.datetime objects ('obj_dt') / pd.Timestamp objects
    ('obj_ts') / both in turns ('obj_mixed'), or a DataFrame carrying the index ('frame'; a Series carrying it is the join kind 'series')"""
    import pandas as pd
    stamps = [pd.Timestamp(_aware(_stamp(p))) for p in pos]
    if form == 'frame':
        return pd.DataFrame([[float(i), -1.0] for i in range(len(pos))], index=_mk_index(pos), columns=['u', 'v'])
    if form == 'obj_dt':
        return pd.Index([t.to_pydatetime() for t in stamps], dtype=object)
    if form == 'obj_ts':
        return pd.Index(stamps, dtype=object)
    if form == 'obj_mixed':
        return pd.Index([t.to_pydatetime() if i % 2 else t for i, t in enumerate(stamps)], dtype=object)
    raise ValueError(form)


_RAW_FORMS = ['obj_dt', 'obj_ts', 'obj_mixed', 'frame']


def _build_join(join, tree=None, objs=None):
    if isinstance(join, list):
        if join[0] == 'idx':
            return _mk_index(join[1], _unit(join))
        if join[0] == 'series':
            return _build_node(['s', join[1], [float(i) for i in range(len(join[1]))], 'float'] + ([{'unit': _unit(join)}] if _unit(join) else []))
        if join[0] == 'raw':
            return _raw_index(join[1], join[2])
        if join[0] == 'arg':
            return 'p%i' % join[1]
        if join[0] == 'member':
            return _leaf_objects(tree, objs)[join[1]]
        if join[0] == 'member_index':
            return _leaf_objects(tree, objs)[join[1]].index
    return join


# ============================================================================================ reading results

def _num(v):
    try:
        return float(v)
    except Exception:
        return ('not a number', repr(v))


def _same(got, exp):
    if exp is None:
        return got != got
    return got == exp


def _show(vals):
    return '[' + ', '.join('nan' if (v is None or v != v) else repr(v) for v in vals) + ']'


def _check_index(where, res, target):
    got = list(res.index)
    ok = len(got) == len(target) and all(_same_stamp(g, _stamp(p)) for g, p in zip(got, target))
    check(ok, '%s: index is %s, expected %s', where, [str(g) for g in got], [str(_aware(_stamp(p))) for p in target])


def _check_column(where, got, exp):
    got = [_num(v) for v in got]
    if len(got) != len(exp) or not all(_same(g, e) for g, e in zip(got, exp)):
        raise Violation('%s: values are %s, expected %s' % (where, _show(got), _show(exp)))


class _Ctx(object):
    def __init__(self, what, target, method, cols):
        self.what, self.target, self.method, self.cols = what, target, method, cols
        self.filled = 0


def _cmp_series(node, res, ctx, path):
    import pandas as pd
    where = '%s at %s' % (ctx.what, path)
    check(isinstance(res, pd.Series), '%s: a Series came back as %s', where, type(res).__name__)
    _check_index(where, res, ctx.target)
    exp, filled = _asof(node[1], node[2], ctx.target, ctx.method)
    ctx.filled += filled
    _check_column(where, res.values.tolist(), exp)


def _cmp_frame(node, res, ctx, path):
    import pandas as pd
    where = '%s at %s' % (ctx.what, path)
    idx, cols, rows = node[1], node[2], node[3]
    check(isinstance(res, pd.DataFrame), '%s: a DataFrame came back as %s', where, type(res).__name__)
    _check_index(where, res, ctx.target)
    if len(set(cols)) < len(cols):
        # labels that repeat: no column policy acts on such a frame (ASSUMPTIONS), it keeps its columns as they are; cells are read by position
        got = list(res.columns)
        check(got == list(cols), '%s: columns are %s, expected its own %s', where, got, cols)
        for j in range(len(cols)):
            exp, filled = _asof(idx, _col(rows, j), ctx.target, ctx.method)
            ctx.filled += filled
            _check_column('%s column #%i (%r)' % (where, j, cols[j]), res.iloc[:, j].values.tolist(), exp)
        return
    expcols = ctx.cols if (ctx.cols is not None and len(cols) >= 2) else cols
    got = list(res.columns)
    check(len(got) == len(set(got)) and set(got) == set(expcols), '%s: columns are %s, expected the set %s (own columns %s)', where, got, sorted(expcols), cols)
    for c in got:
        if c in cols:
            exp, filled = _asof(idx, _col(rows, cols.index(c)), ctx.target, ctx.method)
            ctx.filled += filled
        else:
            exp = [None] * len(ctx.target)
        _check_column('%s column %r' % (where, c), res[c].values.tolist(), exp)


def _cmp(node, orig, res, ctx, path='result'):
    t = node[0]
    where = '%s at %s' % (ctx.what, path)
    if t == 'v':
        check(res is orig, '%s: the non-timeseries member %s came back as %s (not the same object)', where, orig, res)
    elif t in _LISTS:
        check(type(res) is type(orig), '%s: a %s came back as %s', where, type(orig).__name__, type(res).__name__)
        check(len(res) == len(orig), '%s: %s members came back as %s', where, len(orig), len(res))
        for i, c in enumerate(node[1]):
            _cmp(c, orig[i], res[i], ctx, '%s[%i]' % (path, i))
    elif t in _DICTS:
        check(type(res) is type(orig), '%s: a %s came back as %s', where, type(orig).__name__, type(res).__name__)
        check(sorted(res.keys()) == sorted(orig.keys()), '%s: keys %s came back as %s', where, sorted(orig.keys()), sorted(res.keys()))
        for k, c in node[1]:
            _cmp(c, orig[k], res[k], ctx, '%s[%r]' % (path, k))
    elif t == 's':
        _cmp_series(node, res, ctx, path)
    elif t == 'f':
        _cmp_frame(node, res, ctx, path)
    else:
        raise ValueError(node)


def _verify_all(tree, objs, what):
    _verify_containers(what)
    _verify_inputs(tree, objs, what)


def _verify_inputs(node, obj, what, path='argument'):
    """operands unchanged: the objects handed in must still be what the spec says"""
    t = node[0]
    if t in _LISTS:
        if not (isinstance(obj, (list, tuple)) and len(obj) == len(node[1])):
            raise Violation('%s modified the container %s: now %s' % (what, path, short(obj, 120)))
        for i, c in enumerate(node[1]):
            _verify_inputs(c, obj[i], what, '%s[%i]' % (path, i))
    elif t in _DICTS:
        if not isinstance(obj, dict):
            raise Violation('%s modified the container %s: now %s' % (what, path, short(obj, 120)))
        check(sorted(obj.keys()) == sorted(k for k, c in node[1]), '%s modified the keys of %s', what, path)
        for k, c in node[1]:
            _verify_inputs(c, obj[k], what, '%s[%r]' % (path, k))
    elif t == 's':
        ctx = _Ctx('%s modified its input: input' % what, node[1], None, None)
        _cmp_series(node, obj, ctx, path)
    elif t == 'f':
        ctx = _Ctx('%s modified its input: input' % what, node[1], None, None)
        _cmp_frame(node, obj, ctx, path)
    elif t == 'a':
        _cmp_array(node, obj, node[2][0], None, '%s modified its input: input at %s' % (what, path))


def _describe(spec):
    tree = spec['tree']
    return '%s(<%s>, join=%s, method=%s%s)%s' % (spec['call'], _sketch(tree), spec['join'], spec['method'],
                                                   ', columns=%s' % (spec['columns'],) if 'columns' in spec else '',
                                                   ' [keyword call]' if spec.get('kw') else '')


_SKETCH = {'mylist': 'UserList', 'odict': 'OrderedDict', 'dictattr': 'dictattr', 'mydict': 'UserDict'}


def _sketch(node):
    t = node[0]
    if t in _LISTS:
        return _SKETCH.get(t, t[0]) + '[' + ','.join(_sketch(c) for c in node[1]) + ']'
    if t in _DICTS:
        return _SKETCH.get(t, t[0]) + '{' + ','.join('%s:%s' % (k, _sketch(c)) for k, c in node[1]) + '}'
    if t == 's':
        return 'S%s%s' % (node[1], _unit(node) or '')
    if t == 'f':
        return 'F%s%s%s' % (''.join(str(c) for c in node[2]) if all(isinstance(c, str) for c in node[2]) else node[2], node[1], _unit(node) or '')
    if t == 'a':
        return 'A%s%s' % (node[2], _opts(node).get('view') or '')
    return repr(node[1])


# ============================================================================================ classes

def _fingerprints(idxs, prefix):
    """labels for index collections that look alike to a shortcut (same length / endpoints / prefix / nesting) without being equal"""
    out = []
    if len(idxs) < 2:
        return out
    allsame = all(i == idxs[0] for i in idxs)
    nonempty = all(len(i) for i in idxs)
    samelen = len(set(len(i) for i in idxs)) == 1
    sameends = nonempty and len(set((i[0], i[-1]) for i in idxs)) == 1
    if allsame:
        out.append('all_equal')
    if not allsame and samelen and sameends and len(idxs[0]) >= 3:
        out.append('same_span_same_length_different_interior')
    if not allsame and samelen and nonempty:
        out.append('same_length_different_stamps')
    if not samelen and sameends:
        out.append('same_endpoints_different_length')
    if not allsame and nonempty and len(set(i[0] for i in idxs)) == 1 and len(set(tuple(i[:2]) for i in idxs)) == 1 and min(len(i) for i in idxs) >= 2:
        out.append('same_first_two_stamps')
    if not allsame and nonempty and len(set(tuple(i[-2:]) for i in idxs)) == 1 and min(len(i) for i in idxs) >= 2:
        out.append('same_last_two_stamps')
    srt = sorted(idxs, key=len)
    if not allsame and nonempty and all(set(a) < set(b) or a == b for a, b in zip(srt[:-1], srt[1:])):
        out.append('nested_chain')
    pair = False
    for i in range(len(idxs)):
        for j in range(i + 1, len(idxs)):
            a, b = idxs[i], idxs[j]
            if len(a) == len(b) >= 3 and a != b and a[0] == b[0] and a[-1] == b[-1]:
                pair = True
    if pair:
        out.append('pair_same_span_same_length_different_interior')
    return [prefix + c for c in out]


def _classes(spec, leaves, target, ctx):
    idxs = [l[1] for l in leaves]
    cls = ['call=' + spec['call'], 'join=' + _jkind(spec['join']), 'method=%s' % spec['method']]
    if 'columns' in spec:
        cls.append('cols=%s' % (spec['columns'],))
    d = _depth(spec['tree'])
    cls.append('depth>=2' if d >= 2 else 'depth<2')
    if d >= 3:
        cls.append('depth=3')
    if any(len(i) == 0 for i in idxs):
        cls.append('empty_series')
    partial = disjoint = False
    for i in range(len(idxs)):
        for j in range(i + 1, len(idxs)):
            a, b = set(idxs[i]), set(idxs[j])
            if a and b and not (a & b):
                disjoint = True
            elif a and b and not (a <= b or b <= a):
                partial = True
    cls += _fingerprints(idxs, '')
    if isinstance(spec['join'], list) and spec['join'][0] in ('idx', 'series', 'raw'):
        for i in idxs:
            cls += [c for c in _fingerprints([i, list(spec['join'][1])], 'vs_target:') if c not in cls]
    if partial:
        cls.append('partial_overlap')
    if disjoint:
        cls.append('disjoint')
    if len(idxs) >= 2 and target is not None and len(target) == 0 and _jkind(spec['join']) == 'i' and all(len(i) for i in idxs):
        cls.append('empty_intersection')
    multi = [l[2] for l in leaves if l[0] == 'f' and len(l[2]) >= 2]
    if len(set(tuple(sorted(c)) for c in multi)) >= 2:
        cls.append('frames_differing_columns')
    if multi:
        cls.append('multi_column_frame')
    if any(l[0] == 'f' and len(l[2]) == 1 for l in leaves):
        cls.append('single_column_frame')
    if any(l[0] == 'f' and any(any(x is None for x in r) and any(x is not None for x in r) for r in l[3]) for l in leaves):
        cls.append('frame_partial_nan_row')
    if any(l[0] == 'v' for l in _walk(spec['tree'])):
        cls.append('non_timeseries_member')
    if ctx is not None and ctx.filled:
        cls.append('as_of_filled_cell')
    if 'same_span_same_length_different_interior' in cls and _jkind(spec['join']) in ('i', 'o'):
        cls.append('twins_under_ij_oj')
    cls += _share_classes(spec, leaves)
    if spec.get('tz'):
        cls.append('zone_aware_stamps')
        if spec['tz'] != 'Europe/London' and _jkind(spec['join']) == 'o' and len(idxs) >= 2:
            cls.append('zone_aware_stamps_off_utc_under_an_outer_join')
    cls += _round4_classes(spec, leaves, target)
    cls += _round6_classes(spec, leaves, target)
    cls += _round7_classes(spec, leaves, target)
    nt = len(idxs) >= 2 and (partial or disjoint) or bool(ctx is not None and ctx.filled)
    return dict(nt=bool(nt), cls=cls)


def _list_sizes(node, top=True, npos=None):
    """member counts of the list / tuple containers the library loops over (presync: the positional arguments form one such tuple)"""
    t = node[0]
    out = []
    if t in _LISTS:
        out.append(npos if (top and npos is not None) else len(node[1]))
        for c in node[1]:
            out += _list_sizes(c, False)
    elif t in _DICTS:
        for k, c in node[1]:
            out += _list_sizes(c, False)
    return out


def _dict_keys(node):
    t = node[0]
    if t in _LISTS:
        return [k for c in node[1] for k in _dict_keys(c)]
    if t in _DICTS:
        return [k for k, c in node[1]] + [x for k, c in node[1] for x in _dict_keys(c)]
    return []


def _cells(leaf):
    """the float cells of a timeseries leaf, row by row (None = NaN); int64 Series / columns are left out"""
    if leaf[0] == 's':
        return list(leaf[2]) if leaf[3] == 'float' else []
    intcols = _opts(leaf).get('intcols') or []
    return [v for r in leaf[3] for j, v in enumerate(r) if j not in intcols]


def _close(a, b):
    import math
    return (a is None and b is None) or (a is not None and b is not None and math.isclose(a, b, rel_tol=1e-5, abs_tol=1e-8))


def _round6_classes(spec, leaves, target):
    """labels of the input classes added for bug classes 21-29 of the builder brief (zone-aware stamps are labelled in _classes)"""
    cls = []
    method = spec['method']
    # 22: a fill is asked for a stamp before the first / after the last observation of a column that has observations: the answer is NaN, not
    # the observation at the other end
    if method in ('ffill', 'bfill') and target:
        edge = False
        for l in leaves:
            columns = [l[2]] if l[0] == 's' else [_col(l[3], j) for j in range(len(l[2]))]
            for c in columns:
                obs = [p for p, v in zip(l[1], c) if v is not None]
                if obs and ((method == 'ffill' and target[0] < obs[0]) or (method == 'bfill' and target[-1] > obs[-1])):
                    edge = True
        if edge:
            cls.append('fill_asked_beyond_the_first_or_last_observation')
    # 27: two timeseries on the same stamps whose cells differ, all by less than the tolerances of np.isclose
    near = False
    for i, a in enumerate(leaves):
        for b in leaves[i + 1:]:
            if a[0] == b[0] and a[1] == b[1] and (a[0] == 's' or a[2] == b[2]):
                x, y = _cells(a), _cells(b)
                if len(x) == len(y) and x != y and all(_close(u, v) for u, v in zip(x, y)):
                    near = True
    if near:
        cls.append('near_equal_operands')
    vals = [v for l in leaves for v in _cells(l) if v is not None]
    if any(v != 0 and abs(v) < 1e-8 for v in vals):
        cls.append('tiny_cell_values')
    # 29: a cell that is exactly 0.0 / -0.0 is an observation like any other
    if any(v == 0 for v in vals):
        cls.append('zero_cell_value')
        if method in ('ffill', 'bfill'):
            cls.append('zero_cell_value_under_a_fill')
    return cls


def _container_tags(node, top=True):
    """(tag, is it the root) of every container of a tree"""
    t = node[0]
    if t in _LISTS:
        return [(t, top)] + [x for c in node[1] for x in _container_tags(c, False)]
    if t in _DICTS:
        return [(t, top)] + [x for k, c in node[1] for x in _container_tags(c, False)]
    return []


def _round7_classes(spec, leaves, target):
    """labels of the input classes added for bug classes 32, 33, 35 of the builder brief"""
    cls = []
    join, method = spec['join'], spec['method']
    # 32: two labels of the case (in two operands, or in an operand and the explicit target) that are the same stamp but for some microseconds
    lists = [list(l[1]) for l in leaves]
    if isinstance(join, list) and join[0] in ('idx', 'series', 'raw'):
        lists.append(list(join[1]))
    stamps = sorted(set(p for i in lists for p in i))
    gaps = [round((b - a) * 1e7) for a, b in zip(stamps, stamps[1:]) if int(round(a)) == int(round(b))]
    if gaps:
        cls.append('stamps_microseconds_apart')
        cls.append('stamps_apart_inside_one_millisecond' if min(gaps) < 1000 else 'stamps_apart_inside_one_second_only')
        if _jkind(join) in ('i', 'o', 'l', 'r') and len(leaves) >= 2:
            cls.append('stamps_microseconds_apart_under_a_join_policy')
        if method in ('ffill', 'bfill') and target and any(t not in l[1] and any(int(round(s)) == int(round(t)) for s in l[1]) for l in leaves for t in target):
            cls.append('as_of_read_microseconds_off_an_observation')      # the stamp asked for lies microseconds before / after a stamp the operand has
    # 33: the explicit index comes in another raw form than a DatetimeIndex
    if isinstance(join, list) and join[0] == 'raw':
        cls.append('explicit_index_in_another_raw_form')
        cls.append('raw_form=' + join[2])
    # 35: containers that are instances of classes derived from list / dict
    tags = _container_tags(spec['tree'])
    if spec['call'] == 'presync':
        tags = [(t, False) for t, top in tags[1:]]                 # the root of a presync tree is the argument list itself
    derived = [(t, top) for t, top in tags if t in _DERIVED]
    if derived:
        cls.append('container_of_a_derived_class')
        cls += sorted(set('container=' + t for t, top in derived))
        if any(not top for t, top in derived):
            cls.append('derived_container_below_the_root')
        if any(t == 'mydict' for t, top in derived):
            cls.append('user_subclass_of_dict')
    return cls


def _round4_classes(spec, leaves, target):
    """labels of the input classes added for bug classes 11-20 of the builder brief"""
    cls = []
    join = spec['join']
    units = set(_unit(l) or 'us' for l in leaves)
    if isinstance(join, list) and join[0] in ('idx', 'series'):
        units.add(_unit(join) or 'us')
    if len(units) >= 2:
        cls.append('mixed_datetime_units')
    keys = [json.dumps(l) for l in leaves]
    if len(set(keys)) < len(keys):
        one = bool(spec.get('same_objects') or _SESSION[0])
        cls.append('same_object_passed_twice' if one else 'equal_operands_distinct_objects')
        k = _jkind(join)
        if one and len(set(tuple(l[1]) for l in leaves)) >= 2 and ((k == 'r' and keys[-1] in keys[:-1]) or (k == 'l' and keys[0] in keys[1:])):
            cls.append('left_right_join_with_a_repeated_object')     # "the last / first timeseries" is an object that was met before / comes again
    if isinstance(join, list) and join[0] in ('member', 'member_index'):
        cls.append('operand_is_also_the_target')
    frames = [l for l in leaves if l[0] == 'f']
    if any(not isinstance(c, str) for l in frames for c in l[2]):
        cls.append('numeric_column_labels')
    if any(len(set(l[2])) < len(l[2]) for l in frames):
        cls.append('duplicate_column_labels')
    if any(_opts(l).get('intcols') for l in frames):
        cls.append('int_column_in_frame')
    if any(not isinstance(k, str) for k in _dict_keys(spec['tree'])):
        cls.append('numeric_dict_keys')
    sizes = _list_sizes(spec['tree'], True, spec.get('npos') if spec['call'] == 'presync' else None)
    if target is not None and len(target) >= 1 and len(target) in sizes:
        cls.append('index_length_equals_member_count')
        if isinstance(join, list) and join[0] in ('idx', 'series', 'raw', 'member', 'member_index'):
            cls.append('explicit_index_as_long_as_the_list')
    if spec.get('kw'):
        cls.append('keyword_call')
    return cls


# ============================================================================================ run: df_index / df_reindex / df_sync

def run_sync(spec):
    _TZ[0] = spec.get('tz')
    from pyg_base import df_sync, df_reindex, df_index
    tree, join, method, fn = spec['tree'], spec['join'], spec['method'], spec['call']
    objs = _build_case(spec)
    jarg = _build_join(join, tree, objs)
    leaves = _ts_leaves(tree)
    target = _exp_index(join, [l[1] for l in leaves])
    what = _describe(spec)
    ctx = None
    kw = bool(spec.get('kw'))
    if fn == 'df_index':
        res = call(what, df_index, seq=objs, index=jarg) if kw else call(what, df_index, objs, jarg)
        if target is not None:
            check(res is not None and hasattr(res, '__len__') and len(res) == len(target) and all(_same_stamp(g, _stamp(p)) for g, p in zip(list(res), target)),
                  '%s returned %s, expected %s', what, res, [str(_aware(_stamp(p))) for p in target])
    else:
        if fn == 'df_reindex':
            res = call(what, df_reindex, ts=objs, index=jarg, method=method) if kw else call(what, df_reindex, objs, jarg, method)
            cols = None
        else:
            res = (call(what, df_sync, dfs=objs, columns=spec['columns'], method=method, join=jarg) if kw
                   else call(what, df_sync, objs, jarg, method, spec['columns']))
            cols = _exp_cols(spec['columns'], [l[2] for l in leaves if l[0] == 'f' and len(l[2]) >= 2])
        ctx = _Ctx(what, target, method, cols)
        _cmp(tree, objs, res, ctx)
    _verify_all(tree, objs, what)
    return _classes(spec, leaves, target, ctx)


# ============================================================================================ run: presync

def _passthrough(p0=None, p1=None, p2=None, p3=None):
    return [p0, p1, p2, p3]


_DEFAULTS = [None]


def _defaults():
    """declared defaults of the 'defaults' shape: containers and timeseries. A default is not an argument: it is not aligned, it does not take part
    in the common index, and the function sees the very object"""
    if _DEFAULTS[0] is None:
        import pandas as pd
        s1 = pd.Series([-1.0], index=pd.DatetimeIndex([AXIS[5]]))
        s2 = pd.Series([-2.0], index=pd.DatetimeIndex([AXIS[11]]))
        f3 = pd.DataFrame([[-3.0, -4.0], [-5.0, -6.0]], index=pd.DatetimeIndex([AXIS[0], AXIS[11]]), columns=['a', 'z'])
        _DEFAULTS[0] = [None, s1, (s2, 'x'), {'a': f3, 'b': [s1]}]
    return _DEFAULTS[0]


def _verify_defaults(what):
    d = _defaults()
    f3 = d[3]['a']
    ok = (list(d[1].index) == [AXIS[5]] and d[1].values.tolist() == [-1.0] and list(d[2][0].index) == [AXIS[11]] and d[2][0].values.tolist() == [-2.0]
          and d[2][1] == 'x' and len(d[2]) == 2 and list(d[3].keys()) == ['a', 'b'] and d[3]['b'][0] is d[1] and len(d[3]['b']) == 1
          and list(f3.index) == [AXIS[0], AXIS[11]] and list(f3.columns) == ['a', 'z'] and f3.values.tolist() == [[-3.0, -4.0], [-5.0, -6.0]])
    if not ok:
        raise Violation('%s modified a declared default of the decorated function: %s' % (what, short(d, 300)))


_SIGS = {'named': 'f', 'varargs': 'f(p0, *rest)', 'varkw': 'f(p0, **kw)', 'var_both': 'f(*a, **kw)', 'kwonly': 'f(p0, *, p1, p2, p3)',
         'defaults': 'f(p0, p1=<Series>, p2=(<Series>, "x"), p3={"a": <frame>, "b": [<Series>]})'}


def _unpassed(sig, i):
    """what the function must see for a parameter that was not passed"""
    return _defaults()[i] if sig == 'defaults' else None


def _shaped(sig, sink=None, tag=False):
    """the decorated function in one of six signature shapes; it reports what it received as [p0, p1, p2, p3]
    (to `sink` when given, for the per-column mode, else as its result; with `tag` it adds its own shape as a fifth element)"""
    def out(vals):
        vals = (list(vals) + [None] * 4)[:4] + (['ran: ' + sig] if tag else [])
        if sink is None:
            return vals
        sink.append(vals)
        return 0.0
    if sig == 'varargs':
        def f(p0=None, *rest):
            return out([p0] + list(rest))
    elif sig == 'varkw':
        def f(p0=None, **kw):
            return out([p0] + [kw.get('p%i' % i) for i in (1, 2, 3)])
    elif sig == 'var_both':
        def f(*a, **kw):
            return out(list(a) + [kw.get('p%i' % i) for i in range(len(a), 4)])
    elif sig == 'kwonly':
        def f(p0=None, *, p1=None, p2=None, p3=None):
            return out([p0, p1, p2, p3])
    elif sig == 'defaults':
        d = _defaults()

        def f(p0=None, p1=d[1], p2=d[2], p3=d[3]):
            return out([p0, p1, p2, p3])
    else:
        def f(p0=None, p1=None, p2=None, p3=None):
            return out([p0, p1, p2, p3])
    return f


_PROP = {'i': 'ij', 'o': 'oj', 'l': 'lj', 'r': 'rj'}
_DECO = [None]     # while a session runs: the ONE parameterised presync decorator of the session and the functions it was applied to


def _decorate(spec, f, tree=None, objs=None):
    """presync(f) configured as the spec says; returns (callable, extra call-time keywords)"""
    from pyg_base import presync
    join, method, how, columns = spec['join'], spec['method'], spec['how'], spec['columns']
    jarg = _build_join(join, tree, objs)
    if how == 'shared':
        # one decorator object for the whole session, applied to (at most) one function per shape; this call reaches its policy through
        # `via`: plain (the policy the decorator was built with), call-time keywords, or the .oj/.ffill properties (which must not touch the object)
        if _DECO[0] is None:
            d = spec['deco']
            _DECO[0] = dict(D=presync(index=d['join'], method=d['method'], columns=False), g={})
        if spec['sig'] not in _DECO[0]['g']:
            _DECO[0]['g'][spec['sig']] = _DECO[0]['D'](f)
        g = _DECO[0]['g'][spec['sig']]
        if spec['via'] == 'call':
            return g, dict(join=jarg, method=method)
        if spec['via'] == 'call_join':
            return g, dict(join=jarg)
        if spec['via'] == 'prop':
            g = getattr(g, _PROP[_jkind(join)])
            if spec.get('prop_method'):
                g = getattr(g, method)
        return g, {}
    opts = {}
    if spec.get('default') is not None:
        opts['default'] = spec['default']
    extra = {}
    if spec.get('columns_call'):
        # the column policy arrives at call time; the constructor is given another one (or none), which must lose
        extra['columns'] = columns
        if spec['columns_call'] != 'unset':
            opts['columns'] = spec['columns_call']
    else:
        opts['columns'] = columns
    if how == 'ctor':
        return presync(f, index=jarg, method=method, **opts), extra
    if how == 'call':
        return presync(f, **opts), dict(extra, join=jarg, method=method)
    # properties
    g = presync(f, **opts)
    g = getattr(g, _PROP[_jkind(join)])
    if method is not None:
        g = getattr(g, method)
    return g, extra


def _how_note(spec):
    out = ''
    if spec.get('columns_call'):
        out += ' [columns=%s given at call time, constructor columns: %s]' % (spec['columns'], spec['columns_call'])
    if spec.get('default') is not None:
        out += ' [default=%s]' % spec['default']
    if spec.get('how') == 'shared':
        out += ' [one decorator object presync(index=%s, method=%s, columns=False) for the session; this call via %s]' % (
            spec['deco']['join'], spec['deco']['method'], spec['via'] + ('+method property' if spec.get('prop_method') else ''))
    return out


def _presync_classes(spec, kids):
    cls = []
    if spec.get('columns_call'):
        cls.append('columns_given_at_call_time')
    if spec.get('default') is not None:
        cls.append('default=given')
        if spec['default'] == 0:
            cls.append('default=0.0')          # a falsy default is a default like any other
    if spec.get('sig') == 'defaults' and len(kids) < 4:
        cls.append('timeseries_in_an_unpassed_declared_default')
    if spec.get('sig') == 'kwonly' and any(_ts_leaves(c) for c in kids[1:]):
        cls.append('timeseries_through_keyword_only_parameter')
    return cls


def run_presync(spec):
    _TZ[0] = spec.get('tz')
    tree, join, method = spec['tree'], spec['join'], spec['method']
    kids = tree[1]
    objs = _build_case(spec)
    npos = spec['npos']
    args = tuple(objs[:npos])
    kwargs = {'p%i' % i: objs[i] for i in range(npos, len(objs))}
    leaves = _ts_leaves(tree)
    target = _exp_index(join, [l[1] for l in leaves], kids)
    what = 'presync(f, %s)(%i positional, %s)  [join=%s method=%s columns=%s tree=%s]' % (
        spec['how'], npos, sorted(kwargs), join, method, spec['columns'], _sketch(tree))
    sig = spec.get('sig', 'named')
    what = what.replace('presync(f,', 'presync(%s,' % _SIGS[sig], 1) + _how_note(spec)
    shared = spec['how'] == 'shared'
    g, extra = _decorate(spec, _shaped(sig, None, shared), tree, objs)
    kw = dict(kwargs)
    kw.update(extra)
    res = call(what, g, *args, **kw)
    if shared:
        # one decorator object was applied to one function per shape: the function that ran must be the one this wrapper was made from
        check(isinstance(res, list) and len(res) == 5 and res[4] == 'ran: ' + sig, '%s: expected the result of the function of shape %s, got %s', what, sig, res)
        res = res[:4]
    check(isinstance(res, list) and len(res) == 4, '%s: the function result came back as %s', what, res)
    ctx = _Ctx(what, target, method, None)
    for i, c in enumerate(kids):
        _cmp(c, objs[i], res[i], ctx, 'p%i' % i)
    for i in range(len(kids), 4):
        if res[i] is not _unpassed(sig, i):
            raise Violation('%s: parameter p%i was not passed but the function saw %s, expected its declared default' % (what, i, short(res[i], 120)))
    _verify_all(tree, objs, what)
    if sig == 'defaults':
        _verify_defaults(what)
    info = _classes(spec, leaves, target, ctx)
    info['cls'] += ['how=' + spec['how'], 'mode=%s' % ('raw' if spec['columns'] is False else 'cols'),
                    'npos=%i/%i' % (npos, len(kids)) if npos in (0, len(kids)) else 'mixed_positional_keyword', 'sig=' + sig]
    info['cls'] += _presync_classes(spec, kids)
    if sig in ('varargs', 'var_both') and npos >= 2 and any(l for c in kids[1:npos] for l in _ts_leaves(c)):
        info['cls'].append('timeseries_through_*args')
    if sig in ('varkw', 'var_both') and any(l for c in kids[max(npos, 1):] for l in _ts_leaves(c)):
        info['cls'].append('timeseries_through_**kwargs')
    return info


def run_presync_cols(spec):
    """default column mode with frames: f is called once per common column and must see, each time, every argument on the common index"""
    _TZ[0] = spec.get('tz')
    import pandas as pd
    tree, join, method, columns = spec['tree'], spec['join'], spec['method'], spec['columns']
    kids = tree[1]
    objs = _build_case(spec)
    npos = spec['npos']
    args = tuple(objs[:npos])
    kwargs = {'p%i' % i: objs[i] for i in range(npos, len(objs))}
    leaves = _ts_leaves(tree)
    target = _exp_index(join, [l[1] for l in leaves], kids)
    what = 'presync(f, %s)(%i positional, %s)  [join=%s method=%s columns=%s tree=%s]' % (
        spec['how'], npos, sorted(kwargs), join, method, columns, _sketch(tree))
    calls = []
    sig = spec.get('sig', 'named')
    what = what.replace('presync(f,', 'presync(%s,' % _SIGS[sig], 1) + _how_note(spec)
    g, extra = _decorate(spec, _shaped(sig, calls), tree, objs)
    kw = dict(kwargs)
    kw.update(extra)
    call(what, g, *args, **kw)
    multi = [l[2] for l in leaves if l[0] == 'f' and len(l[2]) >= 2]
    if not multi:
        expcols = [None]
    elif len(set(tuple(c) for c in multi)) == 1:
        expcols = list(multi[0])
    else:
        expcols = _exp_cols(columns, multi)
    check(len(calls) == len(expcols), '%s: the function was called %s times, expected once per common column %s', what, len(calls), expcols)
    ctx = _Ctx(what, target, method, None)

    def colname(node, got):
        """the column label this call is about, read off the first Series that was cut out of a multi-column frame"""
        t = node[0]
        if t in _LISTS:
            for i, c in enumerate(node[1]):
                if isinstance(got, (list, tuple)) and len(got) == len(node[1]):
                    r = colname(c, got[i])
                    if r is not None:
                        return r
        elif t in _DICTS:
            for k, c in node[1]:
                if isinstance(got, dict) and k in got:
                    r = colname(c, got[k])
                    if r is not None:
                        return r
        elif t == 'f' and len(node[2]) >= 2 and isinstance(got, pd.Series) and got.name in node[2]:
            return got.name
        return None

    def cmpcol(node, orig, got, col, path):
        t = node[0]
        if t == 'f':
            cols, idx, rows = node[2], node[1], node[3]
            where = '%s, call for column %r, at %s' % (what, col, path)
            if len(cols) >= 2 and col not in cols:
                dflt = spec.get('default')
                if dflt is None:
                    check(isinstance(got, float) and got != got, '%s: the frame lacks the column, expected the default NaN, the function saw %s', where, got)
                else:
                    check(isinstance(got, float) and got == dflt, '%s: the frame lacks the column, expected the default=%s given to presync, the function saw %s', where, dflt, got)
                return
            j = 0 if len(cols) == 1 else cols.index(col)
            check(isinstance(got, pd.Series), '%s: expected one column as a Series, the function saw %s', where, type(got).__name__)
            _check_index(where, got, target)
            exp, filled = _asof(idx, _col(rows, j), target, method)
            ctx.filled += filled
            _check_column(where, got.values.tolist(), exp)
        elif t in _LISTS:
            check(type(got) is type(orig) and len(got) == len(orig), '%s at %s: a %s of %s came back as %s', what, path, type(orig).__name__, len(orig), got)
            for i, c in enumerate(node[1]):
                cmpcol(c, orig[i], got[i], col, '%s[%i]' % (path, i))
        elif t in _DICTS:
            check(type(got) is type(orig) and sorted(got.keys()) == sorted(orig.keys()), '%s at %s: container came back as %s', what, path, got)
            for k, c in node[1]:
                cmpcol(c, orig[k], got[k], col, '%s[%r]' % (path, k))
        else:
            ctx.what = '%s, call for column %r,' % (what, col)
            _cmp(node, orig, got, ctx, path)
    seen = []
    for got in calls:
        col = None
        if expcols != [None]:
            for i, c in enumerate(kids):
                col = colname(c, got[i])
                if col is not None:
                    break
            check(col is not None, '%s: a call shows no column of any multi-column frame: %s', what, got)
            check(col in expcols and col not in seen, '%s: calls for columns %s then %r, expected exactly one call per column of %s', what, seen, col, expcols)
            seen.append(col)
        for i, c in enumerate(kids):
            cmpcol(c, objs[i], got[i], col, 'p%i' % i)
        for i in range(len(kids), 4):
            if got[i] is not _unpassed(sig, i):
                raise Violation('%s, call for column %r: parameter p%i was not passed but the function saw %s, expected its declared default'
                                % (what, col, i, short(got[i], 120)))
    _verify_all(tree, objs, what)
    if sig == 'defaults':
        _verify_defaults(what)
    ctx.what = what
    info = _classes(spec, leaves, target, ctx)
    info['cls'] += ['how=' + spec['how'], 'ncalls=%i' % min(len(calls), 3), 'sig=' + sig]
    info['cls'] += _presync_classes(spec, kids)
    if spec.get('default') is not None and any(l[0] == 'f' and len(l[2]) >= 2 and any(c not in l[2] for c in expcols if c is not None) for l in leaves):
        info['cls'].append('default_shown_for_a_lacking_column')
    if multi and len(set(tuple(c) for c in multi)) == 1:
        info['cls'].append('all_frames_same_columns')
    if expcols == []:
        info['cls'].append('no_common_column')
    return info


# ============================================================================================ run: bare arrays

def _arr_expected(node, n, method):
    """rows x columns matrix of *acceptable value lists* for the aligned array"""
    shape, flat = node[2], node[3]
    k = shape[0]
    w = shape[1] if len(shape) == 2 else 1
    rows = [flat[i * w:(i + 1) * w] for i in range(k)]
    if n <= k:
        kept, lost = rows[k - n:], rows[:k - n]
    else:
        kept, lost = [[None] * w for _ in range(n - k)] + rows, []
    out = []
    for i in range(n):
        r = []
        for j in range(w):
            v = kept[i][j]
            ok = [v]
            if v is None and method == 'ffill':
                prev = [kept[q][j] for q in range(i) if kept[q][j] is not None]
                if prev:
                    ok = [prev[-1]]
                else:
                    before = [x[j] for x in lost if x[j] is not None]
                    ok = [None] + before[-1:]
            elif v is None and method == 'bfill':
                nxt = [kept[q][j] for q in range(i + 1, n) if kept[q][j] is not None]
                ok = [nxt[0]] if nxt else [None]
            r.append(ok)
        out.append(r)
    return out


def _cmp_array(node, res, n, method, where):
    import numpy as np
    shape = node[2]
    check(isinstance(res, np.ndarray), '%s: an array came back as %s', where, type(res).__name__)
    expshape = [n] + list(shape[1:])
    check(list(res.shape) == expshape, '%s: array of shape %s came back with shape %s, expected %s', where, shape, list(res.shape), expshape)
    exp = _arr_expected(node, n, method)
    got = res.reshape((n, -1)).tolist() if n else []
    for i in range(n):
        for j in range(len(exp[i])):
            g = _num(got[i][j])
            if not any(_same(g, e) for e in exp[i][j]):
                raise Violation('%s: row %i column %i is %s, expected %s; whole result %s, input %s'
                                % (where, i, j, g, ' or '.join('nan' if e is None else repr(e) for e in exp[i][j]), short(res.tolist(), 150), short(node[3], 150)))


def _cmp_arrs(node, orig, res, n, method, what, path='result'):
    t = node[0]
    where = '%s at %s' % (what, path)
    if t == 'v':
        check(res is orig, '%s: the non-array member %s came back as %s (not the same object)', where, orig, res)
    elif t in _LISTS:
        check(type(res) is type(orig) and len(res) == len(orig), '%s: a %s of %s came back as %s', where, type(orig).__name__, len(orig), res)
        for i, c in enumerate(node[1]):
            _cmp_arrs(c, orig[i], res[i], n, method, what, '%s[%i]' % (path, i))
    elif t in _DICTS:
        check(type(res) is type(orig) and sorted(res.keys()) == sorted(orig.keys()), '%s: container came back as %s', where, res)
        for k, c in node[1]:
            _cmp_arrs(c, orig[k], res[k], n, method, what, '%s[%r]' % (path, k))
    else:
        _cmp_array(node, res, n, method, where)


def _mk_buffer(spec):
    import numpy as np
    if spec.get('buffer') is None:
        return None
    if spec['buffer'][0] == 'int':
        return np.array(spec['buffer'][1], dtype='int64')
    return np.array([_nan(x) for x in spec['buffer'][1]], dtype='float64')


def run_arrays(spec):
    _BUFFER[0] = _mk_buffer(spec)
    try:
        info = _run_arrays(spec)
        if _BUFFER[0] is not None:
            now = [None if x != x else x for x in _BUFFER[0].tolist()]
            check(now == list(spec['buffer'][1]), '%s(<%s>, join=%s, method=%s) wrote into the buffer its operands are views of: now %s',
                  spec['call'], _sketch(spec['tree']), spec['join'], spec['method'], now)
        return info
    finally:
        _BUFFER[0] = None


def _run_arrays(spec):
    from pyg_base import df_sync, df_reindex, df_index, presync
    tree, join, method, fn = spec['tree'], spec['join'], spec['method'], spec['call']
    objs = _build_case(spec)
    leaves = _arr_leaves(tree)
    lens = [l[2][0] for l in leaves]
    n = _arr_n(join, lens)
    what = '%s(<%s>, join=%s, method=%s)' % (fn, _sketch(tree), join, method)
    if fn == 'df_index':
        res = call(what, df_index, objs, join)
        if n is not None:
            check(isinstance(res, int) and not isinstance(res, bool) and res == n or (hasattr(res, 'dtype') and res == n), '%s returned %s, expected the length %s', what, res, n)
    elif fn == 'presync':
        npos = spec['npos']
        args = tuple(objs[:npos])
        kwargs = {'p%i' % i: objs[i] for i in range(npos, len(objs))}
        from pyg_base import presync
        g = presync(_passthrough, index=join, method=method, columns=False)
        res = call(what, g, *args, **kwargs)
        check(isinstance(res, list) and len(res) == 4, '%s: the function result came back as %s', what, res)
        if n is not None:
            for i, c in enumerate(tree[1]):
                _cmp_arrs(c, objs[i], res[i], n, method, what, 'p%i' % i)
    else:
        if fn == 'df_reindex':
            res = call(what, df_reindex, objs, join, method)
        else:
            res = call(what, df_sync, objs, join, method)
        if n is not None:
            _cmp_arrs(tree, objs, res, n, method, what)
    _verify_all(tree, objs, what)
    cls = ['call=' + fn, 'join=' + join[0].lower(), 'method=%s' % method, 'depth>=2' if _depth(tree) >= 2 else 'depth<2']
    if any(len(l[2]) == 2 for l in leaves):
        cls.append('2d')
    if any(l[1] == 'int' for l in leaves):
        cls.append('int_dtype')
    if 0 in lens:
        cls.append('empty_array')
    if n is not None and any(k > n for k in lens):
        cls.append('truncated')
    if n is not None and any(k < n for k in lens):
        cls.append('padded')
    if n == 0:
        cls.append('common_length_0')
    if method and any(x is None for l in leaves for x in l[3]):
        cls.append('fill_with_nan_cells')
    tags = _container_tags(tree)
    derived = [(t, top) for t, top in (tags[1:] if fn == 'presync' else tags) if t in _DERIVED]
    if derived:
        cls.append('container_of_a_derived_class')
        if any(not top for t, top in derived):
            cls.append('derived_container_below_the_root')
    if spec.get('buffer') is not None:
        views = [l for l in leaves if l[2][0] >= 1]
        if len(views) >= 2:
            cls.append('views_of_one_buffer')
        twins = [(a, b) for i, a in enumerate(views) for b in views[i + 1:] if a[2] == b[2] and a[2][0] >= 2 and a[3] != b[3]]
        if twins:
            cls.append('same_buffer_same_shape_other_strides')       # same start address, dtype and shape, different cells
            if n is not None and any(n != a[2][0] for a, b in twins):
                cls.append('same_buffer_same_shape_other_strides_resized')
    return dict(nt=len(set(lens)) >= 2, cls=cls)


# ============================================================================================ strategies

def _val(k, j, p):
    return float((k + 1) * 100 + j * 30 + p) + (0.5 if p % 2 else 0.0)


FAMILIES = ['twin', 'same_len', 'same_ends', 'prefix', 'suffix', 'subset', 'superset', 'copy', 'disjoint']


def _derive(draw, base, kind):
    """
    an index that shares a "fast-path fingerprint" with `base` (what a shortcut in the code under test might look at instead of the stamps):
    twin = same length, same first and last stamp, different interior; same_len = same length, other stamps; same_ends = same first/last,
    different length; prefix / suffix = same first / last k stamps, then different; subset / superset = nested; copy = equal.
    Falls back to the nearest feasible kind when `base` is too short / leaves no room.
    """
    n = len(base)
    if kind == 'disjoint':
        unused = [c for c in range(N) if c not in base]
        if unused:
            m = draw(st.integers(1, len(unused)))
            return sorted(list(draw(st.permutations(unused)))[:m])          # no stamp in common with the base (an inner join on it is empty)
        kind = 'subset'
    if kind == 'twin' or kind == 'same_ends':
        if n >= 2:
            first, last = base[0], base[-1]
            cands = list(range(first + 1, last))
            inner = base[1:-1]
            if kind == 'twin' and n >= 3 and len(cands) > len(inner):
                pick = sorted(list(draw(st.permutations(cands)))[:len(inner)])
                if pick == inner:
                    unused = [c for c in cands if c not in inner]
                    pick = sorted(inner[1:] + [unused[draw(st.integers(0, len(unused) - 1))]])
                return [first] + pick + [last]
            if cands:
                sizes = [m for m in range(len(cands) + 1) if m != len(inner)]
                m = sizes[draw(st.integers(0, len(sizes) - 1))]
                return [first] + sorted(list(draw(st.permutations(cands)))[:m]) + [last]
        kind = 'same_len'
    if kind == 'same_len':
        if 1 <= n < N:
            pick = sorted(list(draw(st.permutations(list(range(N)))))[:n])
            if pick == base:
                unused = [c for c in range(N) if c not in base]
                pick = sorted(base[1:] + [unused[0]])
            return pick
        kind = 'subset'
    if kind == 'prefix':
        if n >= 2:
            k = draw(st.integers(1, n - 1))
            rest = [c for c in range(base[k - 1] + 1, N) if c != base[k]]
            m = draw(st.integers(0, min(len(rest), n - k + 1)))
            return base[:k] + sorted(list(draw(st.permutations(rest)))[:m]) if rest else base[:k]
        kind = 'superset'
    if kind == 'suffix':
        if n >= 2:
            k = draw(st.integers(1, n - 1))
            rest = [c for c in range(0, base[n - k]) if c != base[n - k - 1]]
            m = draw(st.integers(0, min(len(rest), n - k + 1)))
            return (sorted(list(draw(st.permutations(rest)))[:m]) if rest else []) + base[n - k:]
        kind = 'superset'
    if kind == 'subset':
        if n >= 2:
            m = draw(st.integers(1, n - 1))
            keep = sorted(list(draw(st.permutations(list(range(n)))))[:m])
            return [base[i] for i in keep]
        kind = 'superset'
    if kind == 'superset':
        unused = [c for c in range(N) if c not in base]
        if unused:
            m = draw(st.integers(1, len(unused)))
            return sorted(base + list(draw(st.permutations(unused)))[:m])
    return list(base)


@st.composite
def _free_idx(draw):
    r = draw(st.integers(0, 12))
    if r == 0:
        return []
    if r <= 6:
        a = draw(st.integers(0, N - 1))
        b = draw(st.integers(a + 1, N))
        return list(range(a, b))
    return sorted(draw(st.lists(st.integers(0, N - 1), unique=True, min_size=1, max_size=N)))


@st.composite
def _idx(draw, state):
    """state['family'] = None: free indices, now and then derived from an earlier one; else EVERY index of the case is derived from the first"""
    prev, fam = state['prev'], state.get('family')
    if len(prev) >= 2 and draw(st.integers(0, 2)) == 0:
        return list(prev[draw(st.integers(0, len(prev) - 2))])      # the stamps of an earlier series that is not the previous one
    if fam is not None:
        if not prev:
            # a base with at least 3 stamps and room between its endpoints, so that every family kind is feasible
            base = sorted(draw(st.lists(st.integers(0, N - 1), unique=True, min_size=4, max_size=8)))
            if base[-1] - base[0] + 1 == len(base):
                base = base[:1] + base[2:]
            return base
        return _derive(draw, prev[0], fam)
    if prev and draw(st.integers(0, 3)) == 0:
        return _derive(draw, prev[draw(st.integers(0, len(prev) - 1))], draw(st.sampled_from(FAMILIES)))
    return draw(_free_idx())


# every index of a case in one time zone (None = naive): zones with an offset from UTC in January, and one without
_TZS = st.sampled_from([None, None, None, None, None, 'Asia/Tokyo', 'US/Eastern', 'Europe/London'])
_family = st.sampled_from([None] * 6 + ['twin', 'twin', 'twin', 'same_len', 'same_ends', 'prefix', 'suffix', 'subset', 'superset', 'disjoint'])


def _mask(draw, n, mode):
    if mode == 'none':
        return [False] * n
    if mode == 'all':
        return [True] * n
    return [x == 0 for x in draw(st.lists(st.integers(0, 3), min_size=n, max_size=n))]


_UNITS = ['s', 'ms', 'us', 'ns']
_INT_LABEL = {'a': 0, 'b': 1, 'c': 2, 'd': 10, 'q': 7}      # numbers-only column labels (10 sorts before 2 as text, after it as a number)
_INT_KEYS = [0, 1, 2, 3, 10, -1]


@st.composite
def _flavour(draw, dupcols_allowed=False):
    """case-wide switches of the round-4 input classes (each off in most cases, so the earlier distribution is kept):
    units    - every timeseries (and explicit target) draws the resolution of its DatetimeIndex from s / ms / us / ns;
    dups     - a later timeseries may be a verbatim repeat of an earlier one (one object handed in several times when spec['same_objects']);
    colpool  - 'int': every column label of the case is an integer;
    dupcols  - (only where no column policy acts) frames may repeat a column label;
    intcol   - multi-column frames may have an int64 column"""
    return dict(units=draw(st.integers(0, 5)) == 0, dups=draw(st.integers(0, 3)) == 0, colpool='int' if draw(st.integers(0, 6)) == 0 else 'str',
                dupcols=bool(dupcols_allowed) and draw(st.integers(0, 3)) == 0, intcol=draw(st.integers(0, 3)) == 0, leaves=[],
                near=draw(st.integers(0, 5)) == 0, tiny=draw(st.integers(0, 4)) == 0)


_NUDGE = [1e-9, -1e-9, 2.5e-4, -2.5e-4]       # absolute moves of a cell that np.isclose (atol 1e-8, rtol 1e-5 on values of 100 .. 1300) takes for nothing


def _revision(draw, leaf):
    """the timeseries `leaf` once more, on the same stamps, with one / every float cell moved by less than a comparison tolerance"""
    leaf = copy.deepcopy(leaf)
    every = draw(st.booleans())
    d = draw(st.sampled_from(_NUDGE))
    at = draw(st.integers(0, 11))
    intcols = _opts(leaf).get('intcols') or []
    cells = [(i, None) for i in range(len(leaf[1]))] if leaf[0] == 's' else [(i, j) for i in range(len(leaf[1])) for j in range(len(leaf[2])) if j not in intcols]
    cells = [(i, j) for i, j in cells if (leaf[2][i] if j is None else leaf[3][i][j]) is not None]
    if leaf[0] == 's' and leaf[3] != 'float':
        cells = []
    if cells and not every:
        cells = [cells[at % len(cells)]]
    for i, j in cells:
        if j is None:
            leaf[2][i] = _nudged(leaf[2][i], d)
        else:
            leaf[3][i][j] = _nudged(leaf[3][i][j], d)
    return leaf


def _nudged(v, d):
    return v + d if abs(v) >= 1 else v + d * 1e-6       # tiny cells move by 1e-15 / 2.5e-10: still tiny, still another number


def _make_tiny(draw, leaf):
    """the float cells of a leaf scaled to the order 1e-10 .. 1e-9 (unique as before), about one in five of them exactly 0.0 / -0.0"""
    intcols = _opts(leaf).get('intcols') or []
    if leaf[0] == 's':
        if leaf[3] != 'float':
            return leaf
        z = _mask(draw, len(leaf[2]), 'some')
        leaf[2] = [None if v is None else ((-0.0 if i % 2 else 0.0) if z[i] else v * 1e-12) for i, v in enumerate(leaf[2])]
        return leaf
    z = _mask(draw, len(leaf[3]) * len(leaf[2]), 'some')
    w = len(leaf[2])
    leaf[3] = [[v if (v is None or j in intcols) else ((-0.0 if (i + j) % 2 else 0.0) if z[i * w + j] else v * 1e-12) for j, v in enumerate(r)] for i, r in enumerate(leaf[3])]
    return leaf


def _finish_leaf(draw, state, leaf):
    if state.get('tiny') and draw(st.integers(0, 2)) == 0:
        leaf = _make_tiny(draw, leaf)
    if state.get('units'):
        leaf = leaf[:4] + [dict(_opts(leaf), unit=draw(st.sampled_from(_UNITS)))]
    state.setdefault('leaves', []).append(leaf)
    return leaf


@st.composite
def _ts_leaf(draw, state, kinds):
    k = state['k']
    state['k'] += 1
    earlier = state.get('leaves') or []
    if state.get('dups') and earlier and draw(st.integers(0, 2)) == 0:
        leaf = copy.deepcopy(earlier[draw(st.integers(0, len(earlier) - 1))])       # the same timeseries once more
        state['prev'].append(list(leaf[1]))
        earlier.append(leaf)
        return leaf
    if state.get('near') and earlier and draw(st.integers(0, 1)) == 0:
        leaf = _revision(draw, earlier[draw(st.integers(0, len(earlier) - 1))])      # an earlier timeseries revised by less than a tolerance
        state['prev'].append(list(leaf[1]))
        earlier.append(leaf)
        return leaf
    idx = draw(_idx(state))
    state['prev'].append(idx)
    n = len(idx)
    kind = draw(st.sampled_from(kinds))
    label = (lambda c: _INT_LABEL[c]) if state.get('colpool') == 'int' else (lambda c: c)
    if kind == 's':
        mode = draw(st.sampled_from(['float', 'float', 'float', 'float', 'nonan', 'int', 'allnan']))
        if mode == 'int':
            return _finish_leaf(draw, state, ['s', idx, [(k + 1) * 100 + p for p in idx], 'int'])
        m = _mask(draw, n, {'float': 'some', 'nonan': 'none', 'allnan': 'all'}[mode])
        return _finish_leaf(draw, state, ['s', idx, [None if m[i] else _val(k, 0, p) for i, p in enumerate(idx)], 'float'])
    if kind == 'f1':
        name = label(draw(st.sampled_from(['a', 'q'])))
        m = _mask(draw, n, draw(st.sampled_from(['some', 'some', 'none'])))
        return _finish_leaf(draw, state, ['f', idx, [name], [[None if m[i] else _val(k, 0, p)] for i, p in enumerate(idx)]])
    ncols = draw(st.integers(2, 3))
    cols = list(draw(st.one_of(st.sampled_from([['a', 'b'], ['b', 'a'], ['a', 'b', 'c'], ['b', 'c'], ['c', 'd'], ['b', 'c', 'd'], ['a', 'b', 'd'], ['a', 'c', 'd']]),
                               st.permutations(_COLS).map(lambda c: list(c)[:ncols]))))
    if state.get('dupcols') and draw(st.booleans()):
        i = draw(st.integers(0, len(cols) - 1))
        j = draw(st.integers(0, len(cols) - 2))
        cols[j if j < i else j + 1] = cols[i]                                          # one label occurs twice
    cols = [label(c) for c in cols]
    mode = draw(st.sampled_from(['rows', 'cells', 'cells', 'none']))
    if mode == 'rows':
        m = _mask(draw, n, 'some')
        rows = [[None if m[i] else _val(k, j, p) for j in range(len(cols))] for i, p in enumerate(idx)]
    elif mode == 'cells':
        rows = []
        for i, p in enumerate(idx):
            m = _mask(draw, len(cols), 'some')
            rows.append([None if m[j] else _val(k, j, p) for j in range(len(cols))])
    else:
        rows = [[_val(k, j, p) for j in range(len(cols))] for p in idx]
    leaf = ['f', idx, cols, rows]
    if state.get('intcol') and draw(st.integers(0, 2)) == 0:
        j = draw(st.integers(0, len(cols) - 1))
        for i, p in enumerate(idx):
            rows[i][j] = (k + 1) * 100 + j * 30 + p                                    # an int64 column (so no NaN in it)
        leaf.append({'intcols': [j]})
    return _finish_leaf(draw, state, leaf)


_scalar = st.one_of(st.none(), st.integers(-3, 6), st.sampled_from([-1.5, 0.0, 2.5]), st.sampled_from(['', 'a', 'not a timeseries']))


@st.composite
def _node(draw, state, depth, max_depth, kinds, leaf):
    r = draw(st.integers(0, 9))
    if depth < max_depth and r <= 2:
        return draw(_container(state, depth + 1, max_depth, kinds, leaf, ['list', 'list', 'dict', 'dict', 'Dict'], 1, 3))
    if r <= 7:
        return draw(leaf(state, kinds))
    return ['v', draw(_scalar)]


@st.composite
def _container(draw, state, depth, max_depth, kinds, leaf, types, lo, hi):
    t = draw(st.sampled_from(types))
    n = draw(st.integers(lo, hi))
    kids = [draw(_node(state, depth, max_depth, kinds, leaf)) for _ in range(n)]
    # in one case in seven every second container that the caller owns (below the root; at the root where the root is the df_* argument itself, not the argument list of a presync call)
    # is an instance of a class DERIVED from list / dict: a user subclass of list, an OrderedDict, a pyg_base.dictattr (a user subclass of dict only behind the switch)
    if 'derived' not in state:
        state['derived'] = draw(st.integers(0, 6)) == 0          # a switch of the case, drawn with its first container
    derived = draw(st.booleans()) and state['derived'] and (depth > 1 or 'dict' in types)
    which = draw(st.integers(0, 5))
    if derived and t == 'list':
        t = 'mylist'
    elif derived and t in ('dict', 'Dict'):
        t = (['odict', 'odict', 'dictattr', 'dictattr'] + (['mydict', 'mydict'] if INCLUDE_DICT_SUBCLASS else ['odict', 'dictattr']))[which]
    if t in _LISTS:
        return [t, kids]
    keys = list(draw(st.permutations(_KEYS)))[:n]
    if draw(st.integers(0, 5)) == 0:
        keys = list(draw(st.permutations(_INT_KEYS)))[:n]          # a dict keyed by numbers only
    return [t, [[k, c] for k, c in zip(keys, kids)]]


_FINE_US = [1, 5, 400, 999, -1, -5, -400, 250000, -250000, 999999]       # microseconds: inside one millisecond, or inside one second


def _fine_stamps(draw, tree, join):
    """brief class 32, by construction: ONE timeseries of the case (every verbatim repeat of it likewise) or the explicit target gets ONE of its stamps moved by some
    microseconds - where possible a stamp that another operand / the target holds too, so that two labels of the case then differ only below a millisecond / a second.
    The index that holds the moved stamp is of resolution us or ns"""
    leaves = _ts_leaves(tree)
    explicit = isinstance(join, list) and join[0] in ('idx', 'series', 'raw')
    keys = []
    for l in leaves:
        k = json.dumps(l)
        if l[1] and k not in keys:
            keys.append(k)
    holders = [json.loads(k)[1] for k in keys] + ([list(join[1])] if explicit and join[1] else [])
    if not holders:
        return tree, join
    v = draw(st.integers(0, len(holders) - 1))
    own = holders[v]
    shared = [p for p in own if any(p in h for i, h in enumerate(holders) if i != v)]
    pool = shared or own
    p = pool[draw(st.integers(0, len(pool) - 1))]
    q = p + draw(st.sampled_from(_FINE_US)) * 1e-7
    if v < len(keys):
        def fix(leaf):
            if json.dumps(leaf) != keys[v]:
                return leaf
            leaf = copy.deepcopy(leaf)
            leaf[1] = [q if x == p else x for x in leaf[1]]
            if _unit(leaf) in ('s', 'ms'):
                leaf[4] = dict(leaf[4], unit='us')
            return leaf
        return _map_tree(tree, fix), join
    join = [join[0], [q if x == p else x for x in join[1]]] + list(join[2:])
    if join[0] != 'raw' and len(join) > 2 and join[2] in ('s', 'ms'):
        join[2] = 'us'
    return tree, join


def _positions():
    return st.one_of(
        st.lists(st.integers(0, N - 1), unique=True, max_size=N).map(sorted),
        st.lists(st.integers(0, N - 1), unique=True, min_size=3, max_size=N).map(sorted),
        st.just(list(range(N))),
        st.tuples(st.integers(0, N), st.integers(0, N)).map(lambda ab: list(range(min(ab), max(ab)))))


_SPELL = {'i': ['ij', 'inner'], 'o': ['oj', 'outer'], 'l': ['lj', 'left'], 'r': ['rj', 'right']}


@st.composite
def _join(draw, explicit=True):
    """every branch makes the same draws (kind, positions, spelling): hypothesis otherwise starves the cheap branches"""
    k = draw(st.sampled_from(['i', 'i', 'o', 'o', 'l', 'l', 'r', 'r'] + (['idx', 'idx', 'series', 'series'] if explicit else [])))
    pos = draw(_positions())
    sp = draw(st.booleans())
    if k in ('idx', 'series'):
        return [k, pos]
    return _SPELL[k][sp]


_ALL = ['s', 's', 's', 'f', 'f', 'f1']


def _right_when_last_shares(draw, tree, join):
    """a tree whose LAST timeseries has the stamps of an earlier, non-adjacent one: half of these cases are aligned on 'the last index'"""
    idxs = [tuple(l[1]) for l in _ts_leaves(tree)]
    if len(idxs) >= 3 and idxs[-1] in idxs[:-2] and any(i != idxs[-1] for i in idxs) and draw(st.booleans()):
        return _SPELL['r'][draw(st.booleans())]
    return join


def _round4_join(draw, state, tree, join, npos=None):
    """explicit targets of the round-4 classes: with state['units'] the target draws its own resolution; now and then an operand itself (or its
    .index object) is handed in as the target; now and then the target has exactly as many stamps as a list of operands has members"""
    if not isinstance(join, list) or join[0] not in ('idx', 'series'):
        return join
    leaves = _ts_leaves(tree)
    r = draw(st.integers(0, 9))
    if r <= 1 and leaves:
        return ['member' if draw(st.booleans()) else 'member_index', draw(st.integers(0, len(leaves) - 1))]
    if r == 2:
        sizes = [m for m in _list_sizes(tree, True, npos) if m >= 1]
        if sizes:
            m = sizes[draw(st.integers(0, len(sizes) - 1))]
            join = [join[0], sorted(list(draw(st.permutations(list(range(N)))))[:m])]
    if r == 3:
        return ['raw', join[1], draw(st.sampled_from(_RAW_FORMS))]     # the explicit index in another raw form than a DatetimeIndex / a Series (brief class 33)
    if state.get('units'):
        join = [join[0], join[1], draw(st.sampled_from(_UNITS))]
    return join


def _left_right_when_repeated(draw, spec):
    """one object handed in several times: when it is the last (first) timeseries and comes earlier (later) too, half of the cases use a right (left) join"""
    if not spec.get('same_objects'):
        return spec
    leaves = _ts_leaves(spec['tree'])
    keys = [json.dumps(l) for l in leaves]
    if len(set(tuple(l[1]) for l in leaves)) < 2:
        return spec
    opts = (['r'] if keys[-1] in keys[:-1] else []) + (['l'] if keys[0] in keys[1:] else [])
    if opts and draw(st.booleans()):
        return dict(spec, join=_SPELL[opts[draw(st.integers(0, len(opts) - 1))]][draw(st.booleans())])
    return spec


def _target_like_first(draw, state, tree, join):
    """in a family case half of the explicit targets share the family fingerprint with the first timeseries (same length and endpoints, nested, ...)"""
    leaves = _ts_leaves(tree)
    if state.get('family') and isinstance(join, list) and join[0] in ('idx', 'series') and leaves and draw(st.booleans()):
        return [join[0], _derive(draw, leaves[0][1], state['family'])]
    return join


@st.composite
def _sync_case(draw):
    fn = draw(st.sampled_from(['df_sync', 'df_sync', 'df_sync', 'df_reindex', 'df_reindex', 'df_index']))
    join = draw(_join())
    method = draw(st.sampled_from(METHODS))
    columns = draw(st.sampled_from(['ij', 'ij', 'inner', 'oj', 'outer', 'lj', 'rj', None, False]))
    state = dict(k=0, prev=[], family=draw(_family))
    state.update(draw(_flavour(dupcols_allowed=fn != 'df_sync' or columns is None or columns is False)))
    types = ['list', 'list', 'dict', 'dict', 'Dict'] + (['tuple'] if fn == 'df_sync' else [])
    tree = draw(_container(state, 1, 3, _ALL, _ts_leaf, types, 1, 4))
    join = _right_when_last_shares(draw, tree, _round4_join(draw, state, tree, _target_like_first(draw, state, tree, join)))
    if state['family'] == 'disjoint' and draw(st.booleans()):
        join = _SPELL['i'][draw(st.booleans())]              # every index is disjoint from the first one: half of these cases ask for the (empty) intersection
    if draw(st.integers(0, 11)) == 0:
        tree, join = _fine_stamps(draw, tree, join)
    spec = dict(call=fn, tree=tree, join=join, method=method, share_index=draw(st.booleans()), tz=draw(_TZS))
    if fn == 'df_sync':
        spec['columns'] = columns
    if state['dups']:
        spec['same_objects'] = draw(st.integers(0, 3)) != 0
    if draw(st.integers(0, 7)) == 0:
        spec['kw'] = True
    return _repair(_left_right_when_repeated(draw, spec))


@st.composite
def _asof_case(draw):
    fam = draw(_family)
    state = dict(k=0, prev=[], family=fam)
    state.update(draw(_flavour(dupcols_allowed=True)))
    leaf = draw(_ts_leaf(state, _ALL))
    if fam is not None:
        # the explicit target shares a fingerprint with the object's own index (same length and endpoints, same prefix, nested, ...)
        join = [draw(st.sampled_from(['idx', 'idx', 'series'])), _derive(draw, leaf[1], fam)]
    else:
        join = draw(st.one_of(_positions().map(lambda p: ['idx', p]), _positions().map(lambda p: ['idx', p]),
                              _positions().map(lambda p: ['series', p]), st.sampled_from(['ij', 'oj'])))
    if state['units'] and isinstance(join, list):
        join = [join[0], join[1], draw(st.sampled_from(_UNITS))]
    r = draw(st.integers(0, 39))
    if isinstance(join, list) and r < 4:
        join = ['raw', join[1], _RAW_FORMS[r]]               # one explicit target in ten comes in another raw form, the four forms alike
    if draw(st.integers(0, 9)) == 0:
        leaf, join = _fine_stamps(draw, leaf, join)
    return _repair(dict(call='df_reindex', tree=leaf, join=join, method=draw(st.sampled_from(['ffill', 'bfill'])), tz=draw(_TZS)))


@st.composite
def _presync_case(draw, frames_in_col_mode=False):
    how = draw(st.sampled_from(['ctor', 'call', 'prop']))
    join = draw(_join(explicit=how != 'prop'))
    method = draw(st.sampled_from(METHODS))
    state = dict(k=0, prev=[], family=draw(_family))
    if frames_in_col_mode:
        state.update(draw(_flavour()))
        raw = False
        kinds = ['s', 'f', 'f', 'f', 'f1']
        columns = draw(st.sampled_from(['inner', 'ij', 'oj', 'outer', 'lj', 'rj']))
    else:
        raw = draw(st.booleans())
        state.update(draw(_flavour(dupcols_allowed=raw)))
        kinds = _ALL if raw else ['s']
        columns = False if raw else draw(st.sampled_from(['inner', 'ij', 'oj']))
    tree = draw(_container(state, 1, 3, kinds, _ts_leaf, ['list'], 1, 4))
    kids = tree[1]
    npos = draw(st.integers(0, len(kids)))
    # the shape of the decorated function: named parameters, *args / **kwargs collecting some of the arguments, keyword-only parameters,
    # or declared defaults that are containers / timeseries
    sig = draw(st.sampled_from(['named', 'named', 'named', 'varargs', 'varkw', 'var_both']))
    r = draw(st.integers(0, 9))
    if r <= 1:
        sig = ['kwonly', 'defaults'][r]
    if sig == 'defaults' and len(kids) == 4:
        sig = 'named'                      # every parameter is passed: no default would be seen
    if sig == 'varargs':
        npos = len(kids)                   # everything after p0 can only arrive positionally
    elif sig in ('varkw', 'kwonly'):
        npos = min(npos, 1)                # everything after p0 can only arrive by keyword
    join = _right_when_last_shares(draw, tree, _round4_join(draw, state, tree, _target_like_first(draw, state, tree, join), npos))
    single = [i for i, c in enumerate(kids) if c[0] in ('s', 'f')]
    if how != 'prop' and single and draw(st.integers(0, 5)) == 0:
        join = ['arg', single[draw(st.integers(0, len(single) - 1))]]
    if join[0] == 'arg' and (sig == 'var_both' or (sig in ('varargs', 'varkw') and join[1] != 0)):
        sig, npos = 'named', draw(st.integers(0, len(kids)))                      # index='p<i>' names a declared parameter
    if draw(st.integers(0, 11)) == 0:
        tree, join = _fine_stamps(draw, tree, join)
    spec = dict(call='presync', tree=tree, join=join, method=method, columns=columns, how=how, npos=npos, sig=sig, share_index=draw(st.booleans()), tz=draw(_TZS))
    if state['dups']:
        spec['same_objects'] = draw(st.integers(0, 3)) != 0
    r = draw(st.integers(0, 5))
    if r == 0:
        # the column policy is given at call time; the constructor gets no policy, or a different one that must lose
        spec['columns_call'] = draw(st.sampled_from(['unset'] + [c for c in ('ij', 'oj', 'lj', 'rj') if c[0] != str(columns)[0]]))
    if frames_in_col_mode:
        d = draw(st.sampled_from([None, None, None, 0.0, 1.0, -1.5]))
        if d is not None:
            spec['default'] = d
    return _repair(_left_right_when_repeated(draw, spec))


@st.composite
def _arr_leaf(draw, state, kinds):
    k = state['k']
    state['k'] += 1
    n = draw(st.integers(0, state['maxlen']))
    w = draw(st.sampled_from([0, 0, 0, 1, 2, 3]))      # 0 = 1-d
    dtype = draw(st.sampled_from(['float', 'float', 'float', 'int']))
    shape = [n] if w == 0 else [n, w]
    if state.get('buffer') is not None:
        # every array of the case is a view that starts at the first element of ONE buffer; two views in three repeat the shape of the
        # previous one and walk the buffer differently (a[:n] vs a[::2][:n], a block vs the transpose of the block the other way round)
        layouts = ['c', 's2', 's3'] + (['t'] if w >= 2 else [])
        last = state.get('last_view')
        if last is not None and draw(st.integers(0, 2)) != 0:
            shape = list(last[0])
            layouts = [x for x in ['c', 's2', 's3'] + (['t'] if len(shape) == 2 and shape[1] >= 2 else []) if x != last[1]]
        layout = draw(st.sampled_from(layouts))
        state['last_view'] = (shape, layout)
        return ['a', state['buffer'][0], shape, _view_cells(state['buffer'][1], shape, layout), {'view': layout}]
    cells = n * max(w, 1)
    if dtype == 'int':
        flat = [(k + 1) * 100 + i for i in range(cells)]
    else:
        m = _mask(draw, cells, draw(st.sampled_from(['some', 'some', 'none'])))
        flat = [None if m[i] else float((k + 1) * 100 + i) + 0.5 for i in range(cells)]
    return ['a', dtype, shape, flat]


@st.composite
def _arrays_case(draw, maxlen=6):
    fn = draw(st.sampled_from(['df_sync', 'df_sync', 'df_reindex', 'df_reindex', 'df_index', 'presync']))
    join = draw(st.sampled_from(JOINS))
    method = draw(st.sampled_from([None, None, 'ffill', 'bfill']))
    state = dict(k=0, prev=[], maxlen=maxlen)
    types = ['list'] if fn == 'presync' else ['list', 'list', 'dict', 'Dict'] + (['tuple'] if fn == 'df_sync' else [])
    buffer = None
    if draw(st.integers(0, 7)) == 0:
        # one case in eight: all arrays are views of one buffer (see _arr_leaf)
        size = maxlen * 9
        if draw(st.integers(0, 3)) == 0:
            buffer = ['int', [7000 + i for i in range(size)]]
        else:
            m = _mask(draw, size, draw(st.sampled_from(['some', 'none'])))
            buffer = ['float', [None if m[i] else 7000.5 + i for i in range(size)]]
        state['buffer'] = buffer
    tree = draw(_container(state, 1, 3, None, _arr_leaf, types, 2 if buffer else 1, 4))
    spec = dict(kind='arrays', call=fn, tree=tree, join=join, method=method)
    if buffer:
        spec['buffer'] = buffer
    if fn == 'presync':
        spec['npos'] = draw(st.integers(0, len(tree[1])))
    return _repair_f14(spec)


# ============================================================================================ several calls on the same objects

@st.composite
def _session_case(draw):
    """3-4 operands (timeseries, now and then a small dict / list of them) built ONCE; 2-4 calls of df_index / df_reindex / df_sync / a presync function on
    ordered selections of those same objects, half of the selections a prefix or an extension of the previous one, mostly under one join policy.
    In half of the sessions the containers are built once too (the caller hands the same list / dict object to several calls in a row), and the presync
    calls of a session go through ONE parameterised decorator object presync(index=.., method=.., columns=False), applied to one function per shape
    and reached plainly, with call-time join= / method= keywords, or through the .oj / .ffill properties"""
    state = dict(k=0, prev=[], family=draw(_family))
    state.update(draw(_flavour()))
    state['dups'] = False                  # in a session equal leaf specs ARE one object: repeats come from the selections
    n = draw(st.integers(3, 4))
    pool = []
    for _ in range(n):
        if draw(st.integers(0, 4)) == 0:
            pool.append(draw(_container(state, 2, 2, ['s', 's', 's', 'f'], _ts_leaf, ['list', 'dict', 'dict', 'Dict'], 1, 2)))
        else:
            pool.append(draw(_ts_leaf(state, ['s', 's', 's', 'f'])))
    if draw(st.integers(0, 11)) == 0:
        pool = _fine_stamps(draw, ['list', pool], 'ij')[0][1]
    k0 = draw(st.sampled_from(['i', 'o', 'l', 'r']))
    deco = dict(join=_SPELL[k0][draw(st.booleans())], method=draw(st.sampled_from(METHODS)))
    shared_deco = draw(st.integers(0, 3)) != 0
    share_containers = draw(st.booleans())
    calls, prev, overridden, last = [], None, None, None
    for _ in range(draw(st.integers(2, 4))):
        how = draw(st.sampled_from(['prefix', 'prefix', 'extend', 'free', 'same'] + (['same'] if share_containers else []))) if prev else 'free'
        if how == 'prefix' and len(prev) >= 3:
            sel = prev[:draw(st.integers(2, len(prev) - 1))]
        elif how == 'extend' and len(prev) < n:
            sel = prev + [i for i in range(n) if i not in prev][:draw(st.integers(1, n - len(prev)))]
        elif how == 'same':
            sel = list(prev)
        else:
            sel = list(draw(st.permutations(list(range(n)))))[:draw(st.integers(2, n))]
            if len(sel) < 4 and draw(st.integers(0, 4)) == 0:
                sel = sel + [sel[draw(st.integers(0, len(sel) - 1))]]          # one operand object handed in twice
        prev = sel
        k = k0 if draw(st.integers(0, 3)) else draw(st.sampled_from(['i', 'o', 'l', 'r']))
        join = _SPELL[k][draw(st.booleans())]
        fn = draw(st.sampled_from(['df_sync', 'df_reindex', 'df_index', 'presync'] + (['presync', 'presync'] if shared_deco else [])))
        top = draw(st.sampled_from(['list', 'list', 'list', 'dict', 'tuple']))
        method = draw(st.sampled_from(METHODS))
        via = draw(st.sampled_from(['plain', 'plain', 'call', 'call_join', 'prop', 'prop']))
        pm = draw(st.booleans())
        sig = draw(st.sampled_from(['named', 'named', 'var_both']))
        other = [x for x in ['i', 'o', 'l', 'r'] if x != k0][draw(st.integers(0, 2))]
        again = draw(st.integers(0, 3)) != 0
        flip = draw(st.booleans())
        if how == 'same' and last is not None and fn == 'presync' and again:
            fn = ['df_reindex', 'df_index', 'df_sync'][draw(st.integers(0, 2))]
        if how == 'same' and last is not None and fn != 'presync':
            # the caller hands the very same container to the next call (with share_containers), half of the time asking for another policy
            top = last[0]
            if flip:
                k = [x for x in ['i', 'o', 'l', 'r'] if x != last[1]][draw(st.integers(0, 2))]
                join = _SPELL[k][draw(st.booleans())]
        last = (top, k) if fn != 'presync' else None
        edit = None
        editable = [i for i in sel if pool[i][0] in ('s', 'f') and _editable_cells(pool[i])]
        if calls and editable and draw(st.integers(0, 15)) == 0:
            # between two calls the caller writes ONE cell of one of his own operands in place (a value -> another value / NaN, NaN -> a value);
            # this call and all later ones must see the operand as it is now. Mostly the operand took part in the previous call as well
            both = [i for i in editable if i in calls[-1]['sel']]
            cand = both if (both and draw(st.integers(0, 3)) != 0) else editable
            i = cand[draw(st.integers(0, len(cand) - 1))]
            old = pool[i]
            new = copy.deepcopy(old)
            cells = _editable_cells(old)
            r, j = cells[draw(st.integers(0, len(cells) - 1))]
            now = old[2][r] if j is None else old[3][r][j]
            value = None if (now is not None and draw(st.integers(0, 2)) == 0) else 5000.25 + 10 * len(calls) + r
            if j is None:
                new[2][r] = value
            else:
                new[3][r][j] = value
            pool[i] = new
            edit = [old, new]
        if fn == 'presync':
            tree = ['list', [pool[i] for i in sel]]
            if shared_deco:
                if overridden is not None and again:
                    via, sig = 'plain', overridden                   # after an override, the same wrapper is mostly used plainly: its own policy must be back
                overridden = sig if via != 'plain' else None
                if via != 'plain' and draw(st.integers(0, 3)) != 0:
                    join = _SPELL[other][draw(st.booleans())]         # an override that really asks for another policy than the decorator was built with
                if via == 'plain':
                    join, method = deco['join'], deco['method']
                elif via == 'call_join':
                    method = deco['method']
                elif via == 'prop':
                    pm = pm and method is not None
                    if not pm:
                        method = deco['method']
                c = dict(call='presync', tree=tree, join=join, method=method, columns=False, how='shared', via=via, prop_method=pm, deco=deco, npos=len(sel), sig=sig)
            else:
                c = dict(call='presync', tree=tree, join=join, method=method, columns=False, how=draw(st.sampled_from(['ctor', 'call'])), npos=len(sel), sig='named')
        else:
            if top == 'dict':
                tree = ['dict', [['k%i' % j, pool[i]] for j, i in enumerate(sel)]]
            elif top == 'tuple' and fn == 'df_sync':
                tree = ['tuple', [pool[i] for i in sel]]
            else:
                tree = ['list', [pool[i] for i in sel]]
            c = dict(call=fn, tree=tree, join=join, method=method)
            if fn == 'df_sync':
                c['columns'] = draw(st.sampled_from(['ij', 'oj', False]))
        calls.append(dict(sel=sel, call=_repair(c), **(dict(edit=edit) if edit else {})))
    return dict(calls=calls, share_index=draw(st.booleans()), share_containers=share_containers, tz=draw(_TZS))


def _editable_cells(leaf):
    """(row, column) of the float cells of a Series / frame leaf (column None for a Series); int64 data is left alone"""
    if leaf[0] == 's':
        return [(r, None) for r in range(len(leaf[1]))] if leaf[3] == 'float' else []
    intcols = _opts(leaf).get('intcols') or []
    return [(r, j) for r in range(len(leaf[1])) for j in range(len(leaf[2])) if j not in intcols]


def _apply_edit(old, new):
    """the caller edits his operand in place: the object built for the leaf spec `old` gets the cells of `new` written into it and is from now on the
    object of `new`; the containers that hold it (built once per session with share_containers) stay the same objects and are re-keyed likewise"""
    ko, kn = json.dumps(old), json.dumps(new)
    obj = _OBJECTS[0].pop(ko, None)
    if obj is None:
        return False                      # the operand was not handed to any call yet: it will be built as it is now
    for r, j in _editable_cells(old):
        a, b = (old[2][r], new[2][r]) if j is None else (old[3][r][j], new[3][r][j])
        if a != b:
            if j is None:
                obj.iloc[r] = _nan(b)
            else:
                obj.iloc[r, j] = _nan(b)
    _OBJECTS[0].setdefault(kn, obj)
    if _CONTAINERS[0] is not None:
        for key in [k for k in _CONTAINERS[0] if ko in k]:
            _CONTAINERS[0].setdefault(key.replace(ko, kn), _CONTAINERS[0].pop(key))
    return True


def run_session(spec):
    _OBJECTS[0] = {}
    _CONTAINERS[0] = {} if spec.get('share_containers') else None
    _SNAPS[0] = []
    _SESSION[0] = True
    _DECO[0] = None
    shared = {} if spec.get('share_index') else None
    try:
        trees, vias, sigs, r4 = [], [], set(), set()
        again = other_policy = False
        before = None
        edited = edited_seen = False
        for c in spec['calls']:
            if c.get('edit'):
                edited = True
                if _apply_edit(c['edit'][0], c['edit'][1]):
                    edited_seen = True
                ko, kn = json.dumps(c['edit'][0]), json.dumps(c['edit'][1])
                trees = [t.replace(ko, kn) for t in trees]                # the containers handed in earlier now hold the edited operand
                before = (before[0].replace(ko, kn), before[1]) if before is not None else None
            sub = dict(c['call'], share_index=False, tz=spec.get('tz'))
            _SHARED[0] = shared             # the index objects too live for the whole session (objects are cached, so only new leaves ask)
            key = json.dumps(sub['tree'])
            if _CONTAINERS[0] is not None and sub['call'] != 'presync' and sub['tree'][0] != 'tuple' and key in trees:
                again = True
                if before is not None and before[0] == key and before[1] != _jkind(sub['join']):
                    other_policy = True          # the very container of the previous call, now under another join policy
            before = (key, _jkind(sub['join'])) if sub['call'] != 'presync' else None
            inner = [json.dumps(x) for x in sub['tree'][1]] if sub['tree'][0] != 'dict' else [json.dumps(x[1]) for x in sub['tree'][1]]
            if _CONTAINERS[0] is not None and any(x in _CONTAINERS[0] for x in inner):
                again = True
            if sub['call'] != 'presync':
                trees.append(key)
            info = (run_presync if sub['call'] == 'presync' else run_sync)(sub)
            r4 |= set(info['cls']) & _R4_IN_SESSION
            if sub.get('how') == 'shared':
                vias.append(sub['via'])
                sigs.add(sub['sig'])
            else:
                vias.append(None)
        sels = [c['sel'] for c in spec['calls']]
        rel = set()
        for a, b in zip(sels, sels[1:]):
            if a != b and (a[:len(b)] == b or b[:len(a)] == a):
                rel.add('operands_prefix_of_previous_call' if len(b) < len(a) else 'operands_extend_previous_call')
            if a == b:
                rel.add('same_operands_again')
        fns = [c['call']['call'] for c in spec['calls']]
        cls = ['calls=%i' % len(fns)] + sorted(rel) + sorted(r4)
        if len(set(fns)) > 1:
            cls.append('different_entry_points_share_operands')
        if len(set(_jkind(c['call']['join']) for c in spec['calls'])) == 1:
            cls.append('one_join_policy_throughout')
        if again:
            cls.append('same_container_object_passed_again')
        if other_policy:
            cls.append('same_container_object_again_under_another_policy')
        used = [v for v in vias if v is not None]
        if len(used) >= 2:
            cls.append('one_decorator_object_for_several_calls')
            if any(v in ('call', 'call_join', 'prop') for v in used[:-1]):
                cls.append('decorator_used_again_after_an_override')
        if len(sigs) >= 2:
            cls.append('one_decorator_applied_to_two_functions')
        if edited:
            cls.append('operand_edited_in_place_between_calls')
        if edited_seen:
            cls.append('operand_edited_in_place_after_it_was_aligned')        # an earlier call of the session has seen the object before the edit
        return dict(nt=bool(rel - {'same_operands_again'}), cls=cls)
    finally:
        _OBJECTS[0] = None
        _CONTAINERS[0] = None
        _SHARED[0] = None
        _SESSION[0] = False
        _DECO[0] = None


_R4_IN_SESSION = {'stamps_microseconds_apart', 'container_of_a_derived_class', 'zone_aware_stamps', 'near_equal_operands', 'tiny_cell_values', 'zero_cell_value', 'mixed_datetime_units', 'same_object_passed_twice', 'numeric_column_labels', 'int_column_in_frame', 'numeric_dict_keys'}


# ============================================================================================ registration

_RULE_TS = ('timeseries = float Series (NaN sprinkled / none / all NaN), int Series, frames with 2-3 columns out of a,b,c,d (NaN by row, by cell, none) and '
            'single-column frames, each on a sorted subset (contiguous run, arbitrary subset, empty, or derived from an earlier index) of a 12-stamp irregular axis; in ~60% of the cases EVERY index derives from the first one by one fast-path fingerprint (twin = same length, same first/last stamp, different interior; same length; same endpoints; same first/last k stamps; proper subset / superset; copy), and explicit targets share it half of the time; '
            'cell values unique per object/column/stamp; in half of the cases timeseries with equal stamps share ONE index object (a third of the later series repeat the stamps of an earlier, non-adjacent one; half of the trees whose last series does so are aligned with a right join); '
            'in a minority of cases each: the DatetimeIndex resolutions (s/ms/us/ns) differ between operands and target; a timeseries is repeated verbatim (ONE object handed in several times, or equal distinct objects; left / right joins when the first / last one is the repeat); '
            'all column labels are integers; a frame has an int64 column; a frame repeats a column label (only where no column policy acts); dicts are keyed by integers; '
            'a timeseries holds cells of the order 1e-9 and exact zeros; a timeseries is an earlier one revised by less than a comparison tolerance (1e-9 / 2.5e-4 on one or every cell); '
            'every index of the case lies in one time zone (Asia/Tokyo, US/Eastern, Europe/London); one stamp of one operand / of the target lies 1 .. 999999 microseconds off a stamp of another; '
            'the explicit index is an object-dtype pd.Index of datetime / Timestamp objects or a DataFrame; containers are a user subclass of list / OrderedDict / dictattr; ')

SUBS = [
    Sub('sync', lambda tier: _sync_case(), run_sync, quick=1600, thorough=12000,
        rule=_RULE_TS + 'trees of list/dict/Dict (top-level tuple for df_sync) to depth 3 with 1-4 members per level mixing timeseries and None/int/float/str; '
             'df_sync / df_reindex / df_index (positional or keyword call) with join in ij,oj,lj,rj (two spellings), explicit DatetimeIndex, Series as index, one of the operands (or its .index object) as index, '
             'explicit index with exactly as many stamps as a list has members; method None/ffill/bfill; '
             'columns ij/oj/lj/rj/None/False. Oracle: dictionary model per cell, index as ordered list, column set, container types/keys, identity of '
             'non-timeseries members, inputs unchanged. non-trivial = two timeseries with partially overlapping or disjoint indices, or a cell actually '
             'filled from another stamp',
        floor=0.3, class_floors={'zone_aware_stamps': 0.1, 'zone_aware_stamps_off_utc_under_an_outer_join': 0.01, 'shared_index_object_around_another_index': 0.02, 'right_join_on_a_shared_index_object': 0.004, 'depth>=2': 0.15, 'empty_intersection': 0.005, 'empty_series': 0.05, 'frames_differing_columns': 0.03,
                                 'as_of_filled_cell': 0.1, 'join=l': 0.04, 'join=r': 0.04, 'join=idx': 0.05, 'join=series': 0.05, 'join=i': 0.04, 'join=o': 0.04,
                                 'same_span_same_length_different_interior': 0.04, 'twins_under_ij_oj': 0.01, 'same_length_different_stamps': 0.04,
                                 'same_endpoints_different_length': 0.03, 'nested_chain': 0.03, 'same_first_two_stamps': 0.03, 'same_last_two_stamps': 0.02,
                                 'all_equal': 0.005,
                                 'mixed_datetime_units': 0.025, 'same_object_passed_twice': 0.02, 'equal_operands_distinct_objects': 0.03,
                                 'left_right_join_with_a_repeated_object': 0.004, 'operand_is_also_the_target': 0.03, 'numeric_column_labels': 0.02, 'duplicate_column_labels': 0.008,
                                 'int_column_in_frame': 0.015, 'numeric_dict_keys': 0.07, 'index_length_equals_member_count': 0.03, 'explicit_index_as_long_as_the_list': 0.013,
                                 'keyword_call': 0.08,
                                 'fill_asked_beyond_the_first_or_last_observation': 0.045, 'near_equal_operands': 0.015, 'tiny_cell_values': 0.024, 'zero_cell_value': 0.019, 'zero_cell_value_under_a_fill': 0.009,
                                 # classes 32 / 33 / 35 of the brief (generalisation pass 3)
                                 'stamps_microseconds_apart': 0.03, 'stamps_apart_inside_one_millisecond': 0.028, 'stamps_apart_inside_one_second_only': 0.003, 'stamps_microseconds_apart_under_a_join_policy': 0.02, 'as_of_read_microseconds_off_an_observation': 0.01,
                                 'explicit_index_in_another_raw_form': 0.012, 'container_of_a_derived_class': 0.03, 'derived_container_below_the_root': 0.019, 'container=odict': 0.012, 'container=dictattr': 0.009, 'container=mylist': 0.017}),
    Sub('asof', lambda tier: _asof_case(), run_sync, quick=1600, thorough=12000,
        rule=_RULE_TS + 'one bare object, df_reindex(obj, explicit DatetimeIndex / Series as index / ij / oj, method) with method mostly ffill/bfill; '
             'same oracle. non-trivial = a cell filled from another stamp',
        floor=0.1, class_floors={'method=ffill': 0.15, 'method=bfill': 0.15, 'multi_column_frame': 0.1, 'as_of_filled_cell': 0.1,
                                  'vs_target:same_span_same_length_different_interior': 0.05, 'vs_target:nested_chain': 0.1,
                                  'vs_target:same_length_different_stamps': 0.05, 'vs_target:same_endpoints_different_length': 0.03,
                                  'mixed_datetime_units': 0.02, 'numeric_column_labels': 0.02, 'duplicate_column_labels': 0.006, 'int_column_in_frame': 0.006,
                                  'zone_aware_stamps': 0.08, 'fill_asked_beyond_the_first_or_last_observation': 0.09, 'tiny_cell_values': 0.013, 'zero_cell_value': 0.01, 'zero_cell_value_under_a_fill': 0.01,
                                 # classes 32 / 33 / 35 of the brief (generalisation pass 3)
                                 'stamps_microseconds_apart': 0.033, 'stamps_apart_inside_one_millisecond': 0.026, 'as_of_read_microseconds_off_an_observation': 0.033, 'explicit_index_in_another_raw_form': 0.025, 'raw_form=frame': 0.005, 'raw_form=obj_dt': 0.005, 'raw_form=obj_ts': 0.005, 'raw_form=obj_mixed': 0.005}),
    Sub('presync', lambda tier: _presync_case(), run_presync, quick=1200, thorough=8000,
        rule=_RULE_TS + 'f returns its arguments; f is declared as f(p0..p3), f(p0, *rest), f(p0, **kw), f(*a, **kw), f(p0, *, p1, p2, p3) or with declared defaults that are / hold timeseries (which must reach f untouched and leave the common index alone); 1-4 arguments (each a leaf or a tree to depth 2) passed positionally / by keyword / mixed; '
             'presync configured by constructor, by properties (.oj.ffill), by call-time join=/method= (and columns= against another constructor policy), index="p<i>", or an operand as index; columns=False with any tree, '
             'default column mode with Series-only trees. Same oracle on what f receives. non-trivial as in sync',
        floor=0.3, class_floors={'shared_index_object_around_another_index': 0.02, 'right_join_on_a_shared_index_object': 0.004, 'timeseries_through_*args': 0.05, 'timeseries_through_**kwargs': 0.05, 'mixed_positional_keyword': 0.1, 'mode=raw': 0.2, 'mode=cols': 0.2, 'how=prop': 0.1, 'how=call': 0.1, 'join=arg': 0.02,
                                  'same_span_same_length_different_interior': 0.02, 'twins_under_ij_oj': 0.005, 'same_length_different_stamps': 0.04, 'nested_chain': 0.03,
                                  'sig=kwonly': 0.025, 'sig=defaults': 0.02, 'timeseries_in_an_unpassed_declared_default': 0.02, 'timeseries_through_keyword_only_parameter': 0.018,
                                 'columns_given_at_call_time': 0.1, 'same_object_passed_twice': 0.02, 'left_right_join_with_a_repeated_object': 0.005,
                                 'operand_is_also_the_target': 0.012, 'mixed_datetime_units': 0.02, 'explicit_index_as_long_as_the_list': 0.004, 'duplicate_column_labels': 0.004,
                                 'numeric_dict_keys': 0.04,
                                 'zone_aware_stamps': 0.08, 'fill_asked_beyond_the_first_or_last_observation': 0.045, 'near_equal_operands': 0.015, 'tiny_cell_values': 0.024, 'zero_cell_value': 0.02, 'zero_cell_value_under_a_fill': 0.008,
                                 # classes 32 / 33 / 35 of the brief (generalisation pass 3)
                                 'stamps_microseconds_apart': 0.03, 'stamps_microseconds_apart_under_a_join_policy': 0.018, 'as_of_read_microseconds_off_an_observation': 0.011, 'explicit_index_in_another_raw_form': 0.008,
                                 'container_of_a_derived_class': 0.014, 'container=odict': 0.0055, 'container=dictattr': 0.0055, 'container=mylist': 0.008}),
    Sub('presync_cols', lambda tier: _presync_case(True), run_presync_cols, quick=1000, thorough=6000,
        rule=_RULE_TS + 'default column mode with frames among the arguments: f records every call; expected one call per common column (the shared columns '
             'when all multi-column frames agree, else the ij/oj/lj/rj column set), each call seeing every multi-column frame as that column (Series on the '
             'common index, as-of filled) or NaN / the default= given to presync when the frame lacks it, single-column frames as their column, Series aligned, the rest identical',
        floor=0.3, class_floors={'sig=varargs': 0.05, 'sig=varkw': 0.05, 'sig=var_both': 0.05, 'frames_differing_columns': 0.1, 'all_frames_same_columns': 0.1,
                                  'same_span_same_length_different_interior': 0.04, 'twins_under_ij_oj': 0.01, 'same_length_different_stamps': 0.04, 'nested_chain': 0.03,
                                  'default=given': 0.13, 'default_shown_for_a_lacking_column': 0.024, 'columns_given_at_call_time': 0.1, 'numeric_column_labels': 0.03,
                                 'sig=kwonly': 0.025, 'sig=defaults': 0.02, 'timeseries_in_an_unpassed_declared_default': 0.02, 'int_column_in_frame': 0.02,
                                 'mixed_datetime_units': 0.02, 'same_object_passed_twice': 0.02, 'operand_is_also_the_target': 0.016,
                                 'zone_aware_stamps': 0.08, 'default=0.0': 0.045, 'fill_asked_beyond_the_first_or_last_observation': 0.05, 'near_equal_operands': 0.015, 'tiny_cell_values': 0.027, 'zero_cell_value': 0.025, 'zero_cell_value_under_a_fill': 0.008,
                                 # classes 32 / 33 / 35 of the brief (generalisation pass 3)
                                 'stamps_microseconds_apart': 0.03, 'as_of_read_microseconds_off_an_observation': 0.012, 'explicit_index_in_another_raw_form': 0.007,
                                 'container_of_a_derived_class': 0.012, 'container=odict': 0.006, 'container=dictattr': 0.004, 'container=mylist': 0.0055}),
    Sub('session', lambda tier: _session_case(), run_session, quick=800, thorough=6000,
        rule=_RULE_TS + '3-4 Series / frames (now and then a small list / dict of them, or one of them twice) built ONCE, then 2-4 calls of df_index / df_reindex / df_sync / presync(f) on ordered selections of those same objects (half of them a '
             'prefix or an extension of the previous selection), mostly under one join policy; every call judged by the oracle of sync / presync, so a result may not depend on '
             'what was aligned before. In half of the sessions the list / dict containers are built once too and the same container object goes to several calls (a repeat of the previous '
             'operands half of the time under another policy); the presync calls of 3 sessions in 4 go through ONE decorator object presync(index=, method=, columns=False) applied to one function '
             'per shape, reached plainly, by call-time join=/method=, or through .oj/.ffill properties - mostly followed by a plain call that must show the policy the object was built with. '
             'In about one session in seven the caller writes one cell of an operand in place between two calls (mostly an operand the previous call has aligned): the later calls must show the new cell. '
             'non-trivial = two consecutive calls whose operand lists are prefix-related',
        floor=0.2, class_floors={'operands_prefix_of_previous_call': 0.15, 'operands_extend_previous_call': 0.1, 'different_entry_points_share_operands': 0.2, 'one_join_policy_throughout': 0.2,
                                 'same_container_object_passed_again': 0.05, 'same_container_object_again_under_another_policy': 0.012, 'one_decorator_object_for_several_calls': 0.06, 'decorator_used_again_after_an_override': 0.045,
                                 'one_decorator_applied_to_two_functions': 0.014, 'mixed_datetime_units': 0.045, 'numeric_column_labels': 0.025, 'numeric_dict_keys': 0.025,
                                 'same_object_passed_twice': 0.14, 'int_column_in_frame': 0.018,
                                 'zone_aware_stamps': 0.05, 'near_equal_operands': 0.03, 'tiny_cell_values': 0.028, 'zero_cell_value': 0.02,
                                 'operand_edited_in_place_between_calls': 0.05, 'operand_edited_in_place_after_it_was_aligned': 0.045,
                                 # classes 32 / 33 / 35 of the brief (generalisation pass 3)
                                 'stamps_microseconds_apart': 0.04, 'container_of_a_derived_class': 0.01}),
    Sub('arrays', lambda tier: _arrays_case(6 if tier == 'quick' else 9), run_arrays, quick=2000, thorough=12000,
        rule='trees (depth <= 3) of bare numpy arrays: 1-d and 2-d (1-3 columns), 0-6 rows (0-9 thorough), float64 with NaN / int64, mixed with scalars; '
             'df_sync / df_reindex / df_index / presync(columns=False) with ij,oj,lj,rj and method None/ffill/bfill. Oracle: common length = min/max/first/last, '
             'every array = its last n rows or NaN rows in front, per-column fill, shape and trailing dimensions kept, inputs unchanged. '
             'In one case in eight all arrays are views of one buffer that start at its first element with different strides (contiguous, every 2nd / 3rd element or row, transposed block), '
             'two views in three repeating the shape of the previous one; the buffer must stay unwritten. '
             'non-trivial = at least two different lengths',
        floor=0.3, class_floors={'truncated': 0.2, 'padded': 0.2, '2d': 0.2, 'empty_array': 0.05,
                                 'views_of_one_buffer': 0.02, 'same_buffer_same_shape_other_strides': 0.015, 'same_buffer_same_shape_other_strides_resized': 0.0035,
                                 # classes 32 / 33 / 35 of the brief (generalisation pass 3)
                                 'container_of_a_derived_class': 0.023, 'derived_container_below_the_root': 0.014}),
]
