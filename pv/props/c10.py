# -*- coding: utf-8 -*-
"""
C10 - drange enumerates exactly t0, t0+bump, ... up to t1 for every kind of bump.

The oracle iterates a reference step function written with datetime arithmetic only (no dateutil, no pyg_base):
ints / timedeltas / fixed units add a timedelta, month-based units move the month keeping the day (day <= 28 here),
business days are listed by walking one day at a time.

Sub-checks: `drange` (one call per case) and `session` (2-4 calls on the same endpoint / bump / Calendar objects, each judged by the single-call oracle).
Bug classes 11-20 of the builder brief: 11 -> `session`; 13 -> raw types of the endpoints and of the bump; 14 -> one object for both endpoints;
17 -> Calendar built with its optional parameters; 19 -> start days on month / year boundaries for the bumps that are not month based, b bumps from a
time of day; 20 -> compound tenors with the small part first. 12, 15, 16, 18 do not apply (no containers, tables, user functions or vector arguments).
Classes 21-29 (second pass): 21 -> both endpoints zone-aware in one fixed-offset zone (`tz`); 27 -> t1 a few microseconds short of / past a step, endpoints a few
microseconds apart (`eps_us`, timedelta bumps); 29 -> zero bumps get their own label. 22 (Calendar window that does not contain the range) and 28 (the session empties
every list it was handed) were there already; 23-26 do not apply (no renames, compiled objects, arrays; bump=None is not a bump of the statement).
Classes 30-40 (third pass): 33 -> endpoints as ISO text / 'yyyymmdd' / int yyyymmdd / int year (`endpoint_as_text_or_int`, in `drange` and `session`); 32 -> starts and timedelta bumps at microsecond
resolution (`microsecond_start`, `microsecond_bump`); 30 -> sub-check `relative`: t1 left to its default (today), t0 / t1 as offsets from today, bracketed by two clock readings of the harness.
"""
import datetime
import json
import os
import re

from hypothesis import strategies as st

from pv.core import Sub, Violation, call_fuel, check, short, OutOfFuel

ASSUMPTIONS = [
    'second resolution for string / int bumps (rrule discards microseconds), millisecond steps for timedelta bumps (a plain loop); start dates 1950-2050; spans up to ~3 years but at most ~400 list elements',
    'endpoints a whole number of days apart for business-day bumps (at midnight or at 02:00; int / timedelta / d / w bumps: in a third of the cases a whole number of days plus 1 h / 12 h / 23:59:59, or less than a day); '
    'midnight and day-of-month <= 28 for m/q/y parts (the 28th, the 1st, February, December and January over-weighted); intraday endpoints with timedelta and h/n/s bumps; '
    'for the bumps that are not month based the start is, in 40% of the cases, 28 / 29 Feb, a 30th, a 31st, 31 Dec or 1 Jan',
    'a zero business-day bump ("0b") is outside the claim (it lists every weekday; the statement only speaks of bumps pointing away from t1)',
    'compound tenors: all parts of one sign (long unit first or short unit first), or a dominant part (>= 4 weeks) with a small correction (<= 7 days) of the other sign before or after it, so the step is strictly monotone; '
    'business-day parts appear only in single-period strings',
    'wrong-direction / zero bumps must raise ValueError; nothing else may raise; termination is decided by fuel (400 calls per expected element + 60000)',
    'raw types: the endpoints are datetime.datetime and, in a quarter of the cases, datetime.date / numpy datetime64[D, s, us, ns] / pd.Timestamp for the same instant (independently for t0 and t1; '
    'the result is compared by ==, a Timestamp equals its datetime); int bumps also as numpy int64, timedelta bumps also as pd.Timedelta. numpy timedelta64 and float bumps are outside: '
    'they are not bumps for the library (is_bump) and drange has no branch for them; bump=None (the default) is not among the bumps the statement lists',
    'Calendar.drange (non-b bumps only, as in the statement) is called on Calendar("pv") and, half of the time, on a Calendar built with holidays inside the span, another weekend, a 7-day or 800-day t0..t1 window and adj: '
    'none of them may change a non-b range. Calendars are constructed directly, never registered in the module-level `calendars`',
    'session: the follow-up calls are the same call again / t1 twice or half as far (whole days kept) / endpoints swapped with the bump negated / the bump negated / a longer stride, on the SAME objects; '
    'a swap that would start a month-based bump after the 28th is replaced by a repeat. State kept by the library across CASES of one process also reaches the checks: a replay of a shrunk session '
    'may then need the earlier calls (the message lists the calls of the session made so far)',
    'zone-aware endpoints (8% of the cases): BOTH endpoints in ONE zone object with a fixed non-zero offset (datetime.timezone +05:30 / -08:00, dateutil tzoffset +09:00, pytz.FixedOffset -03:00), as datetime or pd.Timestamp; '
    'the result must be the reference list of wall times in that zone (same instants, every element aware with the same offset). Zones with daylight saving are outside: the statement does not say whether a bump is '
    'wall-clock or elapsed time; one aware and one naive endpoint cannot be compared at all',
    'zone-aware endpoints with a month-based part that drange iterates through dt_bump (a negative or zero single m/q/y bump, any compound tenor with m/q/y) raise TypeError today (dt_bump drops the tzinfo): '
    'finding F37, fixed in /repo (replay replays/C10/F37-*.json): generated by default, left out only with PV_C10_EXCLUDE_FIXED=1',
    'microsecond near misses (t1 1-7 microseconds short of / past a whole number of steps, endpoints 1-7 microseconds apart) only with timedelta bumps in `drange` (the statement puts intraday endpoints with timedelta bumps; '
    'rrule works at second resolution; session arithmetic is in milliseconds)',
    'endpoints as text / int (class 33; 8% of the cases of `drange` and `session`, drawn where the class-13 raw types were not): only the spellings dt() and drange document and that cannot be read as a bump - '
    '"yyyy-mm-dd" (any day, so day <= 12 occurs), "yyyy-mm-dd HH:MM:SS", "yyyymmdd", int yyyymmdd, and the int year (drange(2000, ...)) for a start moved to 1 Jan at midnight; an instant with microseconds, '
    'or a zone-aware one, stays a datetime (the documented spellings stop at the second and carry no zone). Excel / ordinal / unix numbers and d-m-y texts are left out: they are dialect questions of dt(), not of drange',
    'microsecond resolution (class 32) only with timedelta bumps in `drange`: a start carrying microseconds (a quarter of the timedelta cases), and - where the class-27 near miss was not drawn - bumps of 1 us .. 1 s + 1 us '
    'with t1 a whole number of steps from t0, one microsecond short of / past it, or half a step further (spans inside one millisecond included). Period strings stay at second resolution (rrule drops microseconds)',
    'relative / default endpoints (class 30, sub-check `relative`): the statement speaks of drange(t0, t1, bump); what an omitted t1 or an int / "-kd" endpoint MEANS is taken from the docstrings of date_range and drange '
    '(t1 omitted = today at midnight; an int below 1500 or a period string as t0 = that far from today, as t1 = that far from t0 when t0 is a date, from today when t0 is relative too). Only the forms in which the list '
    'still starts at the t0 handed over are generated: t0 never after today when t1 is omitted (date_range sorts the two, the list would start at today), offsets of t0 <= 0, whole days; bump=None, t0=None (1900) stay outside. '
    'The harness reads the clock before and after the call and accepts the reference from either reading; a memoised "today" that goes stale at midnight cannot be seen within one run (no clock hook)',
]

# zone-aware endpoints with a month-based part that drange iterates through dt_bump ('-1m' backwards, '0m', every compound tenor with m / q / y): dt_bump builds the
# moved date with _ymd (pyg_base/_dates.py:396-400), which drops the tzinfo, and drange then compares a naive with an aware datetime -> TypeError. Reported as a defect;
# generated by default since dt_bump keeps the tzinfo (F37); PV_C10_EXCLUDE_FIXED=1 leaves them out
INCLUDE_AWARE_MONTH_PARTS = os.environ.get('PV_C10_EXCLUDE_FIXED', '') != '1'      # F37, fixed in /repo: generated by default

DAY = datetime.timedelta(1)
_UNIT_SECONDS = dict(d=86400, w=7 * 86400, h=3600, n=60, s=1)
_TOKEN = re.compile(r'([-+]?)(\d+)([dbwmqyhns])')


def mkdt(o, sec=0):
    return datetime.datetime.fromordinal(o) + datetime.timedelta(seconds=sec)


# ----------------------------------------------------------------------------- reference stepping

def ref_parts(tenor):
    parts = [(int(sign + num), unit) for sign, num, unit in _TOKEN.findall(tenor.lower())]
    assert re.fullmatch(r'([-+]?\d+[dbwmqyhns])+', tenor.lower()), tenor
    return parts


def ref_add_months(t, months):
    y, m = t.year, t.month - 1 + months
    y, m = y + m // 12, m % 12 + 1
    # same day of month when it exists, otherwise the excess days roll into the following month (C09); time of day kept (midnight here)
    first = datetime.datetime(y, m, 1, t.hour, t.minute, t.second)
    return first + datetime.timedelta(days=t.day - 1)


def ref_step(t, parts):
    for n, u in parts:
        if u in _UNIT_SECONDS:
            t = t + datetime.timedelta(seconds=n * _UNIT_SECONDS[u])
        elif u == 'm':
            t = ref_add_months(t, n)
        elif u == 'q':
            t = ref_add_months(t, 3 * n)
        elif u == 'y':
            t = ref_add_months(t, 12 * n)
        else:
            raise AssertionError('business-day parts are not stepped by the reference')
    return t


def ref_iterate(t0, t1, step, cap=4000):
    """t0, step(t0), ... while inside the closed span; None when the step does not point from t0 towards t1"""
    if t0 == t1:
        return [t0]
    fwd = t1 > t0
    nxt = step(t0)
    if (fwd and nxt <= t0) or (not fwd and nxt >= t0):
        return None
    out, t = [], t0
    while (t <= t1 if fwd else t >= t1):
        out.append(t)
        t = step(t)
        if len(out) > cap:
            raise AssertionError('reference list too long')
    return out


def ref_weekdays(t0, t1, k):
    """every |k|-th weekday between the endpoints, ascending for k > 0, descending from t0 for k < 0"""
    lo, hi = min(t0, t1), max(t0, t1)
    days, t = [], lo
    while t <= hi:
        if t.weekday() < 5:
            days.append(t)
        t += DAY
    if k < 0:
        days = days[::-1]
    return days[::abs(k)]


# ----------------------------------------------------------------------------- generator

_ord = st.integers(datetime.date(1950, 1, 1).toordinal(), datetime.date(2050, 1, 1).toordinal())
_TOKEN_I = re.compile(r'([-+]?)(\d+)([dbwmqyhnsDBWMQYHNS])')
_MONTH_FORMS = ('md', 'ym', 'ymd', 'm-d', 'y-m', 'dm', 'my', '-dm')
_SMALL_FIRST = ('dm', 'my', 'hd', 'dw', '-dm', '-dw')
_BOUNDARY_KINDS = ('int', 'td_days', 'td_intraday', 'd', 'w', 'b', 'hns')
_KINDS = ['int', 'int', 'td_days', 'td_intraday', 'td_subsecond', 'd', 'w', 'b', 'b', 'month', 'month', 'hns', 'compound', 'compound', 'equal']
_RAW_TAGS = ['dt', 'date', 'np_D', 'np_s', 'np_us', 'np_ns', 'ts']
# class 33: the endpoints as TEXT / int in the spellings dt() documents - 'yyyy-mm-dd' (day <= 12 included: the uk dialect must not read it as d-m), 'yyyy-mm-dd HH:MM:SS',
# 'yyyymmdd', int yyyymmdd, and the int year of drange's own docstring (drange(2000, 10, 1)) for a 1 Jan; mixed with datetime / Timestamp / date for the other endpoint
_TEXT_TAGS = ('iso', 'iso_time', 'text8', 'int8', 'year')
_TEXT_MIX = ['iso', 'iso', 'iso_time', 'iso_time', 'text8', 'int8', 'year', 'dt', 'ts', 'date']


def _frac(draw, days, nel):
    """the distance between the endpoints in seconds: `days` whole days, in a third of the cases plus a part of a day (the endpoints then have
    different times of day), and now and then LESS than a day in all (the list is then [t0])"""
    rem = draw(st.sampled_from([0, 0, 0, 0, 3600, 43200, 86399]))
    if rem and (nel == 0 or draw(st.integers(0, 7)) == 0):
        return rem
    return days * 86400 + rem


def _month_end_ordinal(draw, o):
    """boundary days for month arithmetic that exist in every month: the 28th (the last day of a non-leap February), the 1st, and February itself"""
    d = datetime.date.fromordinal(o)
    how = draw(st.sampled_from(['asis', 'asis', 'asis', 'feb28', 'feb28', 'day28', 'day1', 'dec', 'jan']))
    if how == 'feb28':
        return d.replace(month=2, day=28).toordinal()
    if how == 'day28':
        return d.replace(day=28).toordinal()
    if how == 'day1':
        return d.replace(day=1).toordinal()
    if how == 'dec':
        return d.replace(month=12, day=min(d.day, 28)).toordinal()
    if how == 'jan':
        return d.replace(month=1, day=min(d.day, 28)).toordinal()
    return d.replace(day=min(d.day, 28)).toordinal()


def _boundary_ordinal(draw, o):
    """start days on a month / year boundary for the bumps that are NOT month based (class 19): 28 and 29 Feb, the 30th, the 31st, 31 Dec, 1 Jan"""
    how = draw(st.sampled_from(['asis'] * 9 + ['feb28', 'feb29', 'd30', 'd31', 'dec31', 'jan1']))
    d = datetime.date.fromordinal(o)
    if how == 'feb28':
        d = d.replace(month=2, day=28)
    elif how == 'feb29':
        d = datetime.date(max(1952, d.year - d.year % 4), 2, 29)
    elif how == 'd30':
        d = d.replace(month=3 if d.month == 2 else d.month, day=30)
    elif how == 'd31':
        d = d.replace(month=[1, 3, 5, 7, 8, 10, 12][d.month % 7], day=31)
    elif how == 'dec31':
        d = d.replace(month=12, day=31)
    elif how == 'jan1':
        d = d.replace(month=1, day=1)
    return d.toordinal()


def _raw(draw):
    """class 13: the endpoints as datetime.date / numpy datetime64 (D, s, us, ns) / pd.Timestamp, the bump as numpy int64 / pd.Timedelta - in a quarter of the cases"""
    if draw(st.integers(0, 3)):
        return None
    return [draw(st.sampled_from(_RAW_TAGS)), draw(st.sampled_from(_RAW_TAGS)), draw(st.sampled_from(['py', 'np']))]


def _cal_opts(draw):
    """class 17: the optional parameters of Calendar (holidays - offsets in days from t0 -, weekend, a short t0..t1 window - offsets too -, adj): none of them may touch a non-b drange"""
    if draw(st.booleans()):
        return None
    return dict(hol=draw(st.lists(st.integers(-5, 40), max_size=4)), weekend=draw(st.sampled_from([None, [], [4, 5], [0, 1, 2, 3, 4, 5, 6]])),
                lo=draw(st.sampled_from([None, 3, -400])), hi=draw(st.sampled_from([None, 10, 400])), adj=draw(st.sampled_from(['m', 'f', 'p'])))


_ZONES = ['+05:30', '-08:00', 'dateutil+09:00', 'pytz-03:00']


def _needs_dt_bump_on_months(bump, span):
    """True when drange has to iterate dt_bump over a month-based part (see INCLUDE_AWARE_MONTH_PARTS): not for t0 == t1, a positive single bump, or a single bump of the wrong sign"""
    if not _month_parts(bump) or not span:
        return False
    toks = _TOKEN_I.findall(bump)
    if len(toks) > 1:
        return True
    n = int(toks[0][0] + toks[0][1])
    return n == 0 or (n < 0 and span < 0)


def _zone(draw, spec, session):
    """class 21: both endpoints zone-aware, in one zone with a non-zero offset from UTC"""
    if draw(st.integers(0, 11)):
        return
    tz = draw(st.sampled_from(_ZONES))
    if not INCLUDE_AWARE_MONTH_PARTS and (_month_parts(spec['bump']) if session else _needs_dt_bump_on_months(spec['bump'], spec['span_s'])):
        return
    spec['tz'] = tz


def _near_miss(draw, spec, step_ms, nel, sgn):
    """class 27: t1 a few microseconds short of / past a whole number of steps from t0 (the last element is then out / in), or the endpoints only a few microseconds
    apart (not equal: [t0] for a bump of the right sign, ValueError for the other sign); timedelta bumps only"""
    if draw(st.integers(0, 4)):
        return
    eps = draw(st.sampled_from([-1, 1, -1, 1, -7, 3]))
    how = draw(st.sampled_from(['on_step', 'on_step', 'on_step', 'asis', 'apart', 'apart']))
    if how == 'apart':
        span_ms, eps = 0, abs(eps)
        wrong = draw(st.booleans())
        mag = abs(spec['bump'][1]) or 1
        spec['bump'] = [spec['bump'][0], (-sgn if wrong else sgn) * mag]
        spec['right'] = not wrong
    elif how == 'on_step' and step_ms and nel:
        span_ms = nel * step_ms
    else:
        span_ms = abs(round(spec['span_s'] * 1000))
    spec['span_s'] = sgn * span_ms / 1000.0
    spec['eps_us'] = sgn * eps


def _t0_us(draw, spec):
    """class 32: a start that carries microseconds (every element of the list then does): a normaliser flooring to the millisecond / second moves the whole list"""
    if not draw(st.integers(0, 3)):
        spec['t0_us'] = draw(st.sampled_from([1, 7, 500, 999, 1001, 123456, 999999]))


def _micro(draw, spec, sgn, bs):
    """class 32: everything at microsecond resolution - a timedelta bump of some microseconds (also 1 ms +- 1 us, 1 s + 1 us), t1 a whole number of steps from t0, one microsecond
    short of / past that, or half a step further; spans shorter than a millisecond included (both endpoints inside one millisecond)"""
    if draw(st.integers(0, 2)):
        return
    step = draw(st.sampled_from([1, 3, 250, 999, 1001, 1500, 1000001]))
    nel = draw(st.integers(0, 40))
    end = draw(st.sampled_from(['on_step', 'one_short', 'one_past', 'half']))
    span = max(1, nel * step + dict(on_step=0, one_short=-1, one_past=1, half=step // 2)[end])
    spec.update(span_us=sgn * span, span_s=sgn * span / 1e6, bump=['tdus', bs * step], us_end=end if nel else 'short')


@st.composite
def _case(draw, session=False):
    kind = draw(st.sampled_from(_KINDS if session else _KINDS * 3 + ['long']))
    o = draw(_ord)
    right = draw(st.sampled_from([True] * 7 + [False]))        # bump points towards t1?
    back = draw(st.booleans())                                     # t1 before t0?
    route = draw(st.sampled_from(['drange', 'drange', 'drange', 'calendar']))
    spec = dict(kind=kind, back=back, right=right, route=route)
    sgn = -1 if back else 1
    bs = sgn if right else -sgn                                    # sign of the bump
    if kind == 'long':         # ranges of 1000-1500 elements: size-dependent paths
        n = draw(st.integers(1000, 1500))
        b = draw(st.sampled_from(['int', 'd', 'b', 'td']))
        bump = {'int': bs, 'd': '%s1d' % ('-' if bs < 0 else ''), 'b': '%s1b' % ('-' if bs < 0 else ''), 'td': ['td', bs * 86400]}[b]
        spec.update(t0=[o, 0], span_s=sgn * n * 86400, bump=bump, route='drange')
        return spec
    if kind in _BOUNDARY_KINDS:
        o = _boundary_ordinal(draw, o)
    if kind == 'equal':
        spec.update(t0=[o, draw(st.sampled_from([0, 3600]))], span_s=0, bump=draw(st.sampled_from([1, -1, '1d', '-1b', '1m', ['td', 3600], '1m1d'])))
        spec['route'] = 'drange'
        spec['same_obj'] = draw(st.booleans())                    # class 14: drange(t, t, bump) with ONE object for both endpoints
    elif kind == 'int':
        n = draw(st.integers(1, 10)) if draw(st.sampled_from([1] * 11 + [0])) else 0
        nel = draw(st.integers(0, 60)) + draw(st.sampled_from([0, 3]))
        span = max(1, nel * max(n, 1) + draw(st.integers(0, max(n - 1, 0))))
        spec.update(t0=[o, draw(st.sampled_from([0, 0, 7200]))], span_s=sgn * _frac(draw, span, nel), bump=bs * n, also=draw(st.sampled_from([None, 'td', 'str'])))
    elif kind == 'td_days':
        n = draw(st.integers(1, 10)) if draw(st.sampled_from([1] * 11 + [0])) else 0
        nel = draw(st.integers(0, 60)) + draw(st.sampled_from([0, 3]))
        span = max(1, nel * max(n, 1) + draw(st.integers(0, max(n - 1, 0))))
        spec.update(t0=[o, draw(st.sampled_from([0, 0, 7200]))], span_s=sgn * _frac(draw, span, nel), bump=['td', bs * n * 86400])
        if not session:
            _near_miss(draw, spec, n * 86400000, nel, sgn)
            _t0_us(draw, spec)
    elif kind == 'td_subsecond':      # the timedelta branch is a plain loop: sub-second steps are valid there (milliseconds in the spec)
        step = draw(st.sampled_from([100, 250, 1100, 1, 333, 7]))
        nel = draw(st.integers(0, 40))
        span = max(nel * step + draw(st.sampled_from([0, 0, 0, step // 2])), 1)
        spec.update(t0=[o, draw(st.integers(0, 86399))], span_s=sgn * span / 1000.0, bump=['tdms', bs * step], route='drange')
        if not session:
            _near_miss(draw, spec, step, nel, sgn)
            if 'eps_us' not in spec:                              # only where class 27 did not fire: its rates stay what they were
                _micro(draw, spec, sgn, bs)
            _t0_us(draw, spec)
    elif kind == 'td_intraday':
        step = draw(st.sampled_from([1, 30, 60, 900, 3600, 5400, 21600, 86400 + 3600])) if draw(st.integers(0, 6)) else 0
        nel = draw(st.integers(0, 80))
        span = max(1, nel * max(step, 1) + draw(st.integers(0, max(step - 1, 0))))
        spec.update(t0=[o, draw(st.integers(0, 86399))], span_s=sgn * span, bump=['td', bs * step])
        if not session:
            _near_miss(draw, spec, step * 1000, nel, sgn)
            _t0_us(draw, spec)
    elif kind in ('d', 'w'):
        n = draw(st.integers(1, 9)) if draw(st.sampled_from([1] * 11 + [0])) else 0
        mult = 1 if kind == 'd' else 7
        nel = draw(st.integers(0, 50))
        span = max(1, nel * max(n, 1) * mult + draw(st.integers(0, 6)))
        spec.update(t0=[o, draw(st.sampled_from([0, 0, 7200]))], span_s=sgn * _frac(draw, span, nel), bump='%s%i%s' % ('-' if bs < 0 else draw(st.sampled_from(['', '+'])), n, draw(st.sampled_from([kind, kind.upper()]))))
    elif kind == 'b':
        n = draw(st.integers(1, 7))
        span = draw(st.integers(1, 250))
        spec.update(t0=[o, draw(st.sampled_from([0, 0, 0, 7200]))], span_s=sgn * span * 86400, bump='%s%ib' % ('-' if bs < 0 else draw(st.sampled_from(['', '', '+'])), n))
        spec['route'] = 'drange'
    elif kind == 'month':
        unit = draw(st.sampled_from(['m', 'm', 'q', 'y']))
        n = draw(st.integers(1, 5)) if draw(st.sampled_from([1] * 11 + [0])) else 0
        o = _month_end_ordinal(draw, o)
        span = draw(st.integers(1, 1100))
        spec.update(t0=[o, 0], span_s=sgn * span * 86400, bump='%s%i%s' % ('-' if bs < 0 else '', n, unit))
    elif kind == 'hns':
        unit = draw(st.sampled_from(['h', 'n', 's']))
        n = draw(st.integers(1, 90)) if draw(st.sampled_from([1] * 11 + [0])) else 0
        step = max(n, 1) * _UNIT_SECONDS[unit]
        nel = draw(st.integers(0, 80))
        span = max(1, nel * step + draw(st.integers(0, step - 1)))
        spec.update(t0=[o, draw(st.integers(0, 86399))], span_s=sgn * span, bump='%s%i%s' % ('-' if bs < 0 else '', n, unit))
    else:
        # the forms after 'w-d' put the SMALL part first (class 20: the order of the steps - a day shift before the step that reads the day of the month)
        form = draw(st.sampled_from(['md', 'ym', 'wd', 'dh', 'ymd', 'm-d', 'y-m', 'w-d', 'dm', 'dm', 'my', 'hd', 'dw', '-dm', '-dm', '-dw']))
        a, b, c = draw(st.integers(1, 3)), draw(st.integers(1, 6)), draw(st.integers(1, 6))
        s = '-' if bs < 0 else ''
        o_s = '+' if bs < 0 else '-'
        tenor = {'md': '%s%im%s%id' % (s, a, s, b), 'ym': '%s%iy%s%im' % (s, a, s, b), 'wd': '%s%iw%s%id' % (s, a, s, b), 'dh': '%s%id%s%ih' % (s, a, s, b),
                 'ymd': '%s%iy%s%im%s%id' % (s, a, s, b, s, c), 'm-d': '%s%im%s%id' % (s, a, o_s, b), 'y-m': '%s%iy%s%im' % (s, a, o_s, b), 'w-d': '%s%iw%s%id' % (s, a + 3, o_s, b),
                 'dm': '%s%id%s%im' % (s, b, s, a), 'my': '%s%im%s%iy' % (s, b, s, a), 'hd': '%s%ih%s%id' % (s, b, s, a), 'dw': '%s%id%s%iw' % (s, b, s, a),
                 '-dm': '%s%id%s%im' % (o_s, b, s, a), '-dw': '%s%id%s%iw' % (o_s, b, s, a + 3)}[form]
        if form in _MONTH_FORMS:
            o = _month_end_ordinal(draw, o)
            sec = 0
            span = draw(st.integers(1, 1100)) * 86400
        elif form in ('dh', 'hd'):
            sec = draw(st.integers(0, 86399))
            span = draw(st.integers(1, 200 * 86400))
        else:
            sec = draw(st.sampled_from([0, 7200]))
            span = draw(st.integers(1, 400)) * 86400
        spec.update(t0=[o, sec], span_s=sgn * span, bump=tenor, form=form)
    raw = _raw(draw)
    if raw is None and not draw(st.integers(0, 8)):               # class 33, drawn only where class 13 did not fire: the rates of the class-13 labels stay what they were
        raw = [draw(st.sampled_from(_TEXT_MIX)), draw(st.sampled_from(_TEXT_MIX)), 'py']
        if raw[0] == 'year':                                      # drange(2000, ...): the int year spells 1 Jan at midnight - the start is moved there (a day every kind of bump may start from)
            spec['t0'] = [datetime.date(datetime.date.fromordinal(spec['t0'][0]).year, 1, 1).toordinal(), 0]
    if raw:
        spec['raw'] = raw
    if spec['route'] == 'calendar':
        cal = _cal_opts(draw)
        if cal:
            spec['cal'] = cal
    _zone(draw, spec, session)
    return spec


# ----------------------------------------------------------------------------- building the arguments, expected value, verdict

def _bump_obj(b):
    if isinstance(b, list):
        return datetime.timedelta(milliseconds=b[1]) if b[0] == 'tdms' else datetime.timedelta(microseconds=b[1]) if b[0] == 'tdus' else datetime.timedelta(seconds=b[1])
    return b


def raw_instant(t, tag):
    """the instant t (a datetime.datetime) in another raw type; a tag that cannot hold t (a date for 07:00) falls back to a finer one"""
    if tag in (None, 'dt'):
        return t
    import numpy as np
    import pandas as pd
    midnight = (t.hour, t.minute, t.second, t.microsecond) == (0, 0, 0, 0)
    if tag in _TEXT_TAGS:
        if t.microsecond:
            return t                                           # the documented spellings stop at the second
        if tag == 'iso_time' or not midnight:
            return t.strftime('%Y-%m-%d %H:%M:%S')
        if tag == 'iso':
            return t.strftime('%Y-%m-%d')
        if tag == 'text8':
            return t.strftime('%Y%m%d')
        if tag == 'year' and (t.month, t.day) == (1, 1):
            return t.year
        return t.year * 10000 + t.month * 100 + t.day
    if tag == 'date':
        return datetime.date(t.year, t.month, t.day) if midnight else pd.Timestamp(t)
    if tag == 'np_D' and midnight:
        return np.datetime64(t.date(), 'D')
    if tag == 'np_s' and t.microsecond == 0:
        return np.datetime64(t, 's')
    if tag in ('np_D', 'np_s', 'np_us'):
        return np.datetime64(t, 'us')
    if tag == 'np_ns':
        return np.datetime64(t, 'ns')
    assert tag == 'ts', tag
    return pd.Timestamp(t)


def zone(tag):
    """the tzinfo object of a case (class 21): fixed offsets only, four implementations"""
    if tag is None:
        return None
    if tag == '+05:30':
        return datetime.timezone(datetime.timedelta(hours=5, minutes=30))
    if tag == '-08:00':
        return datetime.timezone(datetime.timedelta(hours=-8), 'PST')
    if tag == 'dateutil+09:00':
        from dateutil import tz
        return tz.tzoffset('JST', 9 * 3600)
    assert tag == 'pytz-03:00', tag
    import pytz
    return pytz.FixedOffset(-180)


def aware_instant(t, tag, tz):
    """the wall time t in the zone tz (None: naive) in the raw type `tag`; only datetime and pd.Timestamp can carry a zone"""
    if tz is None:
        return raw_instant(t, tag)
    t = t.replace(tzinfo=tz)
    if tag in ('np_us', 'np_ns', 'ts'):
        import pandas as pd
        return pd.Timestamp(t)
    return t


def raw_bump(b, tag):
    """the bump in another raw type: numpy int64 for an int, pd.Timedelta for a timedelta (period strings have one type only)"""
    if tag != 'np' or isinstance(b, str):
        return b
    if isinstance(b, int):
        import numpy as np
        return np.int64(b)
    import pandas as pd
    return pd.Timedelta(b)


def make_calendar(opts, t0):
    from pyg_base import Calendar
    if not opts:
        return Calendar('pv')
    d0 = datetime.datetime(t0.year, t0.month, t0.day)
    kw = dict(holidays=[d0 + k * DAY for k in opts['hol']], adj=opts['adj'])
    if opts['weekend'] is not None:
        kw['weekend'] = list(opts['weekend'])
    if opts['lo'] is not None:
        kw['t0'] = d0 + opts['lo'] * DAY
    if opts['hi'] is not None:
        kw['t1'] = d0 + opts['hi'] * DAY
    return Calendar('pv', **kw)


def expected(t0, t1, bump):
    """the list the statement describes (None = ValueError) for plain datetimes t0, t1 and a python int / timedelta / period string"""
    if isinstance(bump, str) and bump.lower().endswith('b') and len(ref_parts(bump)) == 1:
        k = ref_parts(bump)[0][0]
        if t0 == t1:
            return [t0]
        if (t1 > t0) != (k > 0):
            return None
        return ref_weekdays(t0, t1, k)
    if isinstance(bump, str):
        parts = ref_parts(bump)
        return ref_iterate(t0, t1, lambda t: ref_step(t, parts))
    if isinstance(bump, int):
        return ref_iterate(t0, t1, lambda t: t + bump * DAY)
    return ref_iterate(t0, t1, lambda t: t + bump)


def fuel_limit(exp, bump, span_ms):
    daily = isinstance(bump, int) or (isinstance(bump, str) and bump.lower().endswith('b'))
    return 60000 + 400 * (len(exp) if exp else 0) + (3000 * (abs(span_ms) // 86400000) if daily else 0)


def invoke(what, f, a0, a1, b, limit, exp):
    from pv.core import fuel
    try:
        with fuel(limit):
            return ('ok', f(a0, a1, b))
    except ValueError as e:
        return ('ValueError', str(e))
    except OutOfFuel:
        raise Violation('%s did not terminate within %i calls (expected %s)' % (what, limit, 'ValueError' if exp is None else '%i elements' % len(exp)))
    except Violation:
        raise
    except Exception as e:
        raise Violation('%s raised %s: %s' % (what, type(e).__name__, str(e)[:200]))


def judge(what, status, res, exp, t0, t1, tz=None):
    """the outcome of one call against the single-call oracle; returns the list (or None for the ValueError case). exp, t0, t1 are wall times; with a zone tz the
    result must be those wall times in that zone: aware elements with the zone's offset, the same instants"""
    if exp is None:
        check(status == 'ValueError', '%s: the bump points away from t1 (or is zero), expected ValueError but got %s', what, res)
        return None
    check(status == 'ok', '%s raised ValueError(%s) but the reference list has %s elements starting %s', what, res, len(exp), exp[:3])
    check(isinstance(res, list), '%s returned %s', what, type(res).__name__)
    got = list(res)
    check(all(isinstance(t, datetime.datetime) for t in got), '%s returned non-datetimes: %s', what, got[:3])
    if tz is not None:
        off = tz.utcoffset(None)
        check(all(t.tzinfo is not None and t.utcoffset() == off for t in got), '%s: the endpoints are zone-aware (offset %s) but the result has elements that are naive or in another zone: %s', what, off, short(got[:3], 160))
        exp = [t.replace(tzinfo=tz) for t in exp]
        t0, t1 = t0.replace(tzinfo=tz), t1.replace(tzinfo=tz)
    else:
        check(all(t.tzinfo is None for t in got), '%s: the endpoints are naive but the result has zone-aware elements: %s', what, short(got[:3], 160))
    if got != exp:
        raise Violation('%s returned %i elements %s ... %s; the reference iteration gives %i elements %s ... %s'
                        % (what, len(got), short(got[:3], 120), short(got[-2:], 80), len(exp), short(exp[:3], 120), short(exp[-2:], 80)))
    # validity restated from the statement (redundant with equality, kept as a readable second oracle)
    fwd = t1 >= t0
    check(all((a < b) if fwd else (a > b) for a, b in zip(got[:-1], got[1:])), '%s is not strictly monotone', what)
    check(all(min(t0, t1) <= t <= max(t0, t1) for t in got), '%s leaves the span', what)
    return got


def _what(route, a0, a1, b):
    return '%sdrange(%r, %r, %r)' % ('' if route == 'drange' else 'Calendar.', a0, a1, b)


def _is_nt(kind, back, bump, exp):
    n = len(exp) if exp else 0
    return exp is None or (n >= 3 and (back or kind in ('compound', 'td_intraday', 'td_subsecond', 'hns') or (isinstance(bump, int) and abs(bump) > 1) or kind in ('b', 'month')))


def _type_classes(a0, a1, b):
    cls = []
    if type(a0) is not datetime.datetime or type(a1) is not datetime.datetime:
        cls.append('raw_endpoint_type')
        for a in (a0, a1):
            if type(a) is not datetime.datetime and 'raw_endpoint=' + type(a).__name__ not in cls:
                cls.append('raw_endpoint=' + type(a).__name__)
        if type(a0) is not type(a1):
            cls.append('raw_endpoints_of_two_types')
        for a in (a0, a1):                       # class 33
            if type(a) is str:
                form = {10: 'iso', 19: 'iso_with_time', 8: 'yyyymmdd'}[len(a)]
                cls += ['endpoint_as_text_or_int', 'endpoint_text_' + form]
                if form == 'iso' and int(a[8:]) <= 12:
                    cls.append('endpoint_text_iso_day<=12')
            elif type(a) is int:
                cls += ['endpoint_as_text_or_int', 'endpoint_int_yyyymmdd' if a > 10000 else 'endpoint_int_year']
    if not isinstance(b, str) and type(b) not in (int, datetime.timedelta):
        cls.append('raw_bump_type')
        cls.append('raw_bump=' + type(b).__name__)
    return list(dict.fromkeys(cls))


def run_drange(spec):
    from pyg_base import drange
    t0 = mkdt(*spec['t0']) + datetime.timedelta(microseconds=spec.get('t0_us', 0))
    span_ms = round(spec['span_s'] * 1000)
    eps_us = spec.get('eps_us', 0)
    t1 = t0 + (datetime.timedelta(microseconds=spec['span_us']) if 'span_us' in spec else datetime.timedelta(milliseconds=span_ms, microseconds=eps_us))
    bump = _bump_obj(spec['bump'])
    kind = spec['kind']
    raw = spec.get('raw') or ['dt', 'dt', 'py']
    tz = zone(spec.get('tz'))
    a0 = aware_instant(t0, raw[0], tz)
    a1 = a0 if spec.get('same_obj') else aware_instant(t1, raw[1], tz)
    b = raw_bump(bump, raw[2])
    exp = expected(t0, t1, bump)
    limit = fuel_limit(exp, bump, span_ms)
    f = drange if spec['route'] == 'drange' else make_calendar(spec.get('cal'), t0).drange
    what = _what(spec['route'], a0, a1, b)
    status, res = invoke(what, f, a0, a1, b, limit, exp)
    res = judge(what, status, res, exp, t0, t1, tz)
    # ---- int / timedelta / 'nd' agree
    if kind == 'int' and spec.get('also') and bump != 0:
        other = datetime.timedelta(bump) if spec['also'] == 'td' else '%id' % bump
        s2, r2 = invoke(_what(spec['route'], a0, a1, other), f, a0, a1, other, limit, exp)
        check((s2, r2 if s2 == 'ok' else None) == (status, res if status == 'ok' else None), '%s and the same call with %r disagree: %s vs %s', what, other, short(res, 150), short(r2, 150))
    n = len(exp) if exp else 0
    cls = ['kind=' + kind, 'route=' + spec['route'], 'wrong_direction_or_zero' if exp is None else 'n=%s' % ('0' if n == 0 else '1-2' if n < 3 else '3+')]
    if spec['back']:
        cls.append('t1<t0')
    if kind in ('int', 'td_days', 'd', 'w') and (int(abs(spec['span_s'])) % 86400 or eps_us):
        cls.append('endpoints_not_whole_days_apart')
        if abs(spec['span_s']) < 86400:
            cls.append('endpoints_less_than_a_day_apart')
    if kind in ('month', 'compound') and t0.day == 28 and t0.month == 2 and t0.hour == 0:
        cls.append('from_28_feb')
        if t0.year % 4:
            cls.append('from_28_feb_non_leap')
    if exp is not None and spec['back'] and n >= 3:
        cls.append('negative_direction_3+')
    # ---- classes of the generalisation pass (bug classes 13, 14, 17, 19, 20)
    cls += _type_classes(a0, a1, b)
    if a0 is a1:
        cls.append('one_object_for_both_endpoints')
    if spec.get('cal'):
        cls.append('calendar_with_options')
        if spec['cal']['lo'] is not None or spec['cal']['hi'] is not None:
            cls.append('calendar_with_short_window')
    if kind in _BOUNDARY_KINDS:
        md = (t0.month, t0.day)
        on = 'start_29_feb' if md == (2, 29) else 'start_28_feb' if md == (2, 28) else 'start_30_31' if t0.day >= 30 and md != (12, 31) else 'start_31_dec_1_jan' if md in ((12, 31), (1, 1)) else None
        if on:
            cls += ['start_on_month_or_year_boundary', on]
            if n >= 3:
                cls.append('start_on_month_or_year_boundary_3+')
    if kind == 'b' and spec['t0'][1]:
        cls.append('b_from_a_time_of_day')
    if kind == 'compound' and spec.get('form') in _SMALL_FIRST:
        cls.append('compound_small_part_first')
        if n >= 3:
            cls.append('compound_small_part_first_3+')
    # ---- classes of the second pass (bug classes 21, 27, 29)
    if tz is not None:
        cls.append('zone_aware_endpoints')
        if n >= 3:
            cls.append('zone_aware_3+')
            if isinstance(bump, str):
                cls.append('zone_aware_period_string_3+')
        if _month_parts(bump) and _needs_dt_bump_on_months(bump, span_ms):
            cls.append('zone_aware_month_parts_through_dt_bump')
    if eps_us:
        cls.append('near_miss_microseconds')
        step_us = abs(bump // datetime.timedelta(microseconds=1))
        if not span_ms:
            cls.append('near_miss_endpoints_microseconds_apart')
            if exp is None:
                cls.append('near_miss_endpoints_microseconds_apart_wrong_direction')
        elif step_us and exp is not None and (abs(span_ms) * 1000) % step_us == 0:
            cls.append('near_miss_t1_just_short_of_a_step' if (eps_us < 0) == (span_ms > 0) else 'near_miss_t1_just_past_a_step')
    # ---- classes of the third pass (bug classes 32, 33; 30 is the sub-check `relative`)
    if spec.get('t0_us'):
        cls.append('microsecond_start')
        if n >= 3:
            cls.append('microsecond_start_3+')
    if 'span_us' in spec:
        cls += ['microsecond_bump', 'microsecond_bump_' + spec['us_end']]
        if t0 != t1 and t0.replace(microsecond=t0.microsecond // 1000 * 1000) == t1.replace(microsecond=t1.microsecond // 1000 * 1000):
            cls.append('microsecond_endpoints_inside_one_millisecond')
        if n >= 3:
            cls.append('microsecond_bump_3+')
    if _is_zero_bump(bump):
        cls.append('zero_bump')
    return dict(nt=bool(_is_nt(kind, spec['back'], spec['bump'], exp)), cls=cls)


def _is_zero_bump(bump):
    """class 29: the falsy bumps 0, timedelta(0), '0d' ... (a zero step must raise ValueError unless t0 == t1)"""
    if isinstance(bump, str):
        return all(n == 0 for n, _ in ref_parts(bump))
    return not bump


# ----------------------------------------------------------------------------- sessions (class 11): several calls on the same endpoint objects

_OPS = ['same', 'same', 'extend', 'shorten', 'reverse', 'reverse', 'negate', 'other']


def _neg_bump(b):
    if isinstance(b, list):
        return [b[0], -b[1]]
    if isinstance(b, int):
        return -b
    return ''.join(('' if sign == '-' else '-') + num + unit for sign, num, unit in _TOKEN_I.findall(b))


def _other_bump(b):
    """another bump of the same type and sign (a longer stride)"""
    if isinstance(b, list):
        return [b[0], b[1] * 2 if b[1] else 1000]
    if isinstance(b, int):
        return b + (1 if b >= 0 else -1)
    toks = _TOKEN_I.findall(b)
    sign, num, unit = toks[0]
    return ''.join([sign + str(int(num) + 1) + unit] + [s_ + n_ + u_ for s_, n_, u_ in toks[1:]])


def _month_parts(b):
    return isinstance(b, str) and any(u.lower() in 'mqy' for _, _, u in _TOKEN_I.findall(b))


def session_apply(state, op, t0):
    """the next call of a session: state = (offset of the start from the first start, span, bump), both in milliseconds. An op that would leave the
    domain of the statement (a month-based bump from a day of the month after the 28th) is replaced by 'same'"""
    off, span, bump = state
    if op == 'extend':
        return (off, span * 2, bump)
    if op == 'shorten':
        days, rem = divmod(abs(span), 86400000)
        return (off, (1 if span >= 0 else -1) * ((days // 2) * 86400000 + rem), bump) if days >= 2 else state
    if op == 'reverse':
        start = t0 + datetime.timedelta(milliseconds=off + span)
        if _month_parts(bump) and start.day > 28:
            return state
        return (off + span, -span, _neg_bump(bump))
    if op == 'negate':
        return (off, span, _neg_bump(bump))
    if op == 'other':
        if isinstance(bump, list) and bump[0] == 'td' and not bump[1] and abs(span) > 400 * 1000 * 1000:
            return (off, span, ['td', 86400])       # a zero bump over weeks: a day, not 1000 s (tens of thousands of elements, beyond the cap of the reference)
        return (off, span, _other_bump(bump))
    assert op == 'same', op
    return state


@st.composite
def _session_case(draw):
    base = draw(_case(session=True))
    base.pop('also', None)
    ops = draw(st.lists(st.sampled_from(_OPS), min_size=1, max_size=3))
    return dict(base=base, ops=ops)


def run_session(spec):
    """2-4 calls that share their endpoint and bump OBJECTS (one object per instant / per bump for the whole session, one Calendar object), every call
    judged by the single-call oracle; each returned list is emptied by the caller before the next call (a callee that hands out its memo is then seen)"""
    from pyg_base import drange
    base = spec['base']
    t_first = mkdt(*base['t0'])
    raw = base.get('raw') or ['dt', 'dt', 'py']
    f = drange if base['route'] == 'drange' else make_calendar(base.get('cal'), t_first).drange
    instants, bumps = {}, {}
    tz = zone(base.get('tz'))                    # ONE zone object for the whole session

    def instant(off):
        if off not in instants:
            instants[off] = aware_instant(t_first + datetime.timedelta(milliseconds=off), raw[0] if off == 0 else raw[1], tz)
        return instants[off]

    def bump_of(bs):
        key = json.dumps(bs)
        if key not in bumps:
            bumps[key] = raw_bump(_bump_obj(bs), raw[2])
        return bumps[key]
    state = (0, round(base['span_s'] * 1000), base['bump'])
    nt, cls, done = False, ['session', 'kind=' + base['kind'], 'route=' + base['route']], []
    for i, op in enumerate([None] + list(spec['ops'])):
        if op is not None:
            new = session_apply(state, op, t_first)
            cls.append('op=' + (op if new != state or op == 'same' else 'same'))
            state = new
        off, span, bs = state
        t0 = t_first + datetime.timedelta(milliseconds=off)
        t1 = t0 + datetime.timedelta(milliseconds=span)
        a0, a1, b = instant(off), instant(off + span), bump_of(bs)      # span 0: ONE object for both endpoints
        bump = _bump_obj(bs)
        exp = expected(t0, t1, bump)
        what = 'call %i of the session %s: %s' % (i + 1, done, _what(base['route'], a0, a1, b))
        status, res = invoke(what, f, a0, a1, b, fuel_limit(exp, bump, span), exp)
        got = judge(what, status, res, exp, t0, t1, tz)
        if status == 'ok' and isinstance(res, list):
            del res[:]                           # the caller owns the list it was given
        done.append(_what(base['route'], a0, a1, b))
        nt = nt or _is_nt(base['kind'], span < 0, bs, exp)
        cls += _type_classes(a0, a1, b)
        if op is not None and exp is not None and len(exp) >= 3:
            cls.append('later_call_3+')
        if op is not None and exp is None:
            cls.append('later_call_wrong_direction')
    cls.append('calls=%i' % (1 + len(spec['ops'])))
    if base.get('cal'):
        cls.append('calendar_with_options')
    if tz is not None:
        cls.append('zone_aware_endpoints')
    return dict(nt=bool(nt), cls=sorted(set(cls)))


# ----------------------------------------------------------------------------- endpoints relative to today / left to their default (class 30)

_REL_FORMS = ['t1_omitted', 't1_omitted', 't0_offset', 't0_offset', 'both_offsets', 't1_offset_from_t0']


@st.composite
def _relative_case(draw):
    """the forms of date_range's docstring: drange(t0, bump=b) / drange(t0, None, b) (t1 = today), drange(-k, None, b) and drange('-kd', None, b) (k days ago .. today),
    drange(-k, m, b) (both relative to today), drange(t0, m, b) (t1 = t0 + m days). The spec holds offsets only; `run` reads the clock"""
    form = draw(st.sampled_from(_REL_FORMS))
    btype = draw(st.sampled_from(['int', 'int', 'td_days', 'td_hours', 'd', 'w', 'b', 'h']))
    n = draw(st.integers(1, 7))
    k = draw(st.integers(1, 400)) if draw(st.integers(0, 19)) else 0
    spec = dict(form=form, k=k, right=draw(st.sampled_from([True] * 7 + [False])), btype=btype, n=n,
                route='drange' if btype == 'b' else draw(st.sampled_from(['drange', 'drange', 'drange', 'calendar'])))
    if form == 't1_omitted':
        spec['explicit_none'] = draw(st.booleans())
        spec['sec'] = draw(st.sampled_from([0, 0, 3600, 86399])) if btype in ('td_hours', 'h') and k else 0
        spec['raw0'] = draw(st.sampled_from(['dt', 'dt', 'date', 'iso', 'int8', 'ts']))
    elif form == 't0_offset':
        spec['explicit_none'] = draw(st.booleans())
        spec['text'] = draw(st.sampled_from([False, False, True]))
    elif form == 'both_offsets':
        d = draw(st.integers(1, 120))
        spec['m'] = {'fwd': d - k, 'back': -k - d, 'equal': -k, 'today': 0}[draw(st.sampled_from(['fwd', 'fwd', 'fwd', 'back', 'back', 'equal', 'today', 'today']))]
    else:
        spec['o'] = draw(_ord)
        spec['m'] = draw(st.integers(1, 400)) * draw(st.sampled_from([1, 1, -1])) if draw(st.integers(0, 19)) else 0
    return spec


def _harness_today():
    now = datetime.datetime.now()
    return datetime.datetime(now.year, now.month, now.day)


def _relative_endpoints(spec, today, t0_abs):
    form, k = spec['form'], spec['k']
    if form == 't1_omitted':
        return t0_abs, today
    if form == 't0_offset':
        return today - k * DAY, today
    if form == 'both_offsets':
        return today - k * DAY, today + spec['m'] * DAY
    return t0_abs, t0_abs + spec['m'] * DAY


def run_relative(spec):
    from pyg_base import drange, Calendar
    form, k, n = spec['form'], spec['k'], spec['n']
    before = _harness_today()
    # ---- the arguments
    t0_abs = None
    if form == 't1_omitted':
        t0_abs = before - k * DAY + datetime.timedelta(seconds=spec['sec'])      # never after today: k >= 1 when there is a time of day
        a0 = raw_instant(t0_abs, spec['raw0'])
    elif form == 't1_offset_from_t0':
        t0_abs = a0 = mkdt(spec['o'])
    else:
        a0 = '-%id' % k if spec.get('text') else -k
    a1 = spec['m'] if 'm' in spec else None
    t0, t1 = _relative_endpoints(spec, before, t0_abs)
    fwd = t1 >= t0
    bs = (1 if fwd else -1) * (1 if spec['right'] else -1)
    bt = spec['btype']
    bump = {'int': bs * n, 'td_days': datetime.timedelta(bs * n), 'td_hours': datetime.timedelta(hours=6 * bs * n), 'd': '%id' % (bs * n), 'w': '%iw' % (bs * n),
            'b': '%ib' % (bs * n), 'h': '%ih' % (6 * bs * n)}[bt]
    f = drange if spec['route'] == 'drange' else Calendar('pv').drange
    omitted = form in ('t1_omitted', 't0_offset') and not spec['explicit_none']
    what = '%sdrange(%r, bump = %r)' % ('' if spec['route'] == 'drange' else 'Calendar.', a0, bump) if omitted else _what(spec['route'], a0, a1, bump)
    exp = expected(t0, t1, bump)
    limit = 2 * fuel_limit(exp, bump, (t1 - t0) // datetime.timedelta(milliseconds=1)) + 60000
    status, res = invoke(what, (lambda x, _, b: f(x, bump=b)) if omitted else f, a0, a1, bump, limit, exp)
    after = _harness_today()
    # ---- the verdict: the library read the clock between the two readings of the harness; the reference computed from either reading is accepted
    try:
        judge(what + ' [today = %s]' % before.date(), status, res, exp, t0, t1)
    except Violation:
        if after == before:
            raise
        t0, t1 = _relative_endpoints(spec, after, t0_abs)
        exp = expected(t0, t1, bump)
        judge(what + ' [today = %s or %s]' % (before.date(), after.date()), status, res, exp, t0, t1)
    ln = len(exp) if exp else 0
    cls = ['form=' + form, 'bump=' + bt, 'route=' + spec['route'], 'wrong_direction' if exp is None else 'n=%s' % ('1-2' if ln < 3 else '3+')]
    if omitted:
        cls.append('t1_left_out')
    elif a1 is None:
        cls.append('t1_none_explicit')
    if form in ('t0_offset', 'both_offsets'):
        cls.append('t0_relative_to_today')
        if ln >= 3:
            cls.append('t0_relative_to_today_3+')
        if type(a0) is str:
            cls.append('t0_offset_as_text')
        if k == 0:
            cls.append('t0_offset_zero')
    if form == 't1_omitted':
        cls.append('t1_defaults_to_today')
        if ln >= 3:
            cls.append('t1_defaults_to_today_3+')
        if type(a0) is not datetime.datetime:
            cls.append('t1_defaults_to_today_raw_t0')
    if form == 'both_offsets' and not fwd:
        cls.append('both_offsets_backwards')
    if t0 == t1:
        cls.append('endpoints_equal')
    return dict(nt=bool(exp is None or ln >= 3), cls=cls)


# class floors: the seven of the first rounds, then (generalisation pass) about a third of the rate seen over seeds 1-3
DRANGE_FLOORS = {
    'endpoints_not_whole_days_apart': 0.08, 'endpoints_less_than_a_day_apart': 0.004, 'from_28_feb_non_leap': 0.02, 'wrong_direction_or_zero': 0.1, 'negative_direction_3+': 0.1, 'kind=compound': 0.05, 'kind=b': 0.05,
    'raw_endpoint_type': 0.06, 'raw_endpoints_of_two_types': 0.018, 'raw_endpoint=date': 0.009, 'raw_endpoint=datetime64': 0.045, 'raw_endpoint=Timestamp': 0.017, 'raw_bump_type': 0.013, 'raw_bump=int64': 0.005, 'raw_bump=Timedelta': 0.007,
    'one_object_for_both_endpoints': 0.005, 'calendar_with_options': 0.025, 'calendar_with_short_window': 0.019,
    'start_on_month_or_year_boundary': 0.13, 'start_on_month_or_year_boundary_3+': 0.07, 'start_29_feb': 0.013, 'start_28_feb': 0.012, 'start_30_31': 0.03, 'start_31_dec_1_jan': 0.06,
    'b_from_a_time_of_day': 0.011, 'compound_small_part_first': 0.025, 'compound_small_part_first_3+': 0.009,
    # second pass (classes 21, 27, 29)
    'zone_aware_endpoints': 0.025, 'zone_aware_3+': 0.012, 'zone_aware_period_string_3+': 0.006,
    'near_miss_microseconds': 0.011, 'near_miss_t1_just_short_of_a_step': 0.0027, 'near_miss_t1_just_past_a_step': 0.002, 'near_miss_endpoints_microseconds_apart': 0.003,
    'near_miss_endpoints_microseconds_apart_wrong_direction': 0.0012, 'zero_bump': 0.015,
    # third pass (classes 32, 33)
    'microsecond_start': 0.016, 'microsecond_start_3+': 0.009, 'microsecond_bump': 0.004, 'microsecond_bump_3+': 0.0025, 'microsecond_bump_on_step': 0.0007, 'microsecond_bump_one_short': 0.0008,
    'microsecond_bump_one_past': 0.0008, 'microsecond_bump_half': 0.0004, 'microsecond_endpoints_inside_one_millisecond': 0.0006,
    'endpoint_as_text_or_int': 0.013, 'endpoint_text_iso': 0.0025, 'endpoint_text_iso_day<=12': 0.0007, 'endpoint_text_iso_with_time': 0.008, 'endpoint_text_yyyymmdd': 0.0013, 'endpoint_int_yyyymmdd': 0.0022,
    'endpoint_int_year': 0.0016,
}
SESSION_FLOORS = {
    'op=same': 0.17, 'op=extend': 0.045, 'op=shorten': 0.035, 'op=reverse': 0.09, 'op=negate': 0.04, 'op=other': 0.045, 'later_call_3+': 0.15, 'later_call_wrong_direction': 0.09,
    'calls=3': 0.06, 'calls=4': 0.1, 'raw_endpoint_type': 0.08, 'raw_bump_type': 0.01, 'calendar_with_options': 0.03, 'kind=b': 0.045, 'kind=compound': 0.045, 'kind=month': 0.04, 'kind=equal': 0.014,
    'zone_aware_endpoints': 0.04,
    'endpoint_as_text_or_int': 0.02, 'endpoint_text_iso': 0.004, 'endpoint_text_iso_with_time': 0.013, 'endpoint_text_yyyymmdd': 0.001, 'endpoint_int_yyyymmdd': 0.0015,
}

# a third of the rates seen over seeds 1-3 (less for the classes whose rate swings between seeds)
RELATIVE_FLOORS = {
    'form=t1_omitted': 0.09, 'form=t0_offset': 0.08, 'form=both_offsets': 0.04, 'form=t1_offset_from_t0': 0.07, 'wrong_direction': 0.025, 'n=3+': 0.15, 't1_left_out': 0.085, 't1_none_explicit': 0.07,
    't0_relative_to_today': 0.14, 't0_relative_to_today_3+': 0.07, 't0_offset_as_text': 0.022, 't0_offset_zero': 0.02, 't1_defaults_to_today': 0.09, 't1_defaults_to_today_3+': 0.04,
    't1_defaults_to_today_raw_t0': 0.05, 'both_offsets_backwards': 0.005, 'endpoints_equal': 0.05, 'route=calendar': 0.035, 'bump=b': 0.03, 'bump=td_hours': 0.035,
}

SUBS = [
    Sub('drange', lambda tier: _case(), run_drange, quick=8000, thorough=40000,
        rule='t0 in 1950-2050 at second resolution, span 0..~3 years either way, bumps: ints (+-, 0), timedeltas (days / intraday, +-, 0), single period strings for every unit '
             '(d w b m q y h n s, +-, 0, both cases), compound strings; right and wrong direction; module drange and Calendar.drange. Oracle: reference iteration with '
             'datetime arithmetic (weekday walk for b), ValueError for wrong-direction/zero, int == timedelta == "nd", fuel-bounded termination. In a quarter of the cases the endpoints are date / datetime64 / Timestamp '
             'objects and the bump a numpy int64 / pd.Timedelta; Calendar.drange also on calendars with holidays, weekend, window and adj; starts on month / year boundaries; compound tenors in both part orders. '
             'non-trivial = >= 3 elements with negative direction / stride > 1 / compound / intraday / b / month, or a wrong-direction case',
        floor=0.3, class_floors=DRANGE_FLOORS),
    Sub('session', lambda tier: _session_case(), run_session, quick=2500, thorough=12000,
        rule='2-4 calls on the same endpoint / bump / Calendar objects: the same call again, t1 twice as far / half as far, the endpoints swapped with the bump negated, the bump '
             'negated or lengthened on the same endpoints; every call judged by the single-call oracle, every returned list emptied by the caller before the next call. '
             'non-trivial = some call of the session is non-trivial by the rule of `drange`',
        floor=0.3, class_floors=SESSION_FLOORS),
    Sub('relative', lambda tier: _relative_case(), run_relative, quick=500, thorough=1500,
        rule='endpoints left to their default or given relative to today, in the forms date_range documents: drange(t0, bump = b) and drange(t0, None, b) for a t0 up to 400 days ago (t1 = today at midnight), '
             'drange(-k, None, b) / drange("-kd", None, b), drange(-k, m, b) (today - k days .. today + m days, either direction), drange(t0, m, b) (t1 = t0 + m days); bumps int / timedelta (days, hours) / d w b h, '
             'right and wrong sign; module drange and Calendar.drange. The library reads the clock: the harness reads it before and after the call and accepts the reference list computed from either reading. '
             'non-trivial = >= 3 elements or a wrong-direction case',
        floor=0.3, class_floors=RELATIVE_FLOORS),
]
