# -*- coding: utf-8 -*-
"""
C10 - drange enumerates exactly t0, t0+bump, ... up to t1 for every kind of bump.

The oracle iterates a reference step function written with datetime arithmetic only (no dateutil, no pyg_base):
ints / timedeltas / fixed units add a timedelta, month-based units move the month keeping the day (day <= 28 here),
business days are listed by walking one day at a time.
"""
import datetime
import re

from hypothesis import strategies as st

from pv.core import Sub, Violation, call_fuel, check, short, OutOfFuel

ASSUMPTIONS = [
    'second resolution for string / int bumps (rrule discards microseconds), millisecond steps for timedelta bumps (a plain loop); start dates 1950-2050; spans up to ~3 years but at most ~400 list elements',
    'endpoints a whole number of days apart for business-day bumps (int / timedelta / d / w bumps: in a third of the cases a whole number of days plus 1 h / 12 h / 23:59:59, or less than a day); midnight and day-of-month <= 28 for m/q/y parts (the 28th, the 1st, February, December and January over-weighted); intraday endpoints with timedelta and h/n/s bumps',
    'a zero business-day bump ("0b") is outside the claim (it lists every weekday; the statement only speaks of bumps pointing away from t1)',
    'compound tenors: all parts of one sign, or a dominant first part (>= 4 weeks) followed by a small correction (<= 7 days) so the step is strictly monotone; '
    'business-day parts appear only in single-period strings',
    'wrong-direction / zero bumps must raise ValueError; nothing else may raise; termination is decided by fuel (400 calls per expected element + 60000)',
    'intraday spans shorter than a day with a wrong-direction h/n/s string bump are excluded only where (t1-t0).days == 0 cannot tell the direction: they must still not hang',
]

DAY = datetime.timedelta(1)
_UNIT_SECONDS = dict(d=86400, w=7 * 86400, h=3600, n=60, s=1)
_TOKEN = re.compile(r'([-+]?)(\d+)([dbwmqyhns])')


def mkdt(o, sec=0):
    return datetime.datetime.fromordinal(o) + datetime.timedelta(seconds=sec)


# ----------------------------------------------------------------------------- reference stepping

def ref_parts(tenor):
    parts = [(int(sign + num), unit) for sign, num, unit in _TOKEN.findall(tenor.lower())]
    assert re.fullmatch(r'([-+]?\d+[dbwmqyhns])+', tenor.lower()), tenor
    return parts


def ref_add_months(t, months):
    y, m = t.year, t.month - 1 + months
    y, m = y + m // 12, m % 12 + 1
    # same day of month when it exists, otherwise the excess days roll into the following month (C09); time of day kept (midnight here)
    first = datetime.datetime(y, m, 1, t.hour, t.minute, t.second)
    return first + datetime.timedelta(days=t.day - 1)


def ref_step(t, parts):
    for n, u in parts:
        if u in _UNIT_SECONDS:
            t = t + datetime.timedelta(seconds=n * _UNIT_SECONDS[u])
        elif u == 'm':
            t = ref_add_months(t, n)
        elif u == 'q':
            t = ref_add_months(t, 3 * n)
        elif u == 'y':
            t = ref_add_months(t, 12 * n)
        else:
            raise AssertionError('business-day parts are not stepped by the reference')
    return t


def ref_iterate(t0, t1, step, cap=4000):
    """t0, step(t0), ... while inside the closed span; None when the step does not point from t0 towards t1"""
    if t0 == t1:
        return [t0]
    fwd = t1 > t0
    nxt = step(t0)
    if (fwd and nxt <= t0) or (not fwd and nxt >= t0):
        return None
    out, t = [], t0
    while (t <= t1 if fwd else t >= t1):
        out.append(t)
        t = step(t)
        if len(out) > cap:
            raise AssertionError('reference list too long')
    return out


def ref_weekdays(t0, t1, k):
    """every |k|-th weekday between the endpoints, ascending for k > 0, descending from t0 for k < 0"""
    lo, hi = min(t0, t1), max(t0, t1)
    days, t = [], lo
    while t <= hi:
        if t.weekday() < 5:
            days.append(t)
        t += DAY
    if k < 0:
        days = days[::-1]
    return days[::abs(k)]


# ----------------------------------------------------------------------------- generator

_ord = st.integers(datetime.date(1950, 1, 1).toordinal(), datetime.date(2050, 1, 1).toordinal())


def _frac(draw, days, nel):
    """the distance between the endpoints in seconds: `days` whole days, in a third of the cases plus a part of a day (the endpoints then have
    different times of day), and now and then LESS than a day in all (the list is then [t0])"""
    rem = draw(st.sampled_from([0, 0, 0, 0, 3600, 43200, 86399]))
    if rem and (nel == 0 or draw(st.integers(0, 7)) == 0):
        return rem
    return days * 86400 + rem


def _month_end_ordinal(draw, o):
    """boundary days for month arithmetic that exist in every month: the 28th (the last day of a non-leap February), the 1st, and February itself"""
    d = datetime.date.fromordinal(o)
    how = draw(st.sampled_from(['asis', 'asis', 'asis', 'feb28', 'feb28', 'day28', 'day1', 'dec', 'jan']))
    if how == 'feb28':
        return d.replace(month=2, day=28).toordinal()
    if how == 'day28':
        return d.replace(day=28).toordinal()
    if how == 'day1':
        return d.replace(day=1).toordinal()
    if how == 'dec':
        return d.replace(month=12, day=min(d.day, 28)).toordinal()
    if how == 'jan':
        return d.replace(month=1, day=min(d.day, 28)).toordinal()
    return d.replace(day=min(d.day, 28)).toordinal()


@st.composite
def _case(draw):
    kind = draw(st.sampled_from(['int', 'int', 'td_days', 'td_intraday', 'td_subsecond', 'd', 'w', 'b', 'b', 'month', 'month', 'hns', 'compound', 'compound', 'equal'] * 3 + ['long']))
    o = draw(_ord)
    right = draw(st.sampled_from([True] * 7 + [False]))        # bump points towards t1?
    back = draw(st.booleans())                                     # t1 before t0?
    route = draw(st.sampled_from(['drange', 'drange', 'drange', 'calendar']))
    spec = dict(kind=kind, back=back, right=right, route=route)
    sgn = -1 if back else 1
    bs = sgn if right else -sgn                                    # sign of the bump
    if kind == 'long':         # ranges of 1000-1500 elements: size-dependent paths
        n = draw(st.integers(1000, 1500))
        b = draw(st.sampled_from(['int', 'd', 'b', 'td']))
        bump = {'int': bs, 'd': '%s1d' % ('-' if bs < 0 else ''), 'b': '%s1b' % ('-' if bs < 0 else ''), 'td': ['td', bs * 86400]}[b]
        spec.update(t0=[o, 0], span_s=sgn * n * 86400, bump=bump, route='drange')
        return spec
    if kind == 'equal':
        spec.update(t0=[o, draw(st.sampled_from([0, 3600]))], span_s=0, bump=draw(st.sampled_from([1, -1, '1d', '-1b', '1m', ['td', 3600], '1m1d'])))
        spec['route'] = 'drange'
        return spec
    if kind == 'int':
        n = draw(st.integers(1, 10)) if draw(st.sampled_from([1] * 11 + [0])) else 0
        nel = draw(st.integers(0, 60)) + draw(st.sampled_from([0, 3]))
        span = max(1, nel * max(n, 1) + draw(st.integers(0, max(n - 1, 0))))
        spec.update(t0=[o, draw(st.sampled_from([0, 0, 7200]))], span_s=sgn * _frac(draw, span, nel), bump=bs * n, also=draw(st.sampled_from([None, 'td', 'str'])))
    elif kind == 'td_days':
        n = draw(st.integers(1, 10)) if draw(st.sampled_from([1] * 11 + [0])) else 0
        nel = draw(st.integers(0, 60)) + draw(st.sampled_from([0, 3]))
        span = max(1, nel * max(n, 1) + draw(st.integers(0, max(n - 1, 0))))
        spec.update(t0=[o, draw(st.sampled_from([0, 0, 7200]))], span_s=sgn * _frac(draw, span, nel), bump=['td', bs * n * 86400])
    elif kind == 'td_subsecond':      # the timedelta branch is a plain loop: sub-second steps are valid there (milliseconds in the spec)
        step = draw(st.sampled_from([100, 250, 1100, 1, 333, 7]))
        nel = draw(st.integers(0, 40))
        span = max(nel * step + draw(st.sampled_from([0, 0, 0, step // 2])), 1)
        spec.update(t0=[o, draw(st.integers(0, 86399))], span_s=sgn * span / 1000.0, bump=['tdms', bs * step], route='drange')
    elif kind == 'td_intraday':
        step = draw(st.sampled_from([1, 30, 60, 900, 3600, 5400, 21600, 86400 + 3600])) if draw(st.integers(0, 6)) else 0
        nel = draw(st.integers(0, 80))
        span = max(1, nel * max(step, 1) + draw(st.integers(0, max(step - 1, 0))))
        spec.update(t0=[o, draw(st.integers(0, 86399))], span_s=sgn * span, bump=['td', bs * step])
    elif kind in ('d', 'w'):
        n = draw(st.integers(1, 9)) if draw(st.sampled_from([1] * 11 + [0])) else 0
        mult = 1 if kind == 'd' else 7
        nel = draw(st.integers(0, 50))
        span = max(1, nel * max(n, 1) * mult + draw(st.integers(0, 6)))
        spec.update(t0=[o, draw(st.sampled_from([0, 0, 7200]))], span_s=sgn * _frac(draw, span, nel), bump='%s%i%s' % ('-' if bs < 0 else draw(st.sampled_from(['', '+'])), n, draw(st.sampled_from([kind, kind.upper()]))))
    elif kind == 'b':
        n = draw(st.integers(1, 7))
        span = draw(st.integers(1, 250))
        spec.update(t0=[o, 0], span_s=sgn * span * 86400, bump='%s%ib' % ('-' if bs < 0 else draw(st.sampled_from(['', '', '+'])), n))
        spec['route'] = 'drange'
    elif kind == 'month':
        unit = draw(st.sampled_from(['m', 'm', 'q', 'y']))
        n = draw(st.integers(1, 5)) if draw(st.sampled_from([1] * 11 + [0])) else 0
        o = _month_end_ordinal(draw, o)
        span = draw(st.integers(1, 1100))
        spec.update(t0=[o, 0], span_s=sgn * span * 86400, bump='%s%i%s' % ('-' if bs < 0 else '', n, unit))
    elif kind == 'hns':
        unit = draw(st.sampled_from(['h', 'n', 's']))
        n = draw(st.integers(1, 90)) if draw(st.sampled_from([1] * 11 + [0])) else 0
        step = max(n, 1) * _UNIT_SECONDS[unit]
        nel = draw(st.integers(0, 80))
        span = max(1, nel * step + draw(st.integers(0, step - 1)))
        spec.update(t0=[o, draw(st.integers(0, 86399))], span_s=sgn * span, bump='%s%i%s' % ('-' if bs < 0 else '', n, unit))
    else:
        form = draw(st.sampled_from(['md', 'ym', 'wd', 'dh', 'ymd', 'm-d', 'y-m', 'w-d']))
        a, b, c = draw(st.integers(1, 3)), draw(st.integers(1, 6)), draw(st.integers(1, 6))
        s = '-' if bs < 0 else ''
        o_s = '+' if bs < 0 else '-'
        tenor = {'md': '%s%im%s%id' % (s, a, s, b), 'ym': '%s%iy%s%im' % (s, a, s, b), 'wd': '%s%iw%s%id' % (s, a, s, b), 'dh': '%s%id%s%ih' % (s, a, s, b),
                 'ymd': '%s%iy%s%im%s%id' % (s, a, s, b, s, c), 'm-d': '%s%im%s%id' % (s, a, o_s, b), 'y-m': '%s%iy%s%im' % (s, a, o_s, b), 'w-d': '%s%iw%s%id' % (s, a + 3, o_s, b)}[form]
        if form in ('md', 'ym', 'ymd', 'm-d', 'y-m'):
            o = _month_end_ordinal(draw, o)
            sec = 0
            span = draw(st.integers(1, 1100)) * 86400
        elif form == 'dh':
            sec = draw(st.integers(0, 86399))
            span = draw(st.integers(1, 200 * 86400))
        else:
            sec = draw(st.sampled_from([0, 7200]))
            span = draw(st.integers(1, 400)) * 86400
        spec.update(t0=[o, sec], span_s=sgn * span, bump=tenor)
    return spec


def _bump_obj(b):
    if isinstance(b, list):
        return datetime.timedelta(milliseconds=b[1]) if b[0] == 'tdms' else datetime.timedelta(seconds=b[1])
    return b


def run_drange(spec):
    from pyg_base import drange, Calendar
    t0 = mkdt(*spec['t0'])
    t1 = t0 + datetime.timedelta(milliseconds=round(spec['span_s'] * 1000))
    bump = _bump_obj(spec['bump'])
    kind = spec['kind']
    # ---- expected
    if isinstance(bump, str) and bump.lower().endswith('b') and len(ref_parts(bump)) == 1:
        k = ref_parts(bump)[0][0]
        if t0 == t1:
            exp = [t0]
        elif (t1 > t0) != (k > 0):
            exp = None
        else:
            exp = ref_weekdays(t0, t1, k)
    elif isinstance(bump, str):
        parts = ref_parts(bump)
        exp = ref_iterate(t0, t1, lambda t: ref_step(t, parts))
    elif isinstance(bump, int):
        exp = ref_iterate(t0, t1, lambda t: t + bump * DAY)
    else:
        exp = ref_iterate(t0, t1, lambda t: t + bump)
    limit = 60000 + 400 * (len(exp) if exp else 0) + (3000 * int(abs(spec['span_s'])) // 86400 if kind == 'b' or isinstance(bump, int) else 0)
    what = 'drange(%s, %s, %r)' % (t0, t1, bump)
    f = drange if spec['route'] == 'drange' else Calendar('pv').drange
    if spec['route'] != 'drange':
        what = 'Calendar.' + what

    def run(b):
        try:
            with __import__('pv.core', fromlist=['fuel']).fuel(limit):
                return ('ok', f(t0, t1, b))
        except ValueError as e:
            return ('ValueError', str(e))
        except OutOfFuel:
            raise Violation('%s did not terminate within %i calls (expected %s)' % (what, limit, 'ValueError' if exp is None else '%i elements' % len(exp)))
        except Violation:
            raise
        except Exception as e:
            raise Violation('%s raised %s: %s' % (what, type(e).__name__, str(e)[:200]))
    status, res = run(bump)
    if exp is None:
        check(status == 'ValueError', '%s: the bump points away from t1 (or is zero), expected ValueError but got %s', what, res)
    else:
        check(status == 'ok', '%s raised ValueError(%s) but the reference list has %s elements starting %s', what, res, len(exp), exp[:3])
        check(isinstance(res, list), '%s returned %s', what, type(res).__name__)
        res = list(res)
        check(all(isinstance(t, datetime.datetime) for t in res), '%s returned non-datetimes: %s', what, res[:3])
        if res != exp:
            raise Violation('%s returned %i elements %s ... %s; the reference iteration gives %i elements %s ... %s'
                            % (what, len(res), short(res[:3], 120), short(res[-2:], 80), len(exp), short(exp[:3], 120), short(exp[-2:], 80)))
        # validity restated from the statement (redundant with equality, kept as a readable second oracle)
        fwd = t1 >= t0
        check(all((a < b) if fwd else (a > b) for a, b in zip(res[:-1], res[1:])), '%s is not strictly monotone', what)
        check(all(min(t0, t1) <= t <= max(t0, t1) for t in res), '%s leaves the span', what)
    # ---- int / timedelta / 'nd' agree
    if kind == 'int' and spec.get('also') and bump != 0:
        other = datetime.timedelta(bump) if spec['also'] == 'td' else '%id' % bump
        s2, r2 = run(other)
        check((s2, r2 if s2 == 'ok' else None) == (status, res if status == 'ok' else None), '%s and the same call with %r disagree: %s vs %s', what, other, short(res, 150), short(r2, 150))
    n = len(exp) if exp else 0
    if n >= 1000:
        pass
    cls = ['kind=' + kind, 'route=' + spec['route'], 'wrong_direction_or_zero' if exp is None else 'n=%s' % ('0' if n == 0 else '1-2' if n < 3 else '3+')]
    if spec['back']:
        cls.append('t1<t0')
    if kind in ('int', 'td_days', 'd', 'w') and int(abs(spec['span_s'])) % 86400:
        cls.append('endpoints_not_whole_days_apart')
        if abs(spec['span_s']) < 86400:
            cls.append('endpoints_less_than_a_day_apart')
    if kind in ('month', 'compound') and t0.day == 28 and t0.month == 2 and t0.hour == 0:
        cls.append('from_28_feb')
        if t0.year % 4:
            cls.append('from_28_feb_non_leap')
    if exp is not None and spec['back'] and n >= 3:
        cls.append('negative_direction_3+')
    nt = exp is None or (n >= 3 and (spec['back'] or kind in ('compound', 'td_intraday', 'td_subsecond', 'hns') or (isinstance(spec['bump'], int) and abs(spec['bump']) > 1) or kind in ('b', 'month')))
    return dict(nt=bool(nt), cls=cls)


SUBS = [
    Sub('drange', lambda tier: _case(), run_drange, quick=8000, thorough=40000,
        rule='t0 in 1950-2050 at second resolution, span 0..~3 years either way, bumps: ints (+-, 0), timedeltas (days / intraday, +-, 0), single period strings for every unit '
             '(d w b m q y h n s, +-, 0, both cases), compound strings; right and wrong direction; module drange and Calendar.drange. Oracle: reference iteration with '
             'datetime arithmetic (weekday walk for b), ValueError for wrong-direction/zero, int == timedelta == "nd", fuel-bounded termination. '
             'non-trivial = >= 3 elements with negative direction / stride > 1 / compound / intraday / b / month, or a wrong-direction case',
        floor=0.3, class_floors={'endpoints_not_whole_days_apart': 0.08, 'endpoints_less_than_a_day_apart': 0.004, 'from_28_feb_non_leap': 0.02, 'wrong_direction_or_zero': 0.1, 'negative_direction_3+': 0.1, 'kind=compound': 0.05, 'kind=b': 0.05}),
]
