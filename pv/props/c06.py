# -*- coding: utf-8 -*-
"""
C06 - inc and exc partition a table; both keep the columns and the row order; inc() is the identity; inc is
idempotent; find_<col> returns the unique value among the rows inc would select.

Sub-checks
    filters     keyword / dict / split filters: conjunction of 0-3 column conditions
    predicate   ONE callable over named columns (catalogue of total predicates + arbitrary truth tables)
    find        find_<col>(condition) and one_or_none(condition) against the rows the reference model selects
    session     2-5 calls (inc / exc / find_<col>) on ONE table object with the condition objects shared between the calls, the table updated in between
    small_enum  thorough only: every 1-column table of 0-4 rows over a 7-value pool x every condition of a fixed list

The oracle is a list-of-records filter written with plain python (`_sat` per cell, `selected(i)` per row); it never
calls inc / exc / _row_check / is_nan.
"""
import functools
import itertools
import json
import math
import re

import numpy as np
from hypothesis import strategies as st

from pv.core import Sub, EnumSub, Violation, call, call_or, short
from pv.codec import build, Env, token, vtoken, is_nan_spec

ASSUMPTIONS = [
    'ints beyond the range of a float (10**400, 2**1024) are cells and condition values like any other int; a case that holds one spells its numpy FLOAT scalars as python floats, because numpy itself refuses the comparison '
    '(np.float64(0.0) == 10**400 raises OverflowError), so python equality is not defined for such a pair (numpy ints compare fine and stay)',
    'cells are None, ints (also beyond 2**53), python floats incl. +-inf and -0.0 and floats that differ from one another (or from an int) by less than numpy.isclose\'s tolerance, float NaN objects (2 identities), strings (also format directives like %s), and - one number in several raw types - '
    'numpy int64 / float64 scalars of small value and numpy\'s float64 NaN, as in the quantifier (no bools, no dates)',
    'numpy int64 scalars beyond 2**53 are not used: numpy compares them with floats after rounding where python compares exactly, so "the cell equals the value" would depend on the operand order',
    'pyg_base.is_nan counts +-inf as NaN by design and the statement does not say whether an infinite cell satisfies a NaN condition: a row whose fate hangs on that '
    'is only required to be in exactly ONE of inc and exc, in order (find_ / one_or_none: either reading accepted); for every other condition inf is an ordinary float; '
    'a scalar +-inf is never used as a condition value (the library reads it as a NaN condition), only inside lists',
    'column names come from {a,ab,b,ba,c,k} (nested names on purpose): never a dictable/Dict method, a constructor parameter (data, columns) or a keyword of one_or_none (exc, find)',
    'a condition is a scalar value (int / finite float / str / numpy int64 or float64), a list of admissible non-NaN values (0-3 of them, 64+, exactly as many as the table has rows, or the list OBJECT of one of '
    'the table\'s own NaN-free columns; None allowed in the list), None, a NaN object (python float or numpy float64), or a compiled regex; "value" means python equality (cell is v or cell == v, so 1 matches 1.0 and 0 matches -0.0, 2**53 + 1 does not match float(2**53), 1.0 + 1e-9 does not match 1.0 - the statement has no tolerance)',
    'tuples / ranges / sets are not used as "lists" of admissible values: the statement names a list, and whether a tuple is one value or several is the library\'s convention, not the statement\'s',
    'lists of admissible values never contain NaN (membership of a NaN in a list is identity based in python; the statement has NaN as a condition of its own)',
    'a conjunction has at most one condition per column (a dict filter and a keyword on the same column overwrite each other rather than conjoin); the one exception is the SAME dict object passed twice '
    '(inc(k, k)): overwriting and conjoining a condition with itself are the same thing, it must select as inc(k) does',
    'callables are total, pure predicates over parameters that are columns of the table, written as plain, keyword-only or default-carrying parameters (a column\'s value beats the declared default), optionally with *rest / **kw '
    'which the predicate ignores (the statement does not say what they receive); ONE extra parameter z_ that is no column must keep its declared default (a container as long as the table, keyed like it, equal to a column, or empty); '
    'a functools.partial of such a function is a callable too: its remaining named parameters are the columns it is a predicate on, and the parameter it has bound - z_ by keyword, or the first parameter positionally, '
    'which may then be NAMED like a column of the table, since it is no longer a parameter of the callable - must keep the bound object (a partial whose KEYWORD is named like a column is not generated: python lets the call override it, '
    'the statement does not say which wins); '
    'a callable without any named parameter (f(*a, **kw)) is not a predicate on named columns and is not generated; their verdict is read by truthiness (bools, 0/1, 0/2, None/\'x\', \'\'/\'s\', []/[0], or a mix of these from row to row) as `if f(**row)` does; exactly ONE callable and no keyword filter next to it (exc(f, g) and callable+keyword mixes are outside the statement)',
    'the set of columns is compared, not their order (dictable re-orders columns alphabetically when it rebuilds a table from rows)',
    'rows are compared cell by cell with a type-strict token in which every NaN is one token (1 and 1.0 differ, NaN equals NaN)',
    'find_<col>: when two or more selected rows hold NaN in <col> and nothing else, both "returns NaN" and "raises ValueError" are accepted (whether two NaNs are one value is not decided by the statement)',
    'find_<col> values are compared by python equality (1 and 1.0 are one value; 1.0 and 1.0 + 1e-9 are two, so find_ must raise)',
    'results must be new table objects, never the operand itself, even when the selection keeps every row (inc and exc both start from self.copy(); a result that IS the table would let later edits of the result change the table); sharing of the column list objects is not checked',
    'large tables (64-200 rows, thorough up to 500) are short per-column patterns repeated, i.e. few distinct values and many duplicate rows',
    'one_or_none is checked only as an observation point of the rows inc selects, following its docstring: None for no row, the row for one, ValueError for several; '
    'its own defaults exc = None / find = None passed explicitly must mean what leaving them out means',
    'condition containers (dicts, lists) are the caller\'s: a later call that gets the same object is judged by what the caller wrote into it; that the library leaves an object alone which is never used again is not demanded',
    'session: between two calls the table is changed through table[col] = list of the table\'s length (a column replaced or added) or through ONE cell written into the column list the table hands out '
    '(table[col][i] = v, which also changes every other column that is that list object); columns are not deleted; '
    'every call is judged by the table\'s content at that moment (the statement is about one call; a table that was updated is a table)',
    'two columns of a table may be ONE list object (dictable keeps the lists it is given), and a condition may be the list object of a column of the table itself',
]

KNOWN = {}

COLS = ['a', 'ab', 'b', 'ba', 'c', 'k']                  # names that are prefixes / suffixes / substrings of one another, and equal to cell values
STR_PATTERNS = ['a', '^a', 'b$', '.', '', 'A|b']
# patterns that match str() of a NON-string cell (1, 1.0, 2.5, -1.5, 1000, None, nan): a regex condition must still reject those cells
COERCE_PATTERNS = ['1', '0', r'\.5', '-', 'N', 'on', 'nan', '^[0-9.]+$', 'inf']
PATTERNS = STR_PATTERNS + COERCE_PATTERNS
# patterns whose meaning hangs on the flags the caller compiled them with: ignore-case against the lower-case cells, multi-line / dot-all against the cell 'a\nb'
FLAG_PATTERNS = [['A', 'I'], ['^AB$', 'I'], ['B$', 'I'], ['^b', 'M'], ['a$', 'M'], ['a.b', 'S'], ['a b', 'X'], ['^B', 'IM']]
_RE_FLAGS = dict(I=re.IGNORECASE, M=re.MULTILINE, S=re.DOTALL, X=re.VERBOSE)


def _rx(payload):
    """(pattern text, flags) of a regex payload: a plain string, or [text, letters out of IMSX]"""
    if isinstance(payload, list):
        flags = 0
        for ch in payload[1]:
            flags |= _RE_FLAGS[ch]
        return payload[0], flags
    return payload, 0
LARGE_QUICK = [64, 65, 100, 128, 200]
LARGE_THOROUGH = [64, 65, 100, 128, 200, 257, 500]

# ----------------------------------------------------------------------------- messages

class _T(str):
    """text that is already formatted (tables, conditions, call descriptions): inserted into messages verbatim"""


def check(cond, msg, *fmt):
    if not cond:
        raise Violation(msg % tuple(f if isinstance(f, _T) else short(f) for f in fmt))


# ----------------------------------------------------------------------------- reference model

def _is_nan(x):
    return isinstance(x, float) and bool(x != x)           # numpy.float64 is a float; bool(): its comparisons give numpy.bool


def _is_inf(x):
    return isinstance(x, float) and x in (float('inf'), float('-inf'))


def _close(x, y):
    """two plain numbers (below 2**53) that are NOT equal although a comparison with tolerance (numpy.isclose's defaults, rtol 1e-5 / atol 1e-8) takes them for equal"""
    for v in (x, y):
        if isinstance(v, bool) or not isinstance(v, (int, float)) or v != v or abs(v) >= 2 ** 53:
            return False
    return bool(x != y and abs(x - y) <= 1e-8 + 1e-5 * min(abs(x), abs(y)))


def _asfloat(x):
    try:
        return float(x)
    except OverflowError:       # an int beyond the range of a float
        return math.inf if x > 0 else -math.inf


def _falsy(v):
    return v is None or (not _is_nan(v) and not v)


def _sat(cell, cond, env, inf_nan=None):
    """
    does `cell` satisfy the column condition `cond` = [kind, payload] (the statement's semantics)?
    The one case the statement leaves open is a NaN condition on an infinite cell (pyg_base.is_nan counts +-inf as NaN by design):
    there the answer is `inf_nan` - None = undecided, True / False = one of the two readings. Everywhere else inf is an ordinary float.
    """
    kind, payload = cond
    if kind == 'none':
        return cell is None
    if kind == 'nan':
        return inf_nan if _is_inf(cell) else _is_nan(cell)
    if kind == 'regex':
        return isinstance(cell, str) and re.search(_rx(payload)[0], cell, _rx(payload)[1]) is not None
    if kind == 'val':
        v = build(payload, env)
        return bool(cell is v or cell == v)             # bool(): a numpy scalar compares to numpy.bool
    if kind == 'list':
        for p in payload:
            v = build(p, env)
            if cell is v or cell == v:
                return True
        return False
    if kind == 'objs':            # admissible values that are already objects (the list object of one of the table's own columns)
        for v in payload:
            if cell is v or cell == v:
                return True
        return False
    raise ValueError('unknown condition %r' % (cond,))


def _fresh(v):
    """an object equal to v but (where CPython allows) not identical to the cell object it was drawn from"""
    if isinstance(v, np.generic):
        return type(v)(v)
    if isinstance(v, float) and v == v:
        return float(repr(v))
    if isinstance(v, str) and len(v) >= 2:
        return ''.join(list(v))
    if isinstance(v, int) and not isinstance(v, bool) and abs(v) > 256:
        return int(str(v))
    return v


def _cond_value(cond, env, table=None):
    """the object handed to pyg_base for a column condition"""
    kind, payload = cond
    if kind == 'col':             # the list object of the table's own column `payload` as the list of admissible values
        return dict.__getitem__(table, payload)
    if kind == 'none':
        return None
    if kind == 'nan':
        return env.nan(payload)
    if kind == 'regex':
        return re.compile(*_rx(payload))
    if kind == 'val':
        return _fresh(build(payload, env))
    if kind == 'list':
        return [_fresh(build(p, env)) for p in payload]
    raise ValueError('unknown condition %r' % (cond,))


_CATALOGUE = {
    'is_none': (1, lambda x: x is None),
    'is_nan': (1, lambda x: _is_nan(x)),
    'is_str': (1, lambda x: isinstance(x, str)),
    'num_pos': (1, lambda x: isinstance(x, (int, float)) and x > 0),
    'true': (1, lambda x: True),
    'false': (1, lambda x: False),
    'str_lt': (2, lambda x, y: str(x) < str(y)),
    'same': (2, lambda x, y: x is y or x == y),
}


def _predicate(cspec, data):
    """plain python predicate over the values of cspec['args'] (used directly by the oracle)"""
    fn = cspec['fn']
    if fn == 'table':
        args = cspec['args']
        true = set(tuple(token(data[c][i]) for c in args) for i in cspec['true_rows'])
        return lambda *vals: tuple(token(v) for v in vals) in true
    return _CATALOGUE[fn][1]


# how a predicate presents its verdict: (falsy, truthy). inc / exc judge a callable by truthiness (`if f(**row)`, `if not f(**row)`)
_RESULTS = {
    'bool': (lambda: False, lambda: True),
    'int01': (lambda: 0, lambda: 1),
    'int02': (lambda: 0, lambda: 2),
    'none_x': (lambda: None, lambda: 'x'),
    'str': (lambda: '', lambda: 's'),
    'list': (lambda: [], lambda: [0]),
}
_MIXED = ['int01', 'none_x', 'bool', 'list', 'str', 'int02']
_RET_KINDS = sorted(_RESULTS) + ['mixed']


def _encode(ret, truth, vals):
    """the object the user's predicate returns for the verdict `truth` on the argument values `vals`"""
    if ret == 'mixed':        # the kind of result depends (deterministically) on the argument values, so it differs from row to row
        ret = _MIXED[sum(map(ord, repr(vals))) % len(_MIXED)]
    return _RESULTS[ret][1 if truth else 0]()


# the shapes a user's predicate over the columns `args` may have (kwargs_support hands a function the columns it NAMES: positional-or-keyword and keyword-only
# parameters; *rest / **kw receive whatever the library likes and are ignored by the predicate; a parameter that is no column keeps its declared default)
_SHAPES = ['plain', 'kwonly', 'varkw', 'varargs', 'first_then_kwonly', 'default_extra', 'default_cols', 'partial_kw', 'partial_pos']
# partial_kw:  functools.partial(lambda a, b, z_: .., z_ = <container>)    - an object carrying options: rebuilding it from .func loses the bound keyword
# partial_pos: functools.partial(lambda <bound>, a, b: .., <container>)    - <bound> is z_ or the name of a column of the table that is NOT one of the predicate's columns


def _signature(shape, args, bound='z_'):
    a = ', '.join(args)
    if shape == 'partial_kw':
        return a + ', z_'
    if shape == 'partial_pos':
        return bound + ', ' + a
    if shape == 'plain':
        return a
    if shape == 'kwonly':
        return '*, ' + a
    if shape == 'varkw':
        return a + ', **kw'
    if shape == 'varargs':
        return a + ', *rest'
    if shape == 'first_then_kwonly':
        return ', '.join([args[0], '*rest'] + list(args[1:]) + ['**kw'])
    if shape == 'default_extra':            # z_ is never a column: it must keep its (container) default
        return a + ', z_=_d'
    if shape == 'default_cols':             # every parameter has a (container) default AND is a column: the row's value counts
        return ', '.join('%s=_d' % x for x in args)
    raise ValueError(shape)


def _bad_default(z):
    raise AssertionError('the predicate was called with z_ = %s although the table has no column z_ (the parameter must keep its declared default)' % short(z, 80))


def _bad_bound(z):
    raise AssertionError('the predicate was called with %s in the parameter that functools.partial had bound to another object' % short(z, 80))


def _code(f):
    """the code object of a predicate (of the function inside a functools.partial)"""
    return getattr(f, 'func', f).__code__


def _as_callable(pred, args, shape='plain', dflt=None, factories=None, bound='z_'):
    """
    a lambda whose parameter names are the columns, as a user would write it.
    factories: {(shape, args): factory} of a session - all its predicates of one shape over the same columns are then made by ONE factory, i.e. share one code
    object; outside sessions every predicate has a code object of its own (so that a case never depends on the cases run before it)
    """
    factories = {} if factories is None else factories
    key = (shape, tuple(args), bound)
    if key not in factories:
        body = '_p(%s)' % ', '.join(args)
        if shape == 'default_extra':
            body = '%s if z_ is _d else _bad(z_)' % body
        if shape.startswith('partial'):
            name = 'z_' if shape == 'partial_kw' else bound
            inner = 'lambda %s: (%s if %s is _d else _bad(%s))' % (_signature(shape, args, bound), body, name, name)
            factories[key] = eval('lambda _p, _d, _bad: _partial(%s, %s)' % (inner, 'z_=_d' if shape == 'partial_kw' else '_d'), {'_partial': functools.partial})
        else:
            factories[key] = eval('lambda _p, _d, _bad: (lambda %s: %s)' % (_signature(shape, args), body))
    return factories[key](pred, dflt, _bad_bound if shape.startswith('partial') else _bad_default)


_DEFAULTS = ['tuple_n', 'list_n', 'dict_cols', 'column', 'empty']


def _default_container(kind, data, cols, n):
    """the declared default of a predicate's parameter: a container as long as the table, keyed like it, equal to one of its columns, or empty"""
    if kind == 'tuple_n':
        return tuple(range(n))
    if kind == 'list_n':
        return [None] * n
    if kind == 'dict_cols':
        return {c: 0 for c in cols}
    if kind == 'column':
        return list(data[cols[0]])
    return ()


class _Rows(list):
    """list of row tokens (compared) that prints as the plain column dict it was read from"""

    def __init__(self, toks, plain):
        list.__init__(self, toks)
        self.plain = plain

    def __repr__(self):
        return repr(self.plain)


def _rows(data, cols, n):
    return [tuple(token(data[c][i]) for c in cols) for i in range(n)]


def _table_rows(what, res, cols):
    """reads a result table: columns must be exactly `cols` (as a set), all of one length; returns row tokens in order"""
    from pyg_base import dictable
    check(isinstance(res, dictable), '%s returned %s, not a dictable', what, type(res).__name__)
    keys = list(res.keys())
    check(sorted(keys) == sorted(cols), '%s has columns %s, the table has %s', what, keys, sorted(cols))
    plain = {k: dict.__getitem__(res, k) for k in keys}
    for k in keys:
        check(isinstance(plain[k], list), '%s: column %s is %s, not a list', what, k, type(plain[k]).__name__)
    lens = sorted(set(len(v) for v in plain.values()))
    check(len(lens) == 1, '%s: ragged result %s', what, plain)
    scols = sorted(cols)
    return _Rows([tuple(token(plain[c][i]) for c in scols) for i in range(lens[0])], {c: plain[c] for c in scols})


def _snapshot(d):
    return [(k, list(dict.__getitem__(d, k))) for k in d.keys()]


def _unchanged(what, d, snap):
    now = _snapshot(d)
    ok = len(now) == len(snap) and all(k1 == k0 and len(v1) == len(v0) and all(x is y for x, y in zip(v1, v0))
                                       for (k1, v1), (k0, v0) in zip(now, snap))
    check(ok, '%s modified the table it was called on (so inc and exc no longer partition the same table): %s', what, dict(now))


def _build_table(spec, env):
    from pyg_base import dictable
    cols = spec['cols']
    share = spec.get('share') or []       # [[src, dst], ..]: column dst IS the list object of column src (two columns cut from one list)
    cells = dict(spec['data'])
    for src, dst in share:
        cells[dst] = cells[src]
    data = {c: [build(v, env) for v in cells[c]] for c in cols}
    if spec.get('tile'):          # large table: every column is its (short) pattern repeated up to `tile` rows
        data = {c: [data[c][i % len(data[c])] for i in range(spec['tile'])] for c in cols}
    n = len(data[cols[0]])
    lists = {c: list(data[c]) for c in cols}
    for src, dst in share:
        data[dst] = data[src]
        lists[dst] = lists[src]
    d = dictable(lists)
    # harness sanity (not a violation): the constructor must have given us the table we describe
    if sorted(d.keys()) != sorted(cols) or len(d) != n:
        raise RuntimeError('builder: dictable(%r) has shape %s' % (data, (len(d), d.keys())))
    return d, data, n


def _vkey(c, k, p):
    return json.dumps([c, k, p], sort_keys=True)


def _condition(spec_cond, data, env, table=None, store=None):
    """
    -> (describe, caller(table, method name) -> result, selected(i) -> bool according to the reference model)
    `table` is needed for a condition that is the list object of one of the table's own columns.
    `store` (a dict living as long as a session of several calls on one table): the condition objects - values, lists, compiled patterns, condition dicts,
    callables - are then made ONCE per content and the very same objects are handed to every call of the session that uses them.
    """
    if spec_cond['kind'] == 'filters':
        raw = spec_cond['conds']        # [[col, kind, payload], ...]  at most one per column
        form = spec_cond['form']

        def resolved(c, k, p):
            if store is not None and ('cond', _vkey(c, k, p)) in store:
                return store[('cond', _vkey(c, k, p))]
            # the table's own column as the list of admissible values: judged by the content of that list object
            r = ([c, 'objs', data[p]] if k == 'col' else [c, k, p]), _cond_value([k, p], env, table)
            if store is not None:
                store[('cond', _vkey(c, k, p))] = r
            return r
        both = [resolved(c, k, p) for c, k, p in raw]
        conds = [r for r, v in both]
        values = [(r[0], v) for r, v in both]
        keys = [_vkey(c, k, p) for c, k, p in raw]
        # positional condition dicts as lists of indices into conds, keyword conditions likewise
        if not conds:
            pos_idx, kw_idx = ([[]] if form in ('dict', 'dict_twice') else []), []       # inc() and inc({}): no condition
        elif form == 'kw':
            pos_idx, kw_idx = [], list(range(len(conds)))
        elif form in ('dict', 'dict_twice'):
            pos_idx, kw_idx = [list(range(len(conds)))], []
        elif form == 'split':
            pos_idx, kw_idx = [[0]], list(range(1, len(conds)))
        elif form == 'dicts':
            pos_idx, kw_idx = [[i] for i in range(len(conds))], []
        else:
            raise ValueError(form)
        pos = [dict(values[i] for i in idx) for idx in pos_idx]
        kw = dict(values[i] for i in kw_idx)
        twice = form == 'dict_twice'
        desc = _T('(%s)' % ', '.join([short(p, 120) for p in pos] + (['<the same dict object again>'] if twice else []) + ['%s = %s' % (c, short(v, 80)) for c, v in kw.items()]))

        def containers():
            """the positional condition dicts of one call: fresh ones - or, in a session, the session's own dict objects (one per content)"""
            if store is None:
                ds = [dict(p) for p in pos]
            else:
                ds = []
                for idx, p in zip(pos_idx, pos):
                    key = ('dict',) + tuple(keys[i] for i in idx)
                    if key not in store:
                        store[key] = dict(p)
                    store['_uses'][key] = store['_uses'].get(key, 0) + 1
                    ds.append(store[key])
            return ds + ds[:1] if twice else ds

        def caller(table, method, extra=None):
            # fresh containers on every call (outside sessions): the code under test may not rely on (or spoil) ours
            k = dict(kw)
            if extra:
                k.update(extra)
            return getattr(table, method)(*containers(), **k)

        def selected(i, inf_nan=None):
            """True / False, or None when the row's fate hangs on an infinite cell under a NaN condition"""
            verdicts = [_sat(data[c][i], [k, p], env, inf_nan) for c, k, p in conds]
            return False if any(v is False for v in verdicts) else None if any(v is None for v in verdicts) else True
        caller.values = values
        caller.conds = conds
        caller.keys = keys
        # the caller's own condition dict(s), used for several calls in a row: first the whole call (for dict + keywords: with the keyword conditions),
        # then ONE of the dicts on its own - the same object - which must then mean what the caller wrote into it
        reuse_on = spec_cond.get('reuse', form == 'split') and store is None
        if reuse_on and conds and pos and (len(conds) >= 2 or form in ('dict', 'dict_twice')):
            j = spec_cond.get('reuse_idx', 0) % len(pos)

            def reuse(table, method):
                shared = containers()
                first = getattr(table, method)(*shared, **dict(kw))
                return first, getattr(table, method)(shared[j]), shared

            def selected_dict_only(i, inf_nan=None):
                verdicts = [_sat(data[conds[m][0]][i], conds[m][1:], env, inf_nan) for m in pos_idx[j]]
                return False if any(v is False for v in verdicts) else None if any(v is None for v in verdicts) else True
            caller.reuse = reuse
            caller.selected_dict_only = selected_dict_only
            caller.dict_desc = _T('(%s)' % short(pos[j], 120))
            names = ['key%i' % m for m in range(len(pos))] if len(pos) > 1 else ['key']
            caller.reuse_call = _T(', '.join(names + (names[:1] if twice else []) + ['%s = ..' % c for c in kw]))
            caller.reuse_name = names[j]
        return desc, caller, selected
    else:
        args = spec_cond['args']
        shape = spec_cond.get('shape', 'plain')
        skey = ('fn', json.dumps(spec_cond, sort_keys=True))
        if store is not None and skey in store:
            f, pred = store[skey]
        else:
            pred = _predicate(spec_cond, data)
            ret = spec_cond.get('ret', 'bool')
            cols = list(data.keys())
            dflt = _default_container(spec_cond.get('dflt', 'empty'), data, cols, len(data[cols[0]])) if shape.startswith(('default', 'partial')) else None
            f = _as_callable(pred if ret == 'bool' else (lambda *vals: _encode(ret, bool(pred(*vals)), vals)), args, shape, dflt,
                             None if store is None else store.setdefault('_factories', {}), spec_cond.get('bound', 'z_'))
            if store is not None:
                store[skey] = f, pred
        if store is not None:
            store['_uses'][skey] = store['_uses'].get(skey, 0) + 1
        ret = spec_cond.get('ret', 'bool')
        sig = _signature(shape, args, spec_cond.get('bound', 'z_')).replace('_d', '<%s>' % spec_cond.get('dflt', 'empty'))
        if shape.startswith('partial'):
            head, tail = '(functools.partial(lambda %s' % sig, ', %s<%s>))' % ('z_ = ' if shape == 'partial_kw' else '', spec_cond.get('dflt', 'empty'))
        else:
            head, tail = '(lambda %s' % sig, ')'
        desc = _T('%s: %s%s%s' % (head,
                                        spec_cond['fn'] if spec_cond['fn'] != 'table' else 'true exactly on the values of rows %s' % spec_cond['true_rows'],
                                        '' if ret == 'bool' else ', verdict returned as %s' % (
                                            'a result kind that varies by row among %s' % _MIXED if ret == 'mixed' else '%r / %r' % (_RESULTS[ret][0](), _RESULTS[ret][1]())), tail))

        def caller(table, method, extra=None):
            return getattr(table, method)(f, **(extra or {}))

        def selected(i, inf_nan=None):
            return bool(pred(*[data[c][i] for c in args]))
        caller.function = f
        return desc, caller, selected


def _check_weak_partition(tdesc, desc, all_rows, status, got_inc, got_exc):
    """
    rows with status True must be in inc, rows with status False in exc, rows with status None (infinite cell under a NaN condition)
    in exactly one of the two - and both results keep the table's relative order. Decided by walking the table once while tracking
    every possible number of rows already consumed from inc (the rest came from exc).
    """
    inc, exc = list(got_inc), list(got_exc)
    states = {0}
    for i, row in enumerate(all_rows):
        new = set()
        for p in states:
            q = i - p
            if status[i] is not False and p < len(inc) and inc[p] == row:
                new.add(p + 1)
            if status[i] is not True and q < len(exc) and exc[q] == row:
                new.add(p)
        check(new, 'dictable(%s): inc%s = %s and exc%s = %s do not partition the table in order: row %s is in neither result at its place '
                   '(rows satisfying the condition must be in inc, rows failing it in exc, rows whose infinite cell meets a NaN condition in exactly one of them)',
              tdesc, desc, got_inc, desc, got_exc, i)
        states = new
    check(len(inc) in states and len(inc) + len(exc) == len(all_rows),
          'dictable(%s): inc%s = %s and exc%s = %s together hold %s rows of a table of %s', tdesc, desc, got_inc, desc, got_exc, len(inc) + len(exc), len(all_rows))


def _shape_classes(spec, cols, n):
    cls = []
    if spec.get('tile'):
        cls += ['large', 'large_n=%i' % n]
    if any(a != b and a in b for a in cols for b in cols):
        cls.append('nested_column_names')
    return cls


# ----------------------------------------------------------------------------- oracle: partition

def run_partition(spec):
    env = Env()
    d, data, n = _build_table(spec, env)
    cols = spec['cols']
    scols = sorted(cols)
    snap = _snapshot(d)
    desc, caller, selected = _condition(spec['cond'], data, env, table=d)
    tdesc = _T(short({c: data[c] for c in cols}, 200))
    all_rows = _rows(data, scols, n)
    status = [selected(i) for i in range(n)]
    undecided = [i for i in range(n) if status[i] is None]        # infinite cell under a NaN condition: either part, but exactly one
    sel = [i for i in range(n) if status[i]]
    selset = set(sel)
    unsel = [i for i in range(n) if status[i] is False]
    exp_inc = [all_rows[i] for i in sel]
    exp_exc = [all_rows[i] for i in unsel]
    no_cond = spec['cond']['kind'] == 'filters' and not spec['cond']['conds']

    inc = call('dictable(%s).inc%s' % (tdesc, desc), caller, d, 'inc')
    got_inc = _table_rows(_T('dictable(%s).inc%s' % (tdesc, desc)), inc, cols)
    _unchanged(_T('inc%s' % desc), d, snap)
    if no_cond:
        check(list(got_inc) == all_rows, 'inc() with no condition is not the identity on dictable(%s): it returned %s', tdesc, got_inc)
    if not undecided:
        check(list(got_inc) == exp_inc, 'dictable(%s).inc%s returned %s; the rows satisfying the condition are rows %s of the table, in that order',
              tdesc, desc, got_inc, sel)

    if not no_cond:
        exc = call('dictable(%s).exc%s' % (tdesc, desc), caller, d, 'exc')
        got_exc = _table_rows(_T('dictable(%s).exc%s' % (tdesc, desc)), exc, cols)
        _unchanged(_T('exc%s' % desc), d, snap)
        if not undecided:
            check(list(got_exc) == exp_exc, 'dictable(%s).exc%s returned %s; the rows NOT satisfying the condition are rows %s of the table, in that order',
                  tdesc, desc, got_exc, unsel)
        else:
            _check_weak_partition(tdesc, desc, all_rows, status, got_inc, got_exc)
        check(len(got_inc) + len(got_exc) == n, 'inc%s and exc%s hold %s + %s rows of a table of %s', desc, desc, len(got_inc), len(got_exc), n)

    # the caller's condition dict is the caller's: used again on its own after a call that also had keyword conditions, it means what it says
    reused = getattr(caller, 'reuse', None)
    if reused is not None and not undecided:
        st2 = [caller.selected_dict_only(i) for i in range(n)]
        if not any(v is None for v in st2):
            for method, keep in (('inc', True), ('exc', False)):
                w = '%s = %s; dictable(%s).%s(%s)' % (caller.reuse_name, caller.dict_desc, tdesc, method, caller.reuse_call)
                first, second, shared = call(w, reused, d, method)
                exp1 = exp_inc if keep else exp_exc
                check(list(_table_rows(_T(w), first, cols)) == exp1, '%s returned %s, expected rows %s', _T(w), first, sel if keep else unsel)
                w2 = _T(w + '; then %s(%s)' % (method, caller.reuse_name))
                exp2 = [all_rows[i] for i in range(n) if bool(st2[i]) == keep]
                got2 = _table_rows(w2, second, cols)
                check(list(got2) == exp2, '%s returned %s; the rows %s the condition %s alone are rows %s (the condition dict is now %s)', w2, got2,
                      _T('satisfying' if keep else 'NOT satisfying'), caller.dict_desc, [i for i in range(n) if bool(st2[i]) == keep], short(shared, 120))

    # idempotent: the same condition applied to the result selects all of it
    again = call('dictable(%s).inc%s.inc%s' % (tdesc, desc, desc), caller, inc, 'inc')
    got_again = _table_rows(_T('inc%s applied twice to %s' % (desc, tdesc)), again, cols)
    check(list(got_again) == list(got_inc), 'inc%s is not idempotent on dictable(%s): once %s, twice %s', desc, tdesc, got_inc, got_again)

    # a selection that keeps everything must still be a new table, not the operand itself (both methods start from self.copy())
    check(inc is not d, 'dictable(%s).inc%s returned the table object itself, so changing the result changes the table', tdesc, desc)
    check(again is not inc, 'inc%s applied to its own result returned that very object', desc)
    if not no_cond:
        check(exc is not d, 'dictable(%s).exc%s returned the table object itself, so changing the result changes the table', tdesc, desc)

    # ---- classes
    cls = ['n=%s' % ('0' if n == 0 else '1' if n == 1 else '2+'), 'ncols=%i' % len(cols)] + _shape_classes(spec, cols, n)
    special = False
    if spec['cond']['kind'] == 'filters':
        conds = caller.conds              # resolved: the table's own column as a condition reads ['objs', its cells]
        form = spec['cond']['form']
        cls.append('form=%s' % (form if conds else 'emptydict' if form in ('dict', 'dict_twice') else 'none'))
        cls.append('nconds=%i' % len(conds))
        for (c, k, p), (_, v) in zip(conds, caller.values):
            cls.append('cond=' + ('list' if k == 'objs' else k))
            if k in ('none', 'nan', 'regex'):
                special = True
            if k == 'objs':
                cls.append('cond_is_a_column_list_of_the_table')        # object identity among the inputs: an operand that is also (part of) the condition
                if v is dict.__getitem__(d, c):
                    cls.append('cond_is_the_conditioned_column_itself')
            if k in ('list', 'objs'):
                cls.append('list_len=%s' % (len(p) if len(p) < 4 else '4-63' if len(p) < 64 else '64+'))
                if any(x is y or x == y for i, x in enumerate(v[:200]) for y in v[:i]):
                    cls.append('dup_in_list')
                if n >= 2 and len(v) == n:
                    cls.append('list_as_long_as_the_table')              # a sequence of exactly the table's length is still a list of admissible values, not a row-aligned vector
                    if [bool(data[c][i] is v[i] or data[c][i] == v[i]) for i in range(n)] != [bool(_sat(data[c][i], [k, p], env)) for i in range(n)]:
                        cls.append('list_as_long_as_the_table:row_aligned_reading_differs')
            if k == 'nan' and any(_is_nan(x) for x in data[c]):
                cls.append('nan_cond_on_nan_column')
            if k == 'nan' and isinstance(v, np.generic):
                cls.append('numpy_scalar')
            if k == 'regex' and any(not isinstance(x, str) and re.search(_rx(p)[0], str(x), _rx(p)[1]) is not None for x in data[c]):
                cls.append('regex_matches_str_of_nonstr_cell')       # where a str()-coercing implementation would differ
            if k == 'regex' and _rx(p)[1]:
                cls.append('regex_compiled_with_flags')
                if any(isinstance(x, str) and (re.search(_rx(p)[0], x, _rx(p)[1]) is None) != (re.search(_rx(p)[0], x, _rx(p)[1] & re.VERBOSE) is None) for x in data[c]):
                    cls.append('regex_flags_decide_a_row')
            if k in ('val', 'list', 'objs'):
                vs = [v] if k == 'val' else v
                if any(x == y and x is not y for x in data[c][:200] for y in vs[:200]):
                    cls.append('equal_not_identical')
                if any(y is None or (not y and not _is_nan(y)) for y in vs) or (k != 'val' and not vs):
                    cls.append('falsy_condition_value')
                # values that differ by less than a tolerance: a cell python equality rejects, an np.isclose / rounding comparison would admit
                if any(any(_close(x, y) for y in vs[:200]) and not any(x is y or x == y for y in vs) for x in data[c][:200]):
                    cls.append('near_miss_within_tolerance')
                # one number in several raw types (python int / float, numpy int64 / float64) among the matching cells and the admissible values
                hit = [y for y in vs[:200] if y is not None and any(x is y or x == y for x in data[c][:200])]
                hit += [x for x in data[c][:200] if any(x is y or x == y for y in hit)]
                if len(set(type(x) for x in hit)) >= 2:
                    cls.append('one_value_in_several_raw_types')
                if any(isinstance(x, np.generic) for x in list(vs[:200]) + data[c][:200]):
                    cls.append('numpy_scalar')
                nums = [x for x in data[c] if x is not None]
                if n >= 2 and len(nums) == n and all(isinstance(x, (int, float)) for x in nums):
                    cls.append('numbers_only_column')
                    if any(isinstance(x, int) and abs(x) > 2 ** 53 for x in nums) and any(isinstance(x, float) and abs(x) >= 2 ** 53 for x in list(nums) + list(vs)):
                        cls.append('int_beyond_2**53_next_to_float')
                    big = [y for y in vs if type(y) in (int, float) and y == y and abs(y) >= 2 ** 53]
                    if any(type(x) in (int, float) and x == x and x != y and _asfloat(x) == _asfloat(y) for x in nums for y in big):
                        cls.append('int_beyond_2**53:unequal_but_equal_as_floats')        # where a lookup through float64 (numpy) would match a cell that python equality rejects
                    if any(isinstance(x, float) and x == 0 and math.copysign(1, x) < 0 for x in list(nums) + [y for y in vs if y is not None]):
                        cls.append('negative_zero')
                if any(type(x) is int and abs(x) >= 2 ** 1024 for x in data[c][:200]) and any(type(y) in (int, float) for y in vs[:200]):
                    cls.append('int_beyond_float_range')        # class 38: math.isnan / float() / numpy conversion overflow there; python compares such an int with a float exactly
        if reused is not None and not undecided:
            keywords_mattered = [i for i in range(n) if caller.selected_dict_only(i)] != sel
            if form == 'split':
                cls.append('condition_dict_reused_across_calls')
                if keywords_mattered:
                    cls.append('condition_dict_reused:keywords_mattered')
            else:
                cls.append('condition_dict_reused:form=' + form)
                if keywords_mattered:
                    cls.append('condition_dict_reused:other_dicts_mattered')
        if len(conds) >= 2:
            sat = [[_sat(data[c][i], [k, p], env) for i in range(n)] for c, k, p in conds]
            per_row = [sum(1 for col in sat if col[i]) for i in range(n)]
            if any(0 < m < len(conds) for m in per_row):
                cls.append('row_satisfies_some_not_all')
                if form in ('split', 'dicts'):
                    cls.append('row_satisfies_some_not_all_across_containers')
            if [c for c, k, p in conds] != [c for c in cols if c in [x[0] for x in conds]]:
                cls.append('conds_not_in_column_order')
            # order of steps: one condition drops a row that is not the last, another reads the rows that are left (its verdict is not the same on all rows)
            if any(any(v is False for v in sat[x][:-1]) and any(len(set(map(bool, sat[y]))) == 2 for y in range(len(conds)) if y != x) for x in range(len(conds))):
                cls.append('condition_evaluated_after_rows_were_dropped')
            shared = spec.get('share') or []
            if any(dict.__getitem__(d, a) is dict.__getitem__(d, b) and a in [x[0] for x in conds] and b in [x[0] for x in conds] for a, b in shared):
                cls.append('two_conditioned_columns_are_one_list')
    else:
        shape = spec['cond'].get('shape', 'plain')
        cls.append('fn=' + spec['cond']['fn'])
        cls.append('nargs=%i' % len(spec['cond']['args']))
        cls.append('ret=' + spec['cond'].get('ret', 'bool'))
        cls.append('shape=' + shape)
        if shape != 'plain':
            cls.append('function_shape_not_plain')
        if shape.startswith('default'):
            cls.append('default=' + spec['cond'].get('dflt', 'empty'))
        if shape.startswith('partial'):
            cls.append('predicate_is_a_functools_partial')          # an object carrying options (appendix 24)
            if shape == 'partial_pos' and spec['cond'].get('bound', 'z_') in cols:
                cls.append('partial_bound_parameter_is_named_like_a_column')
        if spec['cond'].get('ret', 'bool') != 'bool':
            cls.append('nonbool_result')
    if any(dict.__getitem__(d, a) is dict.__getitem__(d, b) for a, b in spec.get('share') or []):
        cls.append('columns_share_one_list')
    if undecided:
        cls.append('inf_cell_under_nan_condition')
        sel = sel + undecided[:len(got_inc) - len(sel)]         # for the shape classes only: as many rows as inc really returned
        sel.sort()
    if any(_is_inf(x) for c in cols for x in data[c]):
        cls.append('inf_cell')
    if n:
        if sel and len(sel) < n:
            cls.append('both_nonempty')
            if sel != list(range(len(sel))) and sel != list(range(n - len(sel), n)):
                cls.append('interleaved')
        elif len(sel) == n:
            cls.append('all')
        else:
            cls.append('nothing')
        if len(sel) == 1 or len(sel) == n - 1:
            cls.append('single_row_part')
        if n >= 2 and sel == [0]:
            cls.append('only_first_row')
        if n >= 2 and sel == [n - 1]:
            cls.append('only_last_row')
        if len(sel) in (0, n):
            cls.append('noop_selection')      # one of the two results is the whole table: must be a copy, not the operand
    if len(set(all_rows)) < n:
        cls.append('duplicate_rows')
    if cols != scols:
        cls.append('columns_not_alphabetical')
    both = bool(sel) and len(sel) < n
    nt = n >= 1 and (both or special or len(sel) in (0, n)) and not no_cond
    return dict(nt=nt, cls=cls)


# ----------------------------------------------------------------------------- oracle: find_<col>, one_or_none

def _judge_find(what, ok, res, sel, vals):
    """find_<col> against the selection `sel` holding `vals`; returns the class label"""
    toks = set(vtoken(v) for v in vals)
    if len(sel) == 0:
        check(not ok, '%s returned %s although no row satisfies the condition (must raise ValueError)', what, res)
        return 'none_selected'
    if len(sel) == 1:
        check(ok, '%s raised %s although exactly one row (%s) satisfies the condition', what, res, sel[0])
        check(token(res) == token(vals[0]), '%s returned %s, the selected row %s holds %s', what, res, sel[0], vals[0])
        return 'single_row'
    if len(toks) >= 2:
        check(not ok, '%s returned %s although the selected rows %s hold the different values %s (must raise ValueError)', what, res, sel, vals)
        return 'multiple_values'
    if toks == {('nan',)}:
        check(not ok or _is_nan(res), '%s returned %s, the selected rows hold only NaN', what, res)
        return 'several_nan'            # accepted either way, see ASSUMPTIONS
    check(ok, '%s raised %s although all selected rows %s hold the one value %s', what, res, sel, vals[0])
    check(vtoken(res) in toks, '%s returned %s, the selected rows %s all hold %s', what, res, sel, vals[0])
    return 'unique_from_many'


def _judge_one(w1, ok1, res1, sel1, find, data, scols):
    """one_or_none against the selection `sel1`"""
    if len(sel1) == 0:
        check(ok1 and res1 is None, '%s gave %s although no row is selected (must return None)', w1, res1)
    elif len(sel1) >= 2:
        check(not ok1, '%s returned %s although rows %s are selected (must raise ValueError)', w1, res1, sel1)
    else:
        i = sel1[0]
        check(ok1, '%s raised %s although exactly row %s is selected', w1, res1, i)
        if find is None:
            check(isinstance(res1, dict) and sorted(res1.keys()) == scols, '%s returned %s, not the row with columns %s', w1, res1, scols)
            check([token(res1[c]) for c in scols] == [token(data[c][i]) for c in scols], '%s returned %s, row %s is %s', w1, res1, i, {c: data[c][i] for c in scols})
        else:
            check(token(res1) == token(data[find][i]), '%s returned %s, row %s holds %s', w1, res1, i, data[find][i])


def run_find(spec):
    env = Env()
    d, data, n = _build_table(spec, env)
    cols = spec['cols']
    scols = sorted(cols)
    snap = _snapshot(d)
    col = spec['col']
    desc, caller, selected = _condition(spec['cond'], data, env, table=d)
    tdesc = _T(short({c: data[c] for c in cols}, 200))
    cls = ['ncols=%i' % len(cols), 'cond=' + (spec['cond']['kind'])] + _shape_classes(spec, cols, n)
    if spec['cond']['kind'] == 'callable' and spec['cond'].get('ret', 'bool') != 'bool':
        cls += ['nonbool_result', 'ret=' + spec['cond']['ret']]
    if spec['cond']['kind'] == 'callable' and spec['cond'].get('shape', 'plain') != 'plain':
        cls += ['function_shape_not_plain', 'shape=' + spec['cond']['shape']]
    if spec['cond']['kind'] == 'filters':
        cls.append('form=' + spec['cond']['form'])
        if any(k == 'objs' for c, k, p in caller.conds):
            cls.append('cond_is_a_column_list_of_the_table')
    if any(isinstance(x, str) and '%' in x for x in data[col]):
        cls.append('percent_sign_in_found_column')          # the messages of find_ are built with % formatting
    if any(isinstance(x, np.generic) for x in data[col]):
        cls.append('numpy_scalar_in_found_column')
    exc_cond = spec.get('exc')          # [col, kind, payload] or None
    extra = {}
    edesc = ''
    if exc_cond is not None:
        ec, ek, ep = exc_cond
        extra['exc'] = {ec: _cond_value([ek, ep], env)}
        edesc = ' with exc = %s' % short(extra['exc'], 80)
        cls.append('one_or_none_exc')

    # ---- the calls
    what = _T('dictable(%s).find_%s%s' % (tdesc, col, desc))
    ok, res = call_or(what, (ValueError,), caller, d, 'find_' + col)
    _unchanged(_T('find_%s%s' % (col, desc)), d, snap)
    ones = []
    for find in ([None, col] if spec.get('one_find', True) else [None]):
        kw = dict(extra)
        if find is not None:
            kw['find'] = find
        if spec.get('explicit_defaults'):        # the parameters' own defaults, written out by the caller
            kw.setdefault('exc', None)
            kw.setdefault('find', None)
            edesc_ = edesc + ' ' + ', '.join('%s = None' % k for k in ('exc', 'find') if kw[k] is None)
        else:
            edesc_ = edesc
        w1 = _T('dictable(%s).one_or_none%s%s%s' % (tdesc, desc, edesc_, '' if find is None else ' find = %s' % find))
        ok1, res1 = call_or(w1, (ValueError,), caller, d, 'one_or_none', kw)
        _unchanged(_T('one_or_none%s' % desc), d, snap)
        ones.append((w1, ok1, res1, find))

    # ---- the readings: an infinite cell under a NaN condition may count as NaN or not (each of inc and exc may decide, see _sat)
    undecided = any(selected(i) is None for i in range(n)) or \
        (exc_cond is not None and any(_sat(data[exc_cond[0]][i], exc_cond[1:], env) is None for i in range(n)))
    readings = [(True, True), (False, False), (True, False), (False, True)] if undecided else [(None, None)]
    first = None
    for inc_reading, exc_reading in readings:
        try:
            sel = [i for i in range(n) if selected(i, inc_reading)]
            label = _judge_find(what, ok, res, sel, [data[col][i] for i in sel])
            sel1 = sel if exc_cond is None else [i for i in sel if not _sat(data[exc_cond[0]][i], exc_cond[1:], env, exc_reading)]
            for w1, ok1, res1, find in ones:
                _judge_one(w1, ok1, res1, sel1, find, data, scols)
            break
        except Violation as v:
            first = first or v
    else:
        raise first
    cls.append(label)
    if label == 'multiple_values' and any(isinstance(data[col][i], str) and '%' in data[col][i] for i in sel):
        cls.append('percent_sign_in_multiple_values')
    found = [data[col][i] for i in sel]
    if label == 'multiple_values' and all(x is y or x == y or _close(x, y) for x in found[:200] for y in found[:200]):
        cls.append('found_values_differ_only_within_tolerance')       # two values all the same: a de-duplication through rounding / isclose would return one of them
    if label in ('single_row', 'unique_from_many') and _falsy(found[0]):
        cls.append('found_value_is_falsy')                          # 0 / 0.0 / '' / None is the value found, not "nothing found"
    if len(sel1) == 1 and _falsy(data[col][sel1[0]]):
        cls.append('one_or_none_found_value_is_falsy')
    if spec.get('explicit_defaults'):
        cls.append('one_or_none_defaults_passed_explicitly')
    if undecided:
        cls.append('inf_cell_under_nan_condition')
    cls.append('one_or_none=%s' % ('none' if not sel1 else 'row' if len(sel1) == 1 else 'several'))
    nt = len(sel) != 1
    return dict(nt=nt, cls=cls)


# ----------------------------------------------------------------------------- oracle: a session of calls on ONE table object

def _check_one_side(what, all_rows, status, got, keep):
    """
    `got` must hold, in the table's order, every row whose status is `keep`, no row whose status is `not keep`, and any of the rows whose
    status is None (infinite cell under a NaN condition). Decided by one walk over the table tracking every possible number of rows of `got` consumed.
    """
    got = list(got)
    states = {0}
    for i, row in enumerate(all_rows):
        new = set()
        for p in states:
            hit = p < len(got) and got[p] == row
            if status[i] is None:
                new.add(p)
                if hit:
                    new.add(p + 1)
            elif status[i] == keep:
                if hit:
                    new.add(p + 1)
            else:
                new.add(p)
        check(new, '%s: row %s of the table is missing (or out of order) in the result', what, i)
        states = new
    check(len(got) in states, '%s: the result holds rows it must not hold', what)


def run_session(spec):
    """
    several calls (inc / exc / find_<col>) on ONE table object, the condition objects (values, lists, patterns, dicts, callables) made once and
    handed to every call that uses them; between two calls the table may be updated through table[col] = values. Every call is judged on its
    own by the single-call reference model applied to the table's content at that moment.
    """
    env = Env()
    d, data, n = _build_table(spec, env)
    cols = list(spec['cols'])
    store = {'_uses': {}}
    history = []
    seen = []          # (step number, op, frozenset of condition keys, tuple of condition keys, expected rows, number of updates so far)
    updates = 0
    labels = set()
    for s, step in enumerate(spec['steps']):
        op = step['op']
        tdesc = short({c: data[c] for c in cols}, 200)
        if op == 'set':
            c = step['col']
            new = [build(v, env) for v in step['cells']]
            new = [new[i % len(new)] for i in range(n)] if n else []
            if step.get('cell') is not None and c in cols and n:
                # a single cell written into the table's own column list (dictable hands out its lists): later queries must see it
                i = step['cell'] % n
                new = list(data[c][:i]) + [new[i]] + list(data[c][i + 1:])
                target = dict.__getitem__(d, c)
                for c2 in cols:                   # columns that ARE this list object (a table built on one list twice) change with it
                    if c2 != c and dict.__getitem__(d, c2) is target:
                        data[c2] = list(data[c2][:i]) + [new[i]] + list(data[c2][i + 1:])
                call('table[%r][%i] = %s' % (c, i, short(new[i], 60)), lambda: target.__setitem__(i, new[i]))
                labels.add('one_cell_edited_in_place_between_calls')
            else:
                call('table[%r] = %s' % (c, short(new, 120)), d.__setitem__, c, list(new))
            data[c] = new
            if c not in cols:
                cols.append(c)
            if sorted(d.keys()) != sorted(cols) or len(d) != n:
                raise RuntimeError('builder: after table[%r] = ... the table has shape %s' % (c, (len(d), d.keys())))
            history.append(('table[%r][%i] = %s' % (c, step['cell'] % n, short(new[step['cell'] % n], 60))) if step.get('cell') is not None and n else 'table[%r] = %s' % (c, short(new, 60)))
            updates += 1
            continue
        scols = sorted(cols)
        snap = _snapshot(d)
        desc, caller, selected = _condition(step['cond'], data, env, table=d, store=store)
        all_rows = _rows(data, scols, n)
        status = [selected(i) for i in range(n)]
        undecided = any(v is None for v in status)
        before = _T(('after %s; ' % '; '.join(history)) if history else '')
        if op in ('inc', 'exc'):
            keep = op == 'inc'
            what = _T('table = dictable(%s); %stable.%s%s' % (tdesc, before, op, desc))
            res = call(what, caller, d, op)
            got = _table_rows(what, res, cols)
            _unchanged(_T('%s%s' % (op, desc)), d, snap)
            exp_idx = [i for i in range(n) if status[i] == keep]
            if not undecided:
                check(list(got) == [all_rows[i] for i in exp_idx], '%s returned %s; the rows %s the condition are rows %s of the table, in that order',
                      what, got, _T('satisfying' if keep else 'NOT satisfying'), exp_idx)
            else:
                _check_one_side(what, all_rows, status, got, keep)
                labels.add('inf_cell_under_nan_condition')
            check(res is not d, '%s returned the table object itself, so changing the result changes the table', what)
            expected = (op, tuple(exp_idx))
        else:
            col = step['col']
            what = _T('table = dictable(%s); %stable.find_%s%s' % (tdesc, before, col, desc))
            ok, res = call_or(what, (ValueError,), caller, d, 'find_' + col)
            _unchanged(_T('find_%s%s' % (col, desc)), d, snap)
            first = None
            for reading in ([True, False] if undecided else [None]):
                try:
                    sel = [i for i in range(n) if selected(i, reading)]
                    labels.add('find:' + _judge_find(what, ok, res, sel, [data[col][i] for i in sel]))
                    break
                except Violation as v:
                    first = first or v
            else:
                raise first
            expected = ('find_' + col, tuple(sel))
        if step['cond']['kind'] == 'filters':
            keys = tuple(caller.keys)
            labels.add('form=' + step['cond']['form'])
        else:
            keys = (json.dumps(step['cond'], sort_keys=True),)
            labels.add('callable_step')
        seen.append((s, op, frozenset(keys), keys, expected, updates, step['cond']['kind'], getattr(caller, 'function', None)))
        history.append('%s%s' % (op if op != 'find' else 'find_' + step['col'], desc))

    # ---- classes: how the calls of the session relate to one another
    queries = len(seen)
    cls = ['steps=%i' % len(spec['steps']), 'queries=%i' % queries, 'n=%s' % ('0' if n == 0 else '1' if n == 1 else '2+')] + _shape_classes(spec, spec['cols'], n)
    for x in range(len(seen)):
        for y in range(x + 1, len(seen)):
            sx, opx, setx, keysx, expx, upx, kindx, fx = seen[x]
            sy, opy, sety, keysy, expy, upy, kindy, fy = seen[y]
            if upx != upy:
                labels.add('table_updated_between_calls')
                if keysx == keysy and opx == opy and expx != expy:
                    labels.add('same_call_after_update_gives_other_rows')
            if kindx != kindy:
                labels.add('filters_and_callable_in_one_session')
                continue
            if kindx == 'callable':
                if fx is fy:
                    labels.add('callable_object_used_in_several_calls')
                elif _code(fx) is _code(fy):
                    labels.add('callables_made_by_one_factory')
                    if opx == opy and expx != expy:
                        labels.add('callables_made_by_one_factory:select_different_rows')
                continue
            colsx, colsy = [json.loads(k)[0] for k in keysx], [json.loads(k)[0] for k in keysy]
            if keysx == keysy:
                labels.add('same_condition_in_several_calls')
            elif setx == sety:
                labels.add('same_conditions_in_another_order')
            elif sorted(colsx) == sorted(colsy):
                labels.add('same_columns_other_values')
                if opx == opy and expx != expy and upx == upy:
                    labels.add('same_columns_other_values:other_rows')
            elif setx < sety or sety < setx:
                labels.add('conditions_extended_or_cut_back')
            elif set(colsx) < set(colsy) or set(colsy) < set(colsx):
                labels.add('columns_extended_or_cut_back')
    if any(v >= 2 for k, v in store['_uses'].items() if k[0] == 'dict'):
        labels.add('dict_object_passed_to_several_calls')
    cls += sorted(labels)
    nt = n >= 1 and queries >= 2 and len(set(e for _, _, _, _, e, _, _, _ in seen)) >= 2
    return dict(nt=nt, cls=cls)


# ----------------------------------------------------------------------------- generators (plain data only)

_INTS = st.integers(-3, 6)
_FLOATS = st.sampled_from([-1.5, 0.0, 1.0, 2.0, 2.5])
_STRS = st.sampled_from(['', 'a', 'ab', 'b', 'A'])
_NAN = st.integers(0, 1).map(lambda k: ['nan', k])
_CELL = st.one_of(st.integers(0, 3), _STRS, st.none(), _FLOATS, _NAN, _INTS)
_VALUE = st.one_of(_INTS, _FLOATS, _STRS, st.sampled_from([1000, 'aba']))            # a scalar condition value (None / NaN are conditions of their own)

_NEAR_PAIRS = [[1.0, 1.0 + 1e-9], [1, 1.000001], [0.0, 1e-9], [2.5, 2.5 + 1e-7], [1000, 1000.001], [0, -1e-9], [0.1 + 0.2, 0.3]]

# column flavours: small pools make equal cells, full matches and empty matches frequent
_FLAVOURS = {
    'mixed': _CELL,
    'ints': st.integers(0, 2),
    'strs': st.sampled_from(['a', 'ab', 'b', 'a', 'ab', 'b', 'a\nb']),
    'ints_nan': st.one_of(st.integers(0, 1), _NAN),
    'ints_none': st.one_of(st.integers(0, 1), st.none()),
    'one_onefloat': st.one_of(st.sampled_from([1, 1.0, 2]), _NAN, st.none()),
    'strs_none_ints': st.one_of(_STRS, st.none(), st.integers(0, 1)),
    'none_nan': st.one_of(st.none(), _NAN),
    'inf_nan': st.one_of(st.sampled_from([['inf', 1], ['inf', -1]]), _NAN, st.integers(0, 1)),       # +-inf next to NaN: is_nan counts both
    'inf_floats': st.one_of(st.just(['inf', 1]), _FLOATS, st.none(), st.just(['inf', -1])),
    'big': st.sampled_from([1000, 1000.0, 'ab', 'aba', 2.5, 10]),        # objects CPython does not share: equal is not identical
    # numbers only (what a vectorised lookup would take): ints beyond 2**53 next to the float they round to, -0.0 next to 0, NaN
    'bignum': st.one_of(st.sampled_from([2 ** 53, 2 ** 53 + 1, float(2 ** 53)]), st.sampled_from([2 ** 53, 2 ** 53 + 1, float(2 ** 53), -0.0, 0, 0.0, 2 ** 53 + 2, -2 ** 53 - 1]), _NAN),
    # one number in several raw types: python int / float, numpy int64 / float64 (a float subclass), numpy NaN
    'numpy': st.sampled_from([1, 1.0, ['np', 'float64', 1.0], ['np', 'int64', 1], 2.5, ['np', 'float64', 2.5], ['np', 'int64', 2], 2, ['nan', -1], ['nan', 0], None]),
    'pct': st.sampled_from(['%s', '%d', '100%', 'a', '%(a)s', '%']),
    # ints beyond the range of a float next to floats, infinities and NaN (class 38); numpy floats of such a case are spelt as python floats, see _plain_floats_next_to_huge
    'huge': st.one_of(st.sampled_from([10 ** 400, 10 ** 400 + 1, -(10 ** 400), 2 ** 1024]), st.sampled_from([['inf', 1], 1.5, 0, 1e308, ['inf', -1]]), _NAN),
    # values that differ by less than a tolerance (rtol 1e-5 / atol 1e-8): equal for np.isclose or after rounding, different for python
    'near': st.sampled_from([x for pair in _NEAR_PAIRS for x in pair]),         # strings that are format directives (find_ builds its messages with %)
}
_FLAVOUR = st.sampled_from(['mixed', 'mixed', 'const', 'bignum', 'near'] + sorted(_FLAVOURS))


@st.composite
def _table(draw, max_rows, max_cols, large):
    ncols = draw(st.integers(1, max_cols))
    cols = list(draw(st.permutations(COLS))[:ncols])
    if draw(st.sampled_from([False, False, False, True, False, False, False, False, False, False, False, False])):
        # a LARGE table with few distinct values: short column patterns repeated (size thresholds / vectorised paths)
        data = {}
        for c in cols:
            fl = draw(_FLAVOUR)
            data[c] = [draw(_CELL)] if fl == 'const' else draw(st.lists(_FLAVOURS[fl], min_size=1, max_size=5))
        return _share(draw, dict(cols=cols, data=data, tile=large[draw(st.integers(0, 9999)) % len(large)]))
    n = draw(st.one_of(st.integers(0, max_rows), st.integers(2, max_rows)))
    data = {}
    for c in cols:
        fl = draw(_FLAVOUR)
        if fl == 'const':
            data[c] = [draw(_CELL)] * n
        else:
            data[c] = draw(st.lists(_FLAVOURS[fl], min_size=n, max_size=n))
    return _share(draw, dict(cols=cols, data=data))


def _share(draw, t):
    """in about 1 table in 8 with two or more columns, two columns are ONE list object (as when both are cut from the same list)"""
    cols = t['cols']
    if len(cols) >= 2 and draw(st.integers(0, 7)) == 0:
        src, dst = list(draw(st.permutations(cols)))[:2]
        t['data'][dst] = list(t['data'][src])
        t['share'] = [[src, dst]]
    return t


def _nrows(t):
    return t.get('tile') or len(t['data'][t['cols'][0]])


def _is_inf_spec(v):
    return isinstance(v, (list, tuple)) and len(v) == 2 and v[0] == 'inf'


def _plain_values(cells):
    """distinct non-NaN, non-None cell specs of a column"""
    out = []
    for v in cells:
        if v is None or is_nan_spec(v):
            continue
        if not any(type(v) is type(o) and v == o for o in out):
            out.append(v)
    return out


def _np_twin(draw, v):
    """about one numeric condition value in 8 is handed over as the numpy scalar of the same value (int64 / float64) - small values only, where numpy and python equality agree"""
    if isinstance(v, bool) or not isinstance(v, (int, float)) or abs(v) >= 2 ** 31 or draw(st.integers(0, 7)):
        return v
    if isinstance(v, int) and draw(st.booleans()):
        return ['np', 'int64', v]
    return ['np', 'float64', float(v)]


@st.composite
def _column_cond(draw, cells, n=None, others=None):
    """
    [kind, payload] for one column, biased towards the column's own content.
    n: the number of rows of the table (for lists of admissible values of exactly that length);
    others: names of columns of the table without NaN whose list OBJECT may serve as the list of admissible values
    """
    present = _plain_values(cells)
    has_inf = any(_is_inf_spec(v) for v in cells)
    has_none = any(v is None for v in cells)
    has_nan = any(is_nan_spec(v) for v in cells) or has_inf      # a NaN condition on a column holding +-inf is the open case of the statement
    has_str = any(isinstance(v, str) for v in cells)
    if has_inf and draw(st.integers(0, 9999)) % 2 == 0:
        return ['nan', [0, 1, 7][draw(st.integers(0, 9999)) % 3]]
    if any(type(v) is int and abs(v) > 2 ** 53 for v in cells) and draw(st.integers(0, 9999)) % 2 == 0:
        # a column with ints beyond 2**53: the neighbours that are different ints but the same float64
        big = draw(st.lists(st.sampled_from([2 ** 53, 2 ** 53 + 1, float(2 ** 53), 2 ** 53 + 2, -2 ** 53 - 1, -float(2 ** 53)]), min_size=1, max_size=2, unique=True))
        return ['val', big[0]] if len(big) == 1 and draw(st.booleans()) else ['list', big]
    near = [v for v in present if any(_close(v, o) for o in present)]
    if near and draw(st.integers(0, 9999)) % 2 == 0:
        # a column holding two numbers that differ by less than a tolerance: one of the pair (sometimes both) as the value / in the list of admissible values
        vs = draw(st.lists(st.sampled_from(near), min_size=1, max_size=2, unique_by=repr))
        return ['val', vs[0]] if len(vs) == 1 and draw(st.booleans()) else ['list', vs]
    kinds = ['val', 'val', 'list', 'list'] if present else []
    if has_none:
        kinds += ['none', 'none']
    if has_nan:
        kinds += ['nan', 'nan']
    has_nonstr = any(not isinstance(v, str) for v in cells)
    if has_str:
        kinds += ['regex', 'regex']
    if has_nonstr and draw(st.integers(0, 2)) == 0:
        kinds += ['regex']               # a regex condition on non-string cells must reject them, whatever their str() looks like
    if draw(st.integers(0, 4)) == 0 or not kinds:
        kinds = ['val', 'list', 'none', 'nan', 'regex']      # whether or not the column holds such cells
    kind = draw(st.sampled_from(kinds))
    if kind == 'none':
        return ['none', None]
    if kind == 'nan':
        return ['nan', draw(st.sampled_from([0, 1, 7, 0, 1, 7, -1]))]       # a NaN object of the table, or a fresh one (7), or numpy's float64 NaN (-1)
    if kind == 'regex':
        if has_str and has_nonstr:
            pats = STR_PATTERNS + COERCE_PATTERNS
        elif has_str:
            pats = STR_PATTERNS * 3 + COERCE_PATTERNS
        else:
            pats = COERCE_PATTERNS * 2 + STR_PATTERNS
        if has_str and draw(st.integers(0, 2)) == 0:
            return ['regex', FLAG_PATTERNS[draw(st.integers(0, 9999)) % len(FLAG_PATTERNS)]]
        return ['regex', pats[draw(st.integers(0, 9999)) % len(pats)]]
    pool = st.sampled_from(present) if present else _VALUE
    if kind == 'val':
        # never a scalar +-inf: the library reads it as a NaN condition (is_nan(value)), a value only inside a list
        finite = [v for v in present if not _is_inf_spec(v)]
        vpool = st.sampled_from(finite) if finite else _VALUE
        return ['val', _np_twin(draw, draw(st.one_of(vpool, vpool, vpool, _VALUE)))]
    # list of admissible values
    modes = ['some', 'some', 'dup', 'some', 'all', 'long', 'some', 'all', 'empty', 'foreign', 'some', 'all']
    if n is not None and n >= 2:
        modes = modes + ['len_n', 'len_n']
    if others:
        modes = modes + ['column', 'column']
    mode = modes[draw(st.integers(0, 9999)) % len(modes)]
    if mode == 'empty':
        return ['list', []]
    if mode == 'column':       # the list object of one of the table's own columns (e.g. t.inc(a = t.b), or t.inc(a = t.a)) - as long as the table, naturally
        return ['col', others[draw(st.integers(0, 9999)) % len(others)]]
    if mode == 'len_n':        # exactly as many admissible values as the table has rows: still a list of admissible values, not one value per row
        elem_n = st.one_of(pool, pool, st.sampled_from([9, 'zz', 7.5]), _VALUE, st.none())
        if n <= 12:
            return ['list', draw(st.lists(elem_n, min_size=n, max_size=n))]
        pat = draw(st.lists(elem_n, min_size=1, max_size=7))          # a large table: a short pattern repeated
        return ['list', [pat[i % len(pat)] for i in range(n)]]
    if mode == 'long':         # 64+ admissible values (a set / vectorised lookup must keep python-equality semantics), some of them in the column
        keep = draw(st.lists(pool, max_size=3)) if present else []
        keep = [float(v) if isinstance(v, int) and i % 2 == 0 and abs(v) < 2 ** 63 else v for i, v in enumerate(keep)]      # an int cell listed as its float twin
        return ['list', list(range(100, 130)) + keep + [100.0 + i for i in range(30, 70)] + ([None] if draw(st.booleans()) else [])]
    if mode == 'dup':          # the same admissible value listed twice (also as 1 and 1.0)
        vs = draw(st.lists(st.one_of(pool, pool, _VALUE, st.none()), min_size=1, max_size=2))
        return ['list', draw(st.permutations(vs + vs[:1]))]
    if mode == 'all':
        vs = list(present) + ([None] if has_none else [])
        return ['list', draw(st.permutations(vs)) if vs else []]
    if mode == 'foreign':
        return ['list', draw(st.lists(st.sampled_from([9, 'zz', 7.5]), min_size=1, max_size=3, unique=True))]
    elem = st.one_of(pool, pool, pool, _VALUE, st.none())
    return ['list', [_np_twin(draw, v) for v in draw(st.lists(elem, min_size=1, max_size=3))]]


@st.composite
def _filters_cond(draw, table, allow_none_form=True, own_columns=True):
    cols = table['cols']
    k = draw(st.sampled_from([1, 1, 2, 1, 0, 1, 2, 3, 1, 2, 2, 1] if allow_none_form else [1, 1, 2, 1, 3, 2, 1]))
    k = min(k, len(cols))
    order = list(draw(st.permutations(cols)))
    with_inf = [c for c in order if any(_is_inf_spec(v) for v in table['data'][c])]
    if with_inf and draw(st.integers(0, 9999)) % 3 != 0:          # columns holding +-inf are conditioned more often
        order = with_inf + [c for c in order if c not in with_inf]
    shared = [c for pair in table.get('share') or [] for c in pair]
    if shared and draw(st.integers(0, 9999)) % 3 != 0:            # two columns that are one list object are conditioned together more often
        order = shared + [c for c in order if c not in shared]
    chosen = order[:k]
    conds = []
    n = _nrows(table)
    others = [c for c in cols if not any(is_nan_spec(v) for v in table['data'][c])] if own_columns else None
    for c in chosen:
        kind, payload = draw(_column_cond(table['data'][c], n, others))
        conds.append([c, kind, payload])
    if len(conds) >= 2:      # conjunctions spread over several containers: dict + keywords, several dicts, the same dict twice
        form = draw(st.sampled_from(['split', 'kw', 'dicts', 'dict', 'split', 'dicts', 'dict_twice']))
    else:
        form = draw(st.sampled_from(['kw', 'dict', 'kw', 'kw', 'dict', 'dict_twice']))
    # the caller's own dict object(s) used for two calls in a row: always for dict + keywords and several dicts, in half of the other cases that have a dict
    reuse = form in ('split', 'dicts') or draw(st.booleans())
    return dict(kind='filters', form=form, conds=conds, reuse=reuse, reuse_idx=draw(st.integers(0, 2)))


@st.composite
def _callable_cond(draw, table):
    cols = table['cols']
    n = min(table.get('tile') or len(table['data'][cols[0]]), 12)      # rows whose values may be declared true (a large table repeats them)
    fn = draw(st.sampled_from(['table', 'table', 'table'] + sorted(_CATALOGUE)))
    # about 40% of the callables return their verdict as a truthy / falsy non-bool
    ret = 'bool'
    if draw(st.sampled_from([True, False, False, True, False])):
        ret = draw(st.sampled_from(['mixed', 'int02', 'int01', 'none_x', 'str', 'list']))
    if fn == 'table':
        nargs = draw(st.integers(1, min(3, len(cols))))
        args = list(draw(st.permutations(cols))[:nargs])
        true_rows = [i for i, b in enumerate(draw(st.lists(st.sampled_from([True, False]), min_size=n, max_size=n))) if b]
        return _fn_shape(draw, dict(kind='callable', fn='table', args=args, true_rows=sorted(true_rows), ret=ret), cols)
    nargs = _CATALOGUE[fn][0]
    if nargs > len(cols):
        fn = draw(st.sampled_from(['is_none', 'is_nan', 'is_str', 'num_pos']))
        nargs = 1
    args = list(draw(st.permutations(cols))[:nargs])
    return _fn_shape(draw, dict(kind='callable', fn=fn, args=args, ret=ret), cols)


def _fn_shape(draw, cond, cols=()):
    """about half of the predicates are not plain `lambda a, b:` functions: keyword-only parameters, *rest, **kw, container defaults, functools.partial objects"""
    shape = draw(st.sampled_from(['plain'] * 7 + _SHAPES[1:]))
    cond['shape'] = shape
    if shape.startswith(('default', 'partial')):
        cond['dflt'] = draw(st.sampled_from(_DEFAULTS))
    if shape == 'partial_pos':
        # the positionally bound first parameter is, where the table has one, named like a column the predicate is NOT about (2 cases in 3)
        free = [c for c in cols if c not in cond['args']]
        cond['bound'] = free[draw(st.integers(0, 9999)) % len(free)] if free and draw(st.integers(0, 2)) else 'z_'
    return cond


def _sizes(tier):
    return (8, 3, LARGE_QUICK) if tier == 'quick' else (12, 4, LARGE_THOROUGH)


@st.composite
def _filters_case(draw, tier):
    t = draw(_table(*_sizes(tier)))
    t['cond'] = draw(_filters_cond(t))
    return t


@st.composite
def _predicate_case(draw, tier):
    t = draw(_table(*_sizes(tier)))
    t['cond'] = draw(_callable_cond(t))
    return t


@st.composite
def _find_case(draw, tier):
    t = draw(_table(*_sizes(tier)))
    t['col'] = draw(st.sampled_from(t['cols']))
    if draw(st.sampled_from([True] + [False] * 8)):
        # the column searched holds two numbers that differ by less than a tolerance, and nothing else: selected together they are "more than one" value
        pair = _NEAR_PAIRS[draw(st.integers(0, 9999)) % len(_NEAR_PAIRS)]
        m = len(t['data'][t['col']])
        cells = [pair[b] for b in draw(st.lists(st.integers(0, 1), min_size=m, max_size=m))]
        for c in [t['col']] + [x for pr in t.get('share') or [] if t['col'] in pr for x in pr]:
            t['data'][c] = list(cells)
    t['cond'] = draw(st.one_of(_filters_cond(t, allow_none_form=False), _filters_cond(t, allow_none_form=False), _callable_cond(t)))
    if draw(st.integers(0, 3)) == 0:
        ec = draw(st.sampled_from(t['cols']))
        kind, payload = draw(_column_cond(t['data'][ec], _nrows(t)))
        # `if exc:` in one_or_none - an exc dict is never empty here
        t['exc'] = [ec, kind, payload]
    else:
        t['exc'] = None
    t['one_find'] = True
    t['explicit_defaults'] = draw(st.sampled_from([False] * 7 + [True]))
    return t


_SESSION_FORMS = ['kw', 'dict', 'split', 'dicts', 'dict_twice']


@st.composite
def _session_case(draw, tier):
    """
    one table, 2-5 steps. Up to 3 columns get TWO alternative conditions each; a step conditions a prefix of those columns (sometimes reversed), each
    with its first alternative in 3 cases out of 4 - so the steps' conditions are prefixes / extensions / permutations of one another or differ only
    in a value - mostly in one form; or uses one of up to 2 callables (two of them of one shape over the same columns, i.e. made by one factory);
    or, between two queries, replaces / adds a column.
    """
    t = draw(_table(*_sizes(tier)))
    cols = t['cols']
    n = _nrows(t)
    base = list(draw(st.permutations(cols)))[:3]
    variants = {c: [draw(_column_cond(t['data'][c], n)), draw(_column_cond(t['data'][c], n))] for c in base}
    fns = []
    if draw(st.integers(0, 2)) == 0:
        f = draw(_callable_cond(t))
        fns.append(f)
        g = dict(f)                  # a second predicate of the same shape over the same columns: made by the same factory
        if f['fn'] == 'table':
            m = min(n, 12)
            g['true_rows'] = [i for i, b in enumerate(draw(st.lists(st.booleans(), min_size=m, max_size=m))) if b]
        else:
            same = [k for k in sorted(_CATALOGUE) if _CATALOGUE[k][0] == len(f['args'])]
            g['fn'] = draw(st.sampled_from(same))
        fns.append(g)
    form0 = draw(st.sampled_from(_SESSION_FORMS))
    nsteps = draw(st.sampled_from([2, 3, 3, 4, 4, 5, 3]))
    steps = []
    last, repeat = None, False
    for s in range(nsteps):
        if repeat:                  # the query made before the update, once more after it
            steps.append(dict(last))
            repeat = False
            continue
        kind = draw(st.sampled_from(['f'] * 4 + ['c'] * 6 + ['set'] * 2 if fns else ['f'] * 10 + ['set'] * 2))
        if kind == 'set' and s in (0, nsteps - 1):
            kind = 'f'              # an update only matters between two queries
        if kind == 'c' and fns:
            last = dict(op=draw(st.sampled_from(['inc', 'exc', 'inc', 'exc', 'find'])), cond=fns[draw(st.integers(0, len(fns) - 1))], col=draw(st.sampled_from(cols)))
            steps.append(last)
            continue
        if kind == 'set':
            # mostly a column the previous query looked at, sometimes any column or a new one
            looked = (last['cond']['args'] if last['cond']['kind'] == 'callable' else [c for c, k, p in last['cond']['conds']]) + ([last['col']] if last['op'] == 'find' else [])
            c = draw(st.sampled_from(looked * 3 + cols + [x for x in COLS if x not in cols][:1]))
            repeat = draw(st.booleans())
            fl = draw(_FLAVOUR)
            m = n if not t.get('tile') else draw(st.integers(1, 5))
            cells = [draw(_CELL)] * max(m, 1) if fl == 'const' else draw(st.lists(_FLAVOURS[fl], min_size=max(m, 1), max_size=max(m, 1)))
            step = dict(op='set', col=c, cells=cells)
            if c in cols and n and draw(st.booleans()):
                step['cell'] = draw(st.integers(0, n - 1))       # ONE cell is edited in the column's own list, table[col][i] = v: the only way to change a single cell
                repeat = True                                      # and the query made before it is made again
                if last['cond']['kind'] == 'filters':
                    # half of these edits write a value the previous query's condition on that column admits (the row may join the selection), the others one it does not
                    adm = [p if k == 'val' else (p[0] if p else None) for cc, k, p in last['cond']['conds'] if cc == c and k in ('val', 'list')]
                    if adm and draw(st.booleans()):
                        step['cells'] = [adm[0]]
                    elif adm:
                        step['cells'] = ['zz']
            steps.append(step)
            continue
        k = draw(st.integers(1, len(base)))
        chosen = base[:k]
        if draw(st.integers(0, 3)) == 0:
            chosen = chosen[::-1]
        conds = [[c] + variants[c][0 if draw(st.integers(0, 3)) else 1] for c in chosen]
        form = form0 if draw(st.integers(0, 4)) else draw(st.sampled_from(_SESSION_FORMS))
        if len(conds) < 2 and form in ('split', 'dicts'):
            form = 'dict'
        last = dict(op=draw(st.sampled_from(['inc', 'exc', 'inc', 'exc', 'find'])), cond=dict(kind='filters', form=form, conds=conds, reuse=False),
                    col=draw(st.sampled_from(cols)))
        steps.append(last)
    t['steps'] = steps
    return t


# ----------------------------------------------------------------------------- exhaustive small domain

ENUM_POOL = [None, 1, 1.0, 2, ['nan', 0], 'a', 'ab', ['inf', 1]]
ENUM_CONDS = [
    ['val', 1], ['val', 1.0], ['val', 2], ['val', 'a'], ['val', 'b'], ['val', 5],
    ['list', []], ['list', [1, 'a']], ['list', [None, 2]], ['list', [1.0, 2, 'ab']], ['list', ['zz']],
    ['none', None], ['nan', 0], ['nan', 7],
    ['regex', 'a'], ['regex', '^a$'], ['regex', 'b$'], ['regex', ''], ['regex', '1'], ['regex', 'on'], ['regex', 'nan'],
]
ENUM_MAX_ROWS = 4


def _enum_tables():
    for n in range(ENUM_MAX_ROWS + 1):
        for cells in itertools.product(range(len(ENUM_POOL)), repeat=n):
            yield [ENUM_POOL[i] for i in cells]


def enum_small(tier):
    total = sum(len(ENUM_POOL) ** n for n in range(ENUM_MAX_ROWS + 1)) * len(ENUM_CONDS) * 2

    def chunker(i, nchunks):
        for j, cells in enumerate(_enum_tables()):
            if j % nchunks != i:
                continue
            for kind, payload in ENUM_CONDS:
                for form in ('kw', 'dict'):
                    yield dict(cols=['a'], data={'a': cells}, cond=dict(kind='filters', form=form, conds=[['a', kind, payload]]))
    return total, chunker


# ----------------------------------------------------------------------------- registration

def _plain_floats_next_to_huge(spec):
    """numpy itself refuses to compare a float scalar with an int beyond the range of a float (np.float64(0.0) == 10 ** 400 raises OverflowError), so "python equality" of such a pair
    is not defined: a case that holds such an int spells its numpy floats as python floats (numpy ints compare fine)"""
    found = []

    def scan(v):
        if isinstance(v, int) and not isinstance(v, bool) and abs(v) >= 2 ** 1024:
            found.append(v)
        elif isinstance(v, list):
            for x in v:
                scan(x)
        elif isinstance(v, dict):
            for x in v.values():
                scan(x)
    scan(spec)
    if not found:
        return spec

    def fix(v):
        if isinstance(v, list):
            if len(v) == 3 and v[0] == 'np' and isinstance(v[1], str) and v[1].startswith('float'):
                return fix(v[2])
            return [fix(x) for x in v]
        if isinstance(v, dict):
            return {k: fix(x) for k, x in v.items()}
        return v
    return fix(spec)


def _huge_safe(casefn):
    return lambda tier: casefn(tier).map(_plain_floats_next_to_huge)


SUBS = [
    Sub('filters', _huge_safe(_filters_case), run_partition, quick=3000, thorough=30000,
        rule='tables of 0-8 rows x 1-3 columns (thorough 0-12 x 1-4) of None/ints/floats/NaN objects/strings, about 8% of them LARGE (64/65/100/128/200 rows, thorough also 257/500: '
             'short column patterns repeated), column names nested in one another, +-inf cells in about 17% of the tables (a row whose infinite cell meets a NaN condition must only be in exactly one of inc / exc); a conjunction of 0-3 column conditions '
             '(value, list of admissible values, None, NaN, compiled regex) passed as keywords, one dict, dict + keywords, several dicts, or the same dict object twice. '
             'Round-5/6 classes: compiled patterns carrying flags; columns of numbers that differ by less than numpy.isclose\'s tolerance (1.0 / 1.0 + 1e-9, 1000 / 1000.001, 0.0 / 1e-9), one of such a pair as the value or in the list: the other must be rejected. '
             'Round-4 classes: numbers-only columns with ints beyond 2**53 next to the float they round to, -0.0 and NaN; one number as python int / float and numpy int64 / float64 (cells and condition values, numpy NaN conditions); '
             'two columns that are ONE list object (about 1 table in 8); lists of admissible values of exactly the table\'s length, and the list object of one of the table\'s own columns as the condition; '
             'oracle: plain list-of-records filter; inc = satisfying rows in order, exc = the others in order, both with all columns, lengths add up, '
             'inc() = identity, inc twice = once, table untouched; for dict + keywords and several dicts (and half of the one-dict / same-dict-twice cases) the caller\'s dict objects are used for a second call, ONE of them on its own, which must select by what the caller wrote into it. non-trivial = at least one row and (both parts non-empty, or a None/NaN/regex condition, '
             'or the condition matches all / no rows); distinct = distinct spec',
        floor=0.5,
        class_floors={'regex_compiled_with_flags': 0.01, 'regex_flags_decide_a_row': 0.005, 'both_nonempty': 0.15, 'all': 0.03, 'nothing': 0.08, 'cond=nan': 0.05, 'cond=none': 0.05, 'cond=regex': 0.05, 'cond=list': 0.1,
                      'cond=val': 0.1, 'nconds=2': 0.1, 'form=none': 0.02, 'form=emptydict': 0.01, 'interleaved': 0.05, 'n=0': 0.01,
                      'nan_cond_on_nan_column': 0.02, 'condition_dict_reused_across_calls': 0.05, 'condition_dict_reused:keywords_mattered': 0.02,
                      # the bug classes of the brief's appendix
                      'large': 0.04, 'duplicate_rows': 0.25, 'dup_in_list': 0.015, 'list_len=64+': 0.008, 'equal_not_identical': 0.03,
                      'columns_not_alphabetical': 0.2, 'conds_not_in_column_order': 0.03, 'noop_selection': 0.3, 'falsy_condition_value': 0.08,
                      'nested_column_names': 0.15, 'only_first_row': 0.005, 'only_last_row': 0.005,
                      'row_satisfies_some_not_all_across_containers': 0.03, 'regex_matches_str_of_nonstr_cell': 0.015,
                      'inf_cell': 0.08, 'inf_cell_under_nan_condition': 0.03,
                      # round-4 classes (appendix 11-20)
                      'cond_is_a_column_list_of_the_table': 0.006, 'cond_is_the_conditioned_column_itself': 0.003, 'list_as_long_as_the_table': 0.015, 'list_as_long_as_the_table:row_aligned_reading_differs': 0.006, 'numpy_scalar': 0.04, 'one_value_in_several_raw_types': 0.025, 'numbers_only_column': 0.08, 'int_beyond_2**53_next_to_float': 0.01, 'int_beyond_float_range': 0.008, 'int_beyond_2**53:unequal_but_equal_as_floats': 0.007, 'negative_zero': 0.003, 'condition_dict_reused:form=dict': 0.02, 'condition_dict_reused:form=dicts': 0.015, 'condition_dict_reused:form=dict_twice': 0.01, 'condition_dict_reused:other_dicts_mattered': 0.007, 'condition_evaluated_after_rows_were_dropped': 0.035, 'two_conditioned_columns_are_one_list': 0.009, 'columns_share_one_list': 0.04, 'form=dict_twice': 0.035,
                      # round-5/6 classes (appendix 21-29)
                      'near_miss_within_tolerance': 0.008}),
    Sub('predicate', _huge_safe(_predicate_case), run_partition, quick=2000, thorough=15000,
        rule='same tables; ONE callable over 1-3 named columns: a catalogue of total predicates (is None, is NaN, is str, > 0, str(a) < str(b), a == b, '
             'constant True / False) or an arbitrary truth table on the rows, written in about 45% of the cases not as `lambda a, b:` but with keyword-only parameters, *rest, **kw, a container default on every (column) parameter, '
             'or an extra non-column parameter whose container default must stay, or as a functools.partial that has bound a container to z_ by keyword or to its first parameter positionally (that parameter then often named like a column the predicate is not about); in about 40% of the cases the verdict is returned as a truthy / falsy non-bool (0/1, 0/2, None/x, empty/non-empty str or list, or a kind that varies from row to row). oracle: the truth value of the same python predicate applied to the plain records. '
             'non-trivial = at least one row and (both parts non-empty or all / nothing selected)',
        floor=0.5, class_floors={'both_nonempty': 0.15, 'all': 0.03, 'nothing': 0.05, 'fn=table': 0.2, 'nargs=2': 0.1, 'nonbool_result': 0.25,
                                 'large': 0.025, 'nested_column_names': 0.15, 'noop_selection': 0.3, 'duplicate_rows': 0.25, 'inf_cell': 0.08,
                                 'ret=int01': 0.02, 'ret=int02': 0.02, 'ret=none_x': 0.02, 'ret=str': 0.02, 'ret=list': 0.02, 'ret=mixed': 0.02,
                                 # round-4 classes (appendix 14, 16)
                                 'function_shape_not_plain': 0.08, 'shape=kwonly': 0.011, 'shape=varkw': 0.011, 'shape=varargs': 0.011, 'shape=first_then_kwonly': 0.011, 'shape=default_extra': 0.011, 'shape=default_cols': 0.011, 'default=tuple_n': 0.004, 'default=list_n': 0.004, 'default=dict_cols': 0.004, 'default=column': 0.004, 'default=empty': 0.004, 'columns_share_one_list': 0.04,
                                 # round-5/6 classes (appendix 24)
                                 'predicate_is_a_functools_partial': 0.025, 'shape=partial_kw': 0.011, 'shape=partial_pos': 0.011, 'partial_bound_parameter_is_named_like_a_column': 0.004}),
    Sub('find', _huge_safe(_find_case), run_find, quick=2500, thorough=15000,
        rule='same tables and conditions (filters or one callable, whose verdict is a non-bool truthy / falsy value in about 40% of the callable cases) plus a column: find_<col>(condition) must return the one value held by the selected rows and '
             'raise ValueError when no row or two different values are selected; one_or_none(condition[, exc=][, find=]) must give None / the row / ValueError '
             'for 0 / 1 / several selected rows; in about 1 case in 9 the column searched holds just two numbers that differ by less than a tolerance (two values: find_ must raise when both are selected), in about 1 in 8 one_or_none gets its own defaults exc = None, find = None explicitly; '
             'the value found may be 0 / 0.0 / \'\' / None. non-trivial = the selection is not a single row',
        floor=0.3, class_floors={'none_selected': 0.1, 'multiple_values': 0.1, 'unique_from_many': 0.05, 'single_row': 0.05, 'one_or_none_exc': 0.1,
                                 'nonbool_result': 0.05, 'large': 0.03, 'nested_column_names': 0.15, 'inf_cell_under_nan_condition': 0.03,
                                 # round-4 classes (appendix 13, 14, 16, 17)
                                 'function_shape_not_plain': 0.03, 'percent_sign_in_found_column': 0.015, 'percent_sign_in_multiple_values': 0.004, 'numpy_scalar_in_found_column': 0.013, 'cond_is_a_column_list_of_the_table': 0.0045, 'form=dict_twice': 0.03,
                                 # round-5/6 classes (appendix 24, 26, 27, 29)
                                 'shape=partial_kw': 0.003, 'shape=partial_pos': 0.003, 'one_or_none_defaults_passed_explicitly': 0.03, 'found_values_differ_only_within_tolerance': 0.007,
                                 'found_value_is_falsy': 0.027, 'one_or_none_found_value_is_falsy': 0.011}),
    Sub('session', _huge_safe(_session_case), run_session, quick=1200, thorough=8000,
        rule='same tables; 2-5 steps on ONE table object: inc / exc / find_<col> with a condition, or (between two queries) table[col] = new column, after which the query made before is often made again. '
             'Up to 3 columns have two alternative conditions each and a step conditions a prefix of them (sometimes reversed), so the steps\' conditions are prefixes / extensions / permutations of one another '
             'or differ in one value only, mostly in one form; a third of the sessions also use two callables of one shape over the same columns, made by ONE factory (one code object). The condition objects - values, lists, '
             'patterns, dicts (one per content), callables - are made once and the same objects go into every call that uses them. oracle: every call judged on its own by the single-call reference model on the '
             'table\'s content at that moment (original content of the containers), table untouched by queries, results never the table itself. non-trivial = at least one row, two or more queries, not all with the same expected result',
        floor=0.3, class_floors={'one_cell_edited_in_place_between_calls': 0.01, 'queries=2': 0.1, 'queries=3': 0.14, 'queries=4': 0.06, 'table_updated_between_calls': 0.05, 'same_call_after_update_gives_other_rows': 0.009, 'filters_and_callable_in_one_session': 0.07, 'callable_object_used_in_several_calls': 0.03, 'callables_made_by_one_factory': 0.02, 'callables_made_by_one_factory:select_different_rows': 0.009, 'same_condition_in_several_calls': 0.18, 'same_conditions_in_another_order': 0.008, 'same_columns_other_values': 0.1, 'same_columns_other_values:other_rows': 0.027, 'conditions_extended_or_cut_back': 0.09, 'columns_extended_or_cut_back': 0.065, 'dict_object_passed_to_several_calls': 0.12, 'inf_cell_under_nan_condition': 0.02, 'callable_step': 0.08, 'large': 0.025, 'form=split': 0.03, 'form=dicts': 0.03, 'form=dict_twice': 0.06, 'find:multiple_values': 0.012, 'find:single_row': 0.018, 'find:none_selected': 0.07, 'find:unique_from_many': 0.013}),
    EnumSub('small_enum', enum_small, run_partition, thorough_only=True, chunks=64,
            rule='every 1-column table of 0-%i rows over the pool %s x %i single-column conditions x {keyword, dict}; same oracle as filters'
                 % (ENUM_MAX_ROWS, ENUM_POOL, len(ENUM_CONDS))),
]
