# -*- coding: utf-8 -*-
"""
C06 - inc and exc partition a table; both keep the columns and the row order; inc() is the identity; inc is
idempotent; find_<col> returns the unique value among the rows inc would select.

Sub-checks
    filters     keyword / dict / split filters: conjunction of 0-3 column conditions
    predicate   ONE callable over named columns (catalogue of total predicates + arbitrary truth tables)
    find        find_<col>(condition) and one_or_none(condition) against the rows the reference model selects
    small_enum  thorough only: every 1-column table of 0-4 rows over a 7-value pool x every condition of a fixed list

The oracle is a list-of-records filter written with plain python (`_sat` per cell, `selected(i)` per row); it never
calls inc / exc / _row_check / is_nan.
"""
import itertools
import re

from hypothesis import strategies as st

from pv.core import Sub, EnumSub, Violation, call, call_or, short
from pv.codec import build, Env, token, vtoken, is_nan_spec

ASSUMPTIONS = [
    'cells are None, ints, python floats incl. +-inf, float NaN objects (2 identities) and strings, as in the quantifier (no bools, no dates)',
    'pyg_base.is_nan counts +-inf as NaN by design and the statement does not say whether an infinite cell satisfies a NaN condition: a row whose fate hangs on that '
    'is only required to be in exactly ONE of inc and exc, in order (find_ / one_or_none: either reading accepted); for every other condition inf is an ordinary float; '
    'a scalar +-inf is never used as a condition value (the library reads it as a NaN condition), only inside lists',
    'column names come from {a,ab,b,ba,c,k} (nested names on purpose): never a dictable/Dict method, a constructor parameter (data, columns) or a keyword of one_or_none (exc, find)',
    'a condition is a scalar value (int / finite float / str), a list of 0-3 admissible non-NaN values (None allowed in the list), None, a NaN object, or a compiled regex; "value" means python equality (cell is v or cell == v, so 1 matches 1.0)',
    'lists of admissible values never contain NaN (membership of a NaN in a list is identity based in python; the statement has NaN as a condition of its own)',
    'a conjunction has at most one condition per column (a dict filter and a keyword on the same column overwrite each other rather than conjoin)',
    'callables are total, pure predicates whose parameter names are all columns of the table; their verdict is read by truthiness (bools, 0/1, 0/2, None/\'x\', \'\'/\'s\', []/[0], or a mix of these from row to row) as `if f(**row)` does; exactly ONE callable and no keyword filter next to it (exc(f, g) and callable+keyword mixes are outside the statement)',
    'the set of columns is compared, not their order (dictable re-orders columns alphabetically when it rebuilds a table from rows)',
    'rows are compared cell by cell with a type-strict token in which every NaN is one token (1 and 1.0 differ, NaN equals NaN)',
    'find_<col>: when two or more selected rows hold NaN in <col> and nothing else, both "returns NaN" and "raises ValueError" are accepted (whether two NaNs are one value is not decided by the statement)',
    'find_<col> values are compared by python equality (1 and 1.0 are one value)',
    'results must be new table objects, never the operand itself, even when the selection keeps every row (inc and exc both start from self.copy(); a result that IS the table would let later edits of the result change the table); sharing of the column list objects is not checked',
    'large tables (64-200 rows, thorough up to 500) are short per-column patterns repeated, i.e. few distinct values and many duplicate rows',
    'one_or_none is checked only as an observation point of the rows inc selects, following its docstring: None for no row, the row for one, ValueError for several',
]

KNOWN = {}

COLS = ['a', 'ab', 'b', 'ba', 'c', 'k']                  # names that are prefixes / suffixes / substrings of one another, and equal to cell values
STR_PATTERNS = ['a', '^a', 'b$', '.', '', 'A|b']
# patterns that match str() of a NON-string cell (1, 1.0, 2.5, -1.5, 1000, None, nan): a regex condition must still reject those cells
COERCE_PATTERNS = ['1', '0', r'\.5', '-', 'N', 'on', 'nan', '^[0-9.]+$', 'inf']
PATTERNS = STR_PATTERNS + COERCE_PATTERNS
LARGE_QUICK = [64, 65, 100, 128, 200]
LARGE_THOROUGH = [64, 65, 100, 128, 200, 257, 500]

# ----------------------------------------------------------------------------- messages

class _T(str):
    """text that is already formatted (tables, conditions, call descriptions): inserted into messages verbatim"""


def check(cond, msg, *fmt):
    if not cond:
        raise Violation(msg % tuple(f if isinstance(f, _T) else short(f) for f in fmt))


# ----------------------------------------------------------------------------- reference model

def _is_nan(x):
    return isinstance(x, float) and x != x


def _is_inf(x):
    return isinstance(x, float) and x in (float('inf'), float('-inf'))


def _sat(cell, cond, env, inf_nan=None):
    """
    does `cell` satisfy the column condition `cond` = [kind, payload] (the statement's semantics)?
    The one case the statement leaves open is a NaN condition on an infinite cell (pyg_base.is_nan counts +-inf as NaN by design):
    there the answer is `inf_nan` - None = undecided, True / False = one of the two readings. Everywhere else inf is an ordinary float.
    """
    kind, payload = cond
    if kind == 'none':
        return cell is None
    if kind == 'nan':
        return inf_nan if _is_inf(cell) else _is_nan(cell)
    if kind == 'regex':
        return isinstance(cell, str) and re.search(payload, cell) is not None
    if kind == 'val':
        v = build(payload, env)
        return cell is v or cell == v
    if kind == 'list':
        for p in payload:
            v = build(p, env)
            if cell is v or cell == v:
                return True
        return False
    raise ValueError('unknown condition %r' % (cond,))


def _fresh(v):
    """an object equal to v but (where CPython allows) not identical to the cell object it was drawn from"""
    if isinstance(v, float) and v == v:
        return float(repr(v))
    if isinstance(v, str) and len(v) >= 2:
        return ''.join(list(v))
    if isinstance(v, int) and not isinstance(v, bool) and abs(v) > 256:
        return int(str(v))
    return v


def _cond_value(cond, env):
    """the object handed to pyg_base for a column condition"""
    kind, payload = cond
    if kind == 'none':
        return None
    if kind == 'nan':
        return env.nan(payload)
    if kind == 'regex':
        return re.compile(payload)
    if kind == 'val':
        return _fresh(build(payload, env))
    if kind == 'list':
        return [_fresh(build(p, env)) for p in payload]
    raise ValueError('unknown condition %r' % (cond,))


_CATALOGUE = {
    'is_none': (1, lambda x: x is None),
    'is_nan': (1, lambda x: _is_nan(x)),
    'is_str': (1, lambda x: isinstance(x, str)),
    'num_pos': (1, lambda x: isinstance(x, (int, float)) and x > 0),
    'true': (1, lambda x: True),
    'false': (1, lambda x: False),
    'str_lt': (2, lambda x, y: str(x) < str(y)),
    'same': (2, lambda x, y: x is y or x == y),
}


def _predicate(cspec, data):
    """plain python predicate over the values of cspec['args'] (used directly by the oracle)"""
    fn = cspec['fn']
    if fn == 'table':
        args = cspec['args']
        true = set(tuple(token(data[c][i]) for c in args) for i in cspec['true_rows'])
        return lambda *vals: tuple(token(v) for v in vals) in true
    return _CATALOGUE[fn][1]


# how a predicate presents its verdict: (falsy, truthy). inc / exc judge a callable by truthiness (`if f(**row)`, `if not f(**row)`)
_RESULTS = {
    'bool': (lambda: False, lambda: True),
    'int01': (lambda: 0, lambda: 1),
    'int02': (lambda: 0, lambda: 2),
    'none_x': (lambda: None, lambda: 'x'),
    'str': (lambda: '', lambda: 's'),
    'list': (lambda: [], lambda: [0]),
}
_MIXED = ['int01', 'none_x', 'bool', 'list', 'str', 'int02']
_RET_KINDS = sorted(_RESULTS) + ['mixed']


def _encode(ret, truth, vals):
    """the object the user's predicate returns for the verdict `truth` on the argument values `vals`"""
    if ret == 'mixed':        # the kind of result depends (deterministically) on the argument values, so it differs from row to row
        ret = _MIXED[sum(map(ord, repr(vals))) % len(_MIXED)]
    return _RESULTS[ret][1 if truth else 0]()


def _as_callable(pred, args):
    """a lambda whose parameter names are the columns, as a user would write it"""
    return eval('lambda %s: _p(%s)' % (', '.join(args), ', '.join(args)), {'_p': pred})


class _Rows(list):
    """list of row tokens (compared) that prints as the plain column dict it was read from"""

    def __init__(self, toks, plain):
        list.__init__(self, toks)
        self.plain = plain

    def __repr__(self):
        return repr(self.plain)


def _rows(data, cols, n):
    return [tuple(token(data[c][i]) for c in cols) for i in range(n)]


def _table_rows(what, res, cols):
    """reads a result table: columns must be exactly `cols` (as a set), all of one length; returns row tokens in order"""
    from pyg_base import dictable
    check(isinstance(res, dictable), '%s returned %s, not a dictable', what, type(res).__name__)
    keys = list(res.keys())
    check(sorted(keys) == sorted(cols), '%s has columns %s, the table has %s', what, keys, sorted(cols))
    plain = {k: dict.__getitem__(res, k) for k in keys}
    for k in keys:
        check(isinstance(plain[k], list), '%s: column %s is %s, not a list', what, k, type(plain[k]).__name__)
    lens = sorted(set(len(v) for v in plain.values()))
    check(len(lens) == 1, '%s: ragged result %s', what, plain)
    scols = sorted(cols)
    return _Rows([tuple(token(plain[c][i]) for c in scols) for i in range(lens[0])], {c: plain[c] for c in scols})


def _snapshot(d):
    return [(k, list(dict.__getitem__(d, k))) for k in d.keys()]


def _unchanged(what, d, snap):
    now = _snapshot(d)
    ok = len(now) == len(snap) and all(k1 == k0 and len(v1) == len(v0) and all(x is y for x, y in zip(v1, v0))
                                       for (k1, v1), (k0, v0) in zip(now, snap))
    check(ok, '%s modified the table it was called on (so inc and exc no longer partition the same table): %s', what, dict(now))


def _build_table(spec, env):
    from pyg_base import dictable
    cols = spec['cols']
    data = {c: [build(v, env) for v in spec['data'][c]] for c in cols}
    if spec.get('tile'):          # large table: every column is its (short) pattern repeated up to `tile` rows
        data = {c: [data[c][i % len(data[c])] for i in range(spec['tile'])] for c in cols}
    n = len(data[cols[0]])
    d = dictable({c: list(data[c]) for c in cols})
    # harness sanity (not a violation): the constructor must have given us the table we describe
    if sorted(d.keys()) != sorted(cols) or len(d) != n:
        raise RuntimeError('builder: dictable(%r) has shape %s' % (data, (len(d), d.keys())))
    return d, data, n


def _condition(spec_cond, data, env):
    """
    -> (describe, caller(table, method name) -> result, selected(i) -> bool according to the reference model)
    """
    if spec_cond['kind'] == 'filters':
        conds = spec_cond['conds']        # [[col, kind, payload], ...]  at most one per column
        form = spec_cond['form']
        values = [(c, _cond_value([k, p], env)) for c, k, p in conds]
        if not conds:
            pos, kw = ([{}] if form == 'dict' else []), {}       # inc() and inc({}): no condition
        elif form == 'kw':
            pos, kw = [], dict(values)
        elif form == 'dict':
            pos, kw = [dict(values)], {}
        elif form == 'split':
            pos, kw = [dict(values[:1])], dict(values[1:])
        elif form == 'dicts':
            pos, kw = [dict([v]) for v in values], {}
        else:
            raise ValueError(form)
        desc = _T('(%s)' % ', '.join([short(p, 120) for p in pos] + ['%s = %s' % (c, short(v, 80)) for c, v in kw.items()]))

        def caller(table, method, extra=None):
            # fresh containers on every call: the code under test may not rely on (or spoil) ours
            k = dict(kw)
            if extra:
                k.update(extra)
            return getattr(table, method)(*[dict(p) for p in pos], **k)

        def selected(i, inf_nan=None):
            """True / False, or None when the row's fate hangs on an infinite cell under a NaN condition"""
            verdicts = [_sat(data[c][i], [k, p], env, inf_nan) for c, k, p in conds]
            return False if any(v is False for v in verdicts) else None if any(v is None for v in verdicts) else True
        caller.values = values
        if form == 'split' and len(conds) >= 2:
            # the caller's own condition dict, used for several calls in a row (first with keyword conditions, then on its own)
            def reuse(table, method):
                shared = [dict(p) for p in pos]
                first = getattr(table, method)(*shared, **dict(kw))
                return first, getattr(table, method)(*shared), shared

            def selected_dict_only(i, inf_nan=None):
                return _sat(data[conds[0][0]][i], conds[0][1:], env, inf_nan)
            caller.reuse = reuse
            caller.selected_dict_only = selected_dict_only
            caller.dict_desc = _T('(%s)' % short(pos[0], 120))
        return desc, caller, selected
    else:
        args = spec_cond['args']
        pred = _predicate(spec_cond, data)
        ret = spec_cond.get('ret', 'bool')
        f = _as_callable(pred if ret == 'bool' else (lambda *vals: _encode(ret, bool(pred(*vals)), vals)), args)
        desc = _T('(lambda %s: %s%s)' % (', '.join(args), spec_cond['fn'] if spec_cond['fn'] != 'table' else 'true exactly on the values of rows %s' % spec_cond['true_rows'],
                                        '' if ret == 'bool' else ', verdict returned as %s' % (
                                            'a result kind that varies by row among %s' % _MIXED if ret == 'mixed' else '%r / %r' % (_RESULTS[ret][0](), _RESULTS[ret][1]()))))

        def caller(table, method, extra=None):
            return getattr(table, method)(f, **(extra or {}))

        def selected(i, inf_nan=None):
            return bool(pred(*[data[c][i] for c in args]))
        return desc, caller, selected


def _check_weak_partition(tdesc, desc, all_rows, status, got_inc, got_exc):
    """
    rows with status True must be in inc, rows with status False in exc, rows with status None (infinite cell under a NaN condition)
    in exactly one of the two - and both results keep the table's relative order. Decided by walking the table once while tracking
    every possible number of rows already consumed from inc (the rest came from exc).
    """
    inc, exc = list(got_inc), list(got_exc)
    states = {0}
    for i, row in enumerate(all_rows):
        new = set()
        for p in states:
            q = i - p
            if status[i] is not False and p < len(inc) and inc[p] == row:
                new.add(p + 1)
            if status[i] is not True and q < len(exc) and exc[q] == row:
                new.add(p)
        check(new, 'dictable(%s): inc%s = %s and exc%s = %s do not partition the table in order: row %s is in neither result at its place '
                   '(rows satisfying the condition must be in inc, rows failing it in exc, rows whose infinite cell meets a NaN condition in exactly one of them)',
              tdesc, desc, got_inc, desc, got_exc, i)
        states = new
    check(len(inc) in states and len(inc) + len(exc) == len(all_rows),
          'dictable(%s): inc%s = %s and exc%s = %s together hold %s rows of a table of %s', tdesc, desc, got_inc, desc, got_exc, len(inc) + len(exc), len(all_rows))


def _shape_classes(spec, cols, n):
    cls = []
    if spec.get('tile'):
        cls += ['large', 'large_n=%i' % n]
    if any(a != b and a in b for a in cols for b in cols):
        cls.append('nested_column_names')
    return cls


# ----------------------------------------------------------------------------- oracle: partition

def run_partition(spec):
    env = Env()
    d, data, n = _build_table(spec, env)
    cols = spec['cols']
    scols = sorted(cols)
    snap = _snapshot(d)
    desc, caller, selected = _condition(spec['cond'], data, env)
    tdesc = _T(short({c: data[c] for c in cols}, 200))
    all_rows = _rows(data, scols, n)
    status = [selected(i) for i in range(n)]
    undecided = [i for i in range(n) if status[i] is None]        # infinite cell under a NaN condition: either part, but exactly one
    sel = [i for i in range(n) if status[i]]
    selset = set(sel)
    unsel = [i for i in range(n) if status[i] is False]
    exp_inc = [all_rows[i] for i in sel]
    exp_exc = [all_rows[i] for i in unsel]
    no_cond = spec['cond']['kind'] == 'filters' and not spec['cond']['conds']

    inc = call('dictable(%s).inc%s' % (tdesc, desc), caller, d, 'inc')
    got_inc = _table_rows(_T('dictable(%s).inc%s' % (tdesc, desc)), inc, cols)
    _unchanged(_T('inc%s' % desc), d, snap)
    if no_cond:
        check(list(got_inc) == all_rows, 'inc() with no condition is not the identity on dictable(%s): it returned %s', tdesc, got_inc)
    if not undecided:
        check(list(got_inc) == exp_inc, 'dictable(%s).inc%s returned %s; the rows satisfying the condition are rows %s of the table, in that order',
              tdesc, desc, got_inc, sel)

    if not no_cond:
        exc = call('dictable(%s).exc%s' % (tdesc, desc), caller, d, 'exc')
        got_exc = _table_rows(_T('dictable(%s).exc%s' % (tdesc, desc)), exc, cols)
        _unchanged(_T('exc%s' % desc), d, snap)
        if not undecided:
            check(list(got_exc) == exp_exc, 'dictable(%s).exc%s returned %s; the rows NOT satisfying the condition are rows %s of the table, in that order',
                  tdesc, desc, got_exc, unsel)
        else:
            _check_weak_partition(tdesc, desc, all_rows, status, got_inc, got_exc)
        check(len(got_inc) + len(got_exc) == n, 'inc%s and exc%s hold %s + %s rows of a table of %s', desc, desc, len(got_inc), len(got_exc), n)

    # the caller's condition dict is the caller's: used again on its own after a call that also had keyword conditions, it means what it says
    reused = getattr(caller, 'reuse', None)
    if reused is not None and not undecided:
        st2 = [caller.selected_dict_only(i) for i in range(n)]
        if not any(v is None for v in st2):
            for method, keep in (('inc', True), ('exc', False)):
                w = 'key = %s; dictable(%s).%s(key, %s)' % (caller.dict_desc, tdesc, method, ', '.join('%s = ..' % c for c, v in caller.values[1:]))
                first, second, shared = call(w, reused, d, method)
                exp1 = exp_inc if keep else exp_exc
                check(list(_table_rows(_T(w), first, cols)) == exp1, '%s returned %s, expected rows %s', _T(w), first, sel if keep else unsel)
                w2 = _T(w + '; then %s(key)' % method)
                exp2 = [all_rows[i] for i in range(n) if bool(st2[i]) == keep]
                got2 = _table_rows(w2, second, cols)
                check(list(got2) == exp2, '%s returned %s; the rows %s the condition %s alone are rows %s (the condition dict is now %s)', w2, got2,
                      'satisfying' if keep else 'NOT satisfying', caller.dict_desc, [i for i in range(n) if bool(st2[i]) == keep], short(shared, 120))

    # idempotent: the same condition applied to the result selects all of it
    again = call('dictable(%s).inc%s.inc%s' % (tdesc, desc, desc), caller, inc, 'inc')
    got_again = _table_rows(_T('inc%s applied twice to %s' % (desc, tdesc)), again, cols)
    check(list(got_again) == list(got_inc), 'inc%s is not idempotent on dictable(%s): once %s, twice %s', desc, tdesc, got_inc, got_again)

    # a selection that keeps everything must still be a new table, not the operand itself (both methods start from self.copy())
    check(inc is not d, 'dictable(%s).inc%s returned the table object itself, so changing the result changes the table', tdesc, desc)
    check(again is not inc, 'inc%s applied to its own result returned that very object', desc)
    if not no_cond:
        check(exc is not d, 'dictable(%s).exc%s returned the table object itself, so changing the result changes the table', tdesc, desc)

    # ---- classes
    cls = ['n=%s' % ('0' if n == 0 else '1' if n == 1 else '2+'), 'ncols=%i' % len(cols)] + _shape_classes(spec, cols, n)
    special = False
    if spec['cond']['kind'] == 'filters':
        conds = spec['cond']['conds']
        form = spec['cond']['form']
        cls.append('form=%s' % (form if conds else 'emptydict' if form == 'dict' else 'none'))
        cls.append('nconds=%i' % len(conds))
        for (c, k, p), (_, v) in zip(conds, caller.values):
            cls.append('cond=' + k)
            if k in ('none', 'nan', 'regex'):
                special = True
            if k == 'list':
                cls.append('list_len=%s' % (len(p) if len(p) < 4 else '4-63' if len(p) < 64 else '64+'))
                if any(x is y or x == y for i, x in enumerate(v) for y in v[:i]):
                    cls.append('dup_in_list')
            if k == 'nan' and any(_is_nan(x) for x in data[c]):
                cls.append('nan_cond_on_nan_column')
            if k == 'regex' and any(not isinstance(x, str) and re.search(p, str(x)) is not None for x in data[c]):
                cls.append('regex_matches_str_of_nonstr_cell')       # where a str()-coercing implementation would differ
            if k in ('val', 'list'):
                vs = [v] if k == 'val' else v
                if any(x == y and x is not y for x in data[c] for y in vs):
                    cls.append('equal_not_identical')
                if any(y is None or (not y and not _is_nan(y)) for y in vs) or (k == 'list' and not vs):
                    cls.append('falsy_condition_value')
        if reused is not None and not undecided:
            cls.append('condition_dict_reused_across_calls')
            if [i for i in range(n) if caller.selected_dict_only(i)] != sel:
                cls.append('condition_dict_reused:keywords_mattered')
        if len(conds) >= 2:
            per_row = [sum(1 for c, k, p in conds if _sat(data[c][i], [k, p], env)) for i in range(n)]
            if any(0 < m < len(conds) for m in per_row):
                cls.append('row_satisfies_some_not_all')
                if form in ('split', 'dicts'):
                    cls.append('row_satisfies_some_not_all_across_containers')
            if [c for c, k, p in conds] != [c for c in cols if c in [x[0] for x in conds]]:
                cls.append('conds_not_in_column_order')
    else:
        cls.append('fn=' + spec['cond']['fn'])
        cls.append('nargs=%i' % len(spec['cond']['args']))
        cls.append('ret=' + spec['cond'].get('ret', 'bool'))
        if spec['cond'].get('ret', 'bool') != 'bool':
            cls.append('nonbool_result')
    if undecided:
        cls.append('inf_cell_under_nan_condition')
        sel = sel + undecided[:len(got_inc) - len(sel)]         # for the shape classes only: as many rows as inc really returned
        sel.sort()
    if any(_is_inf(x) for c in cols for x in data[c]):
        cls.append('inf_cell')
    if n:
        if sel and len(sel) < n:
            cls.append('both_nonempty')
            if sel != list(range(len(sel))) and sel != list(range(n - len(sel), n)):
                cls.append('interleaved')
        elif len(sel) == n:
            cls.append('all')
        else:
            cls.append('nothing')
        if len(sel) == 1 or len(sel) == n - 1:
            cls.append('single_row_part')
        if n >= 2 and sel == [0]:
            cls.append('only_first_row')
        if n >= 2 and sel == [n - 1]:
            cls.append('only_last_row')
        if len(sel) in (0, n):
            cls.append('noop_selection')      # one of the two results is the whole table: must be a copy, not the operand
    if len(set(all_rows)) < n:
        cls.append('duplicate_rows')
    if cols != scols:
        cls.append('columns_not_alphabetical')
    both = bool(sel) and len(sel) < n
    nt = n >= 1 and (both or special or len(sel) in (0, n)) and not no_cond
    return dict(nt=nt, cls=cls)


# ----------------------------------------------------------------------------- oracle: find_<col>, one_or_none

def _judge_find(what, ok, res, sel, vals):
    """find_<col> against the selection `sel` holding `vals`; returns the class label"""
    toks = set(vtoken(v) for v in vals)
    if len(sel) == 0:
        check(not ok, '%s returned %s although no row satisfies the condition (must raise ValueError)', what, res)
        return 'none_selected'
    if len(sel) == 1:
        check(ok, '%s raised %s although exactly one row (%s) satisfies the condition', what, res, sel[0])
        check(token(res) == token(vals[0]), '%s returned %s, the selected row %s holds %s', what, res, sel[0], vals[0])
        return 'single_row'
    if len(toks) >= 2:
        check(not ok, '%s returned %s although the selected rows %s hold the different values %s (must raise ValueError)', what, res, sel, vals)
        return 'multiple_values'
    if toks == {('nan',)}:
        check(not ok or _is_nan(res), '%s returned %s, the selected rows hold only NaN', what, res)
        return 'several_nan'            # accepted either way, see ASSUMPTIONS
    check(ok, '%s raised %s although all selected rows %s hold the one value %s', what, res, sel, vals[0])
    check(vtoken(res) in toks, '%s returned %s, the selected rows %s all hold %s', what, res, sel, vals[0])
    return 'unique_from_many'


def _judge_one(w1, ok1, res1, sel1, find, data, scols):
    """one_or_none against the selection `sel1`"""
    if len(sel1) == 0:
        check(ok1 and res1 is None, '%s gave %s although no row is selected (must return None)', w1, res1)
    elif len(sel1) >= 2:
        check(not ok1, '%s returned %s although rows %s are selected (must raise ValueError)', w1, res1, sel1)
    else:
        i = sel1[0]
        check(ok1, '%s raised %s although exactly row %s is selected', w1, res1, i)
        if find is None:
            check(isinstance(res1, dict) and sorted(res1.keys()) == scols, '%s returned %s, not the row with columns %s', w1, res1, scols)
            check([token(res1[c]) for c in scols] == [token(data[c][i]) for c in scols], '%s returned %s, row %s is %s', w1, res1, i, {c: data[c][i] for c in scols})
        else:
            check(token(res1) == token(data[find][i]), '%s returned %s, row %s holds %s', w1, res1, i, data[find][i])


def run_find(spec):
    env = Env()
    d, data, n = _build_table(spec, env)
    cols = spec['cols']
    scols = sorted(cols)
    snap = _snapshot(d)
    col = spec['col']
    desc, caller, selected = _condition(spec['cond'], data, env)
    tdesc = _T(short({c: data[c] for c in cols}, 200))
    cls = ['ncols=%i' % len(cols), 'cond=' + (spec['cond']['kind'])] + _shape_classes(spec, cols, n)
    if spec['cond']['kind'] == 'callable' and spec['cond'].get('ret', 'bool') != 'bool':
        cls += ['nonbool_result', 'ret=' + spec['cond']['ret']]
    exc_cond = spec.get('exc')          # [col, kind, payload] or None
    extra = {}
    edesc = ''
    if exc_cond is not None:
        ec, ek, ep = exc_cond
        extra['exc'] = {ec: _cond_value([ek, ep], env)}
        edesc = ' with exc = %s' % short(extra['exc'], 80)
        cls.append('one_or_none_exc')

    # ---- the calls
    what = _T('dictable(%s).find_%s%s' % (tdesc, col, desc))
    ok, res = call_or(what, (ValueError,), caller, d, 'find_' + col)
    _unchanged(_T('find_%s%s' % (col, desc)), d, snap)
    ones = []
    for find in ([None, col] if spec.get('one_find', True) else [None]):
        kw = dict(extra)
        if find is not None:
            kw['find'] = find
        w1 = _T('dictable(%s).one_or_none%s%s%s' % (tdesc, desc, edesc, '' if find is None else ' find = %s' % find))
        ok1, res1 = call_or(w1, (ValueError,), caller, d, 'one_or_none', kw)
        _unchanged(_T('one_or_none%s' % desc), d, snap)
        ones.append((w1, ok1, res1, find))

    # ---- the readings: an infinite cell under a NaN condition may count as NaN or not (each of inc and exc may decide, see _sat)
    undecided = any(selected(i) is None for i in range(n)) or \
        (exc_cond is not None and any(_sat(data[exc_cond[0]][i], exc_cond[1:], env) is None for i in range(n)))
    readings = [(True, True), (False, False), (True, False), (False, True)] if undecided else [(None, None)]
    first = None
    for inc_reading, exc_reading in readings:
        try:
            sel = [i for i in range(n) if selected(i, inc_reading)]
            label = _judge_find(what, ok, res, sel, [data[col][i] for i in sel])
            sel1 = sel if exc_cond is None else [i for i in sel if not _sat(data[exc_cond[0]][i], exc_cond[1:], env, exc_reading)]
            for w1, ok1, res1, find in ones:
                _judge_one(w1, ok1, res1, sel1, find, data, scols)
            break
        except Violation as v:
            first = first or v
    else:
        raise first
    cls.append(label)
    if undecided:
        cls.append('inf_cell_under_nan_condition')
    cls.append('one_or_none=%s' % ('none' if not sel1 else 'row' if len(sel1) == 1 else 'several'))
    nt = len(sel) != 1
    return dict(nt=nt, cls=cls)


# ----------------------------------------------------------------------------- generators (plain data only)

_INTS = st.integers(-3, 6)
_FLOATS = st.sampled_from([-1.5, 0.0, 1.0, 2.0, 2.5])
_STRS = st.sampled_from(['', 'a', 'ab', 'b', 'A'])
_NAN = st.integers(0, 1).map(lambda k: ['nan', k])
_CELL = st.one_of(st.integers(0, 3), _STRS, st.none(), _FLOATS, _NAN, _INTS)
_VALUE = st.one_of(_INTS, _FLOATS, _STRS, st.sampled_from([1000, 'aba']))            # a scalar condition value (None / NaN are conditions of their own)

# column flavours: small pools make equal cells, full matches and empty matches frequent
_FLAVOURS = {
    'mixed': _CELL,
    'ints': st.integers(0, 2),
    'strs': st.sampled_from(['a', 'ab', 'b']),
    'ints_nan': st.one_of(st.integers(0, 1), _NAN),
    'ints_none': st.one_of(st.integers(0, 1), st.none()),
    'one_onefloat': st.one_of(st.sampled_from([1, 1.0, 2]), _NAN, st.none()),
    'strs_none_ints': st.one_of(_STRS, st.none(), st.integers(0, 1)),
    'none_nan': st.one_of(st.none(), _NAN),
    'inf_nan': st.one_of(st.sampled_from([['inf', 1], ['inf', -1]]), _NAN, st.integers(0, 1)),       # +-inf next to NaN: is_nan counts both
    'inf_floats': st.one_of(st.just(['inf', 1]), _FLOATS, st.none(), st.just(['inf', -1])),
    'big': st.sampled_from([1000, 1000.0, 'ab', 'aba', 2.5, 10]),        # objects CPython does not share: equal is not identical
}
_FLAVOUR = st.sampled_from(['mixed', 'mixed', 'const'] + sorted(_FLAVOURS))


@st.composite
def _table(draw, max_rows, max_cols, large):
    ncols = draw(st.integers(1, max_cols))
    cols = list(draw(st.permutations(COLS))[:ncols])
    if draw(st.sampled_from([False, False, False, True, False, False, False, False, False, False, False, False])):
        # a LARGE table with few distinct values: short column patterns repeated (size thresholds / vectorised paths)
        data = {}
        for c in cols:
            fl = draw(_FLAVOUR)
            data[c] = [draw(_CELL)] if fl == 'const' else draw(st.lists(_FLAVOURS[fl], min_size=1, max_size=5))
        return dict(cols=cols, data=data, tile=large[draw(st.integers(0, 9999)) % len(large)])
    n = draw(st.one_of(st.integers(0, max_rows), st.integers(2, max_rows)))
    data = {}
    for c in cols:
        fl = draw(_FLAVOUR)
        if fl == 'const':
            data[c] = [draw(_CELL)] * n
        else:
            data[c] = draw(st.lists(_FLAVOURS[fl], min_size=n, max_size=n))
    return dict(cols=cols, data=data)


def _is_inf_spec(v):
    return isinstance(v, (list, tuple)) and len(v) == 2 and v[0] == 'inf'


def _plain_values(cells):
    """distinct non-NaN, non-None cell specs of a column"""
    out = []
    for v in cells:
        if v is None or is_nan_spec(v):
            continue
        if not any(type(v) is type(o) and v == o for o in out):
            out.append(v)
    return out


@st.composite
def _column_cond(draw, cells):
    """[kind, payload] for one column, biased towards the column's own content"""
    present = _plain_values(cells)
    has_inf = any(_is_inf_spec(v) for v in cells)
    has_none = any(v is None for v in cells)
    has_nan = any(is_nan_spec(v) for v in cells) or has_inf      # a NaN condition on a column holding +-inf is the open case of the statement
    has_str = any(isinstance(v, str) for v in cells)
    if has_inf and draw(st.integers(0, 9999)) % 2 == 0:
        return ['nan', [0, 1, 7][draw(st.integers(0, 9999)) % 3]]
    kinds = ['val', 'val', 'list', 'list'] if present else []
    if has_none:
        kinds += ['none', 'none']
    if has_nan:
        kinds += ['nan', 'nan']
    has_nonstr = any(not isinstance(v, str) for v in cells)
    if has_str:
        kinds += ['regex', 'regex']
    if has_nonstr and draw(st.integers(0, 2)) == 0:
        kinds += ['regex']               # a regex condition on non-string cells must reject them, whatever their str() looks like
    if draw(st.integers(0, 4)) == 0 or not kinds:
        kinds = ['val', 'list', 'none', 'nan', 'regex']      # whether or not the column holds such cells
    kind = draw(st.sampled_from(kinds))
    if kind == 'none':
        return ['none', None]
    if kind == 'nan':
        return ['nan', draw(st.sampled_from([0, 1, 7]))]       # a NaN object of the table, or a fresh one
    if kind == 'regex':
        if has_str and has_nonstr:
            pats = STR_PATTERNS + COERCE_PATTERNS
        elif has_str:
            pats = STR_PATTERNS * 3 + COERCE_PATTERNS
        else:
            pats = COERCE_PATTERNS * 2 + STR_PATTERNS
        return ['regex', pats[draw(st.integers(0, 9999)) % len(pats)]]
    pool = st.sampled_from(present) if present else _VALUE
    if kind == 'val':
        # never a scalar +-inf: the library reads it as a NaN condition (is_nan(value)), a value only inside a list
        finite = [v for v in present if not _is_inf_spec(v)]
        vpool = st.sampled_from(finite) if finite else _VALUE
        return ['val', draw(st.one_of(vpool, vpool, vpool, _VALUE))]
    # list of admissible values
    mode = ['some', 'some', 'dup', 'some', 'all', 'long', 'some', 'all', 'empty', 'foreign', 'some', 'all'][draw(st.integers(0, 9999)) % 12]
    if mode == 'empty':
        return ['list', []]
    if mode == 'long':         # 64+ admissible values (a set / vectorised lookup must keep python-equality semantics), some of them in the column
        keep = draw(st.lists(pool, max_size=3)) if present else []
        keep = [float(v) if isinstance(v, int) and i % 2 == 0 else v for i, v in enumerate(keep)]      # an int cell listed as its float twin
        return ['list', list(range(100, 130)) + keep + [100.0 + i for i in range(30, 70)] + ([None] if draw(st.booleans()) else [])]
    if mode == 'dup':          # the same admissible value listed twice (also as 1 and 1.0)
        vs = draw(st.lists(st.one_of(pool, pool, _VALUE, st.none()), min_size=1, max_size=2))
        return ['list', draw(st.permutations(vs + vs[:1]))]
    if mode == 'all':
        vs = list(present) + ([None] if has_none else [])
        return ['list', draw(st.permutations(vs)) if vs else []]
    if mode == 'foreign':
        return ['list', draw(st.lists(st.sampled_from([9, 'zz', 7.5]), min_size=1, max_size=3, unique=True))]
    elem = st.one_of(pool, pool, pool, _VALUE, st.none())
    return ['list', draw(st.lists(elem, min_size=1, max_size=3))]


@st.composite
def _filters_cond(draw, table, allow_none_form=True):
    cols = table['cols']
    k = draw(st.sampled_from([1, 1, 2, 1, 0, 1, 2, 3, 1, 2, 2, 1] if allow_none_form else [1, 1, 2, 1, 3, 2, 1]))
    k = min(k, len(cols))
    order = list(draw(st.permutations(cols)))
    with_inf = [c for c in order if any(_is_inf_spec(v) for v in table['data'][c])]
    if with_inf and draw(st.integers(0, 9999)) % 3 != 0:          # columns holding +-inf are conditioned more often
        order = with_inf + [c for c in order if c not in with_inf]
    chosen = order[:k]
    conds = []
    for c in chosen:
        kind, payload = draw(_column_cond(table['data'][c]))
        conds.append([c, kind, payload])
    if len(conds) >= 2:      # conjunctions spread over several containers: dict + keywords, several dicts
        form = draw(st.sampled_from(['split', 'kw', 'dicts', 'dict', 'split', 'dicts']))
    else:
        form = draw(st.sampled_from(['kw', 'dict', 'kw']))
    return dict(kind='filters', form=form, conds=conds)


@st.composite
def _callable_cond(draw, table):
    cols = table['cols']
    n = min(table.get('tile') or len(table['data'][cols[0]]), 12)      # rows whose values may be declared true (a large table repeats them)
    fn = draw(st.sampled_from(['table', 'table', 'table'] + sorted(_CATALOGUE)))
    # about 40% of the callables return their verdict as a truthy / falsy non-bool
    ret = 'bool'
    if draw(st.sampled_from([True, False, False, True, False])):
        ret = draw(st.sampled_from(['mixed', 'int02', 'int01', 'none_x', 'str', 'list']))
    if fn == 'table':
        nargs = draw(st.integers(1, min(3, len(cols))))
        args = list(draw(st.permutations(cols))[:nargs])
        true_rows = [i for i, b in enumerate(draw(st.lists(st.sampled_from([True, False]), min_size=n, max_size=n))) if b]
        return dict(kind='callable', fn='table', args=args, true_rows=sorted(true_rows), ret=ret)
    nargs = _CATALOGUE[fn][0]
    if nargs > len(cols):
        fn = draw(st.sampled_from(['is_none', 'is_nan', 'is_str', 'num_pos']))
        nargs = 1
    args = list(draw(st.permutations(cols))[:nargs])
    return dict(kind='callable', fn=fn, args=args, ret=ret)


def _sizes(tier):
    return (8, 3, LARGE_QUICK) if tier == 'quick' else (12, 4, LARGE_THOROUGH)


@st.composite
def _filters_case(draw, tier):
    t = draw(_table(*_sizes(tier)))
    t['cond'] = draw(_filters_cond(t))
    return t


@st.composite
def _predicate_case(draw, tier):
    t = draw(_table(*_sizes(tier)))
    t['cond'] = draw(_callable_cond(t))
    return t


@st.composite
def _find_case(draw, tier):
    t = draw(_table(*_sizes(tier)))
    t['cond'] = draw(st.one_of(_filters_cond(t, allow_none_form=False), _filters_cond(t, allow_none_form=False), _callable_cond(t)))
    t['col'] = draw(st.sampled_from(t['cols']))
    if draw(st.integers(0, 3)) == 0:
        ec = draw(st.sampled_from(t['cols']))
        kind, payload = draw(_column_cond(t['data'][ec]))
        # `if exc:` in one_or_none - an exc dict is never empty here
        t['exc'] = [ec, kind, payload]
    else:
        t['exc'] = None
    t['one_find'] = True
    return t


# ----------------------------------------------------------------------------- exhaustive small domain

ENUM_POOL = [None, 1, 1.0, 2, ['nan', 0], 'a', 'ab', ['inf', 1]]
ENUM_CONDS = [
    ['val', 1], ['val', 1.0], ['val', 2], ['val', 'a'], ['val', 'b'], ['val', 5],
    ['list', []], ['list', [1, 'a']], ['list', [None, 2]], ['list', [1.0, 2, 'ab']], ['list', ['zz']],
    ['none', None], ['nan', 0], ['nan', 7],
    ['regex', 'a'], ['regex', '^a$'], ['regex', 'b$'], ['regex', ''], ['regex', '1'], ['regex', 'on'], ['regex', 'nan'],
]
ENUM_MAX_ROWS = 4


def _enum_tables():
    for n in range(ENUM_MAX_ROWS + 1):
        for cells in itertools.product(range(len(ENUM_POOL)), repeat=n):
            yield [ENUM_POOL[i] for i in cells]


def enum_small(tier):
    total = sum(len(ENUM_POOL) ** n for n in range(ENUM_MAX_ROWS + 1)) * len(ENUM_CONDS) * 2

    def chunker(i, nchunks):
        for j, cells in enumerate(_enum_tables()):
            if j % nchunks != i:
                continue
            for kind, payload in ENUM_CONDS:
                for form in ('kw', 'dict'):
                    yield dict(cols=['a'], data={'a': cells}, cond=dict(kind='filters', form=form, conds=[['a', kind, payload]]))
    return total, chunker


# ----------------------------------------------------------------------------- registration

SUBS = [
    Sub('filters', _filters_case, run_partition, quick=3000, thorough=30000,
        rule='tables of 0-8 rows x 1-3 columns (thorough 0-12 x 1-4) of None/ints/floats/NaN objects/strings, about 8% of them LARGE (64/65/100/128/200 rows, thorough also 257/500: '
             'short column patterns repeated), column names nested in one another, +-inf cells in about 17% of the tables (a row whose infinite cell meets a NaN condition must only be in exactly one of inc / exc); a conjunction of 0-3 column conditions '
             '(value, list of admissible values, None, NaN, compiled regex) passed as keywords, one dict, dict + keywords, or several dicts. '
             'oracle: plain list-of-records filter; inc = satisfying rows in order, exc = the others in order, both with all columns, lengths add up, '
             'inc() = identity, inc twice = once, table untouched; for dict + keywords the caller\'s dict is then passed again on its own (same object) and must select by its own content. non-trivial = at least one row and (both parts non-empty, or a None/NaN/regex condition, '
             'or the condition matches all / no rows); distinct = distinct spec',
        floor=0.5,
        class_floors={'both_nonempty': 0.15, 'all': 0.03, 'nothing': 0.08, 'cond=nan': 0.05, 'cond=none': 0.05, 'cond=regex': 0.05, 'cond=list': 0.1,
                      'cond=val': 0.1, 'nconds=2': 0.1, 'form=none': 0.02, 'form=emptydict': 0.01, 'interleaved': 0.05, 'n=0': 0.01,
                      'nan_cond_on_nan_column': 0.02, 'condition_dict_reused_across_calls': 0.05, 'condition_dict_reused:keywords_mattered': 0.02,
                      # the bug classes of the brief's appendix
                      'large': 0.04, 'duplicate_rows': 0.25, 'dup_in_list': 0.015, 'list_len=64+': 0.008, 'equal_not_identical': 0.03,
                      'columns_not_alphabetical': 0.2, 'conds_not_in_column_order': 0.03, 'noop_selection': 0.3, 'falsy_condition_value': 0.08,
                      'nested_column_names': 0.15, 'only_first_row': 0.005, 'only_last_row': 0.005,
                      'row_satisfies_some_not_all_across_containers': 0.03, 'regex_matches_str_of_nonstr_cell': 0.015,
                      'inf_cell': 0.08, 'inf_cell_under_nan_condition': 0.03}),
    Sub('predicate', _predicate_case, run_partition, quick=2000, thorough=15000,
        rule='same tables; ONE callable over 1-3 named columns: a catalogue of total predicates (is None, is NaN, is str, > 0, str(a) < str(b), a == b, '
             'constant True / False) or an arbitrary truth table on the rows; in about 40% of the cases the verdict is returned as a truthy / falsy non-bool (0/1, 0/2, None/x, empty/non-empty str or list, or a kind that varies from row to row). oracle: the truth value of the same python predicate applied to the plain records. '
             'non-trivial = at least one row and (both parts non-empty or all / nothing selected)',
        floor=0.5, class_floors={'both_nonempty': 0.15, 'all': 0.03, 'nothing': 0.05, 'fn=table': 0.2, 'nargs=2': 0.1, 'nonbool_result': 0.25,
                                 'large': 0.025, 'nested_column_names': 0.15, 'noop_selection': 0.3, 'duplicate_rows': 0.25, 'inf_cell': 0.08,
                                 'ret=int01': 0.02, 'ret=int02': 0.02, 'ret=none_x': 0.02, 'ret=str': 0.02, 'ret=list': 0.02, 'ret=mixed': 0.02}),
    Sub('find', _find_case, run_find, quick=2500, thorough=15000,
        rule='same tables and conditions (filters or one callable, whose verdict is a non-bool truthy / falsy value in about 40% of the callable cases) plus a column: find_<col>(condition) must return the one value held by the selected rows and '
             'raise ValueError when no row or two different values are selected; one_or_none(condition[, exc=][, find=]) must give None / the row / ValueError '
             'for 0 / 1 / several selected rows. non-trivial = the selection is not a single row',
        floor=0.3, class_floors={'none_selected': 0.1, 'multiple_values': 0.1, 'unique_from_many': 0.05, 'single_row': 0.05, 'one_or_none_exc': 0.1,
                                 'nonbool_result': 0.05, 'large': 0.03, 'nested_column_names': 0.15, 'inf_cell_under_nan_condition': 0.03}),
    EnumSub('small_enum', enum_small, run_partition, thorough_only=True, chunks=64,
            rule='every 1-column table of 0-%i rows over the pool %s x %i single-column conditions x {keyword, dict}; same oracle as filters'
                 % (ENUM_MAX_ROWS, ENUM_POOL, len(ENUM_CONDS))),
]
