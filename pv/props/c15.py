# -*- coding: utf-8 -*-
"""
C15 - tree flatten / rebuild are inverse; tree_update (and Dict + dict) is a non-destructive deep merge; table_to_tree / tree_to_table inverse.
"""
from collections import Counter

from hypothesis import strategies as st

from pv.core import Sub, Violation, call, check, short

ASSUMPTIONS = [
    'trees are dict / Dict / dictattr nodes with 1-3 string keys, leaves None / ints / strings / lists (of ints, of key-like strings, nested), depth <= 4 (a few percent: chains to depth 8 and '
    'branches of 60-100 keys); flatten/rebuild only on trees without empty branches; '
    'in the merge check a quarter of the t trees carry empty branches (u\'s branch then merges into the empty one; an empty branch of u contributes nothing)',
    'keys come from one pool per case: a-d, numeric-looking strings (1, 10, 2, 01) or structured strings (a, a.b, ab, the empty string); a path holding a key with a "." is looked up by tuple / list '
    'only (the dotted spelling of such a path is ambiguous by construction, not a defect)',
    'results are compared structurally with == on the plain-dict image (the statement does not fix which dict class new branches get, nor whether untouched branches of the result are fresh objects)',
    'ignore lists are [None], [None, 0], [0], ["s"], [[]] or ["s", None]; an ignored leaf still creates keys that did not exist (documented in items_to_tree)',
    'one branch OBJECT may hang at two places of t, or in u and in t, or be u itself (the statement speaks of values; every occurrence counts as its own branch); such cases are never edited in place by the harness',
    'several calls on the same objects (session, repeated table calls): every call is judged by the single-call oracle on the ORIGINAL content of the operands, the ignore list and the rows; '
    'an earlier result must still equal its merge after later calls (it is what the caller holds)',
    'in-place edits between two flatten passes are made with dict.__setitem__ / dict.__delitem__ (plain python, not pyg_base) and keep every branch non-empty',
    'table<->tree: wildcard names are distinct, key wildcards bind strings, the last pattern element is a wildcard bound to a scalar / list leaf or a constant leaf; rows have unique paths; '
    'leaf=True and base=dict/Dict/dictattr are passed in part of the cases (on such trees they do not change what the statement demands)',
    'optional parameters written out with the value their signature declares (types=None / ignore=None / tree=None / raise_if_duplicate=True for the flatten functions, types=(dict, Dict, dictattr) and ignore=None '
    'for tree_update, base=dictattr / ignore=None / types=None for table_to_tree, leaf=False for tree_to_table), by keyword or positionally, are the same call as the one the statement names; so is '
    'types=(dict, Dict, dictattr) handed to tree_items / tree_keys / tree_values / items_to_tree and ignore=[] (what None is normalised to)',
    'NOT generated: tree_update(t, u, types=None), i.e. the default of tree_items / items_to_tree handed on to tree_update: as_tuple(None) is () and only type(u) is then a branch class, so Dict / dictattr '
    'branches inside a dict update are hung as leaves; the statement does not speak of types at all, so this is recorded as behaviour it does not fix, not as a defect',
    'an in-place edit between two calls of a session or of a repeated table call (classes operand_edited_in_place_between_calls, cell_edited_in_place_between_calls) is a plain dict / list write by the caller that '
    'replaces, adds or deletes one entry and never mutates a leaf object; later calls are judged by the content at the time of the call; results made BEFORE a tree was edited are no longer inspected or reused '
    '(the statement does not say whether a result shares untouched branches with its operands); the first tree / rows of a table case are still inspected (they hold keys and leaf values, not the rows); '
    'a tree leaf is overwritten only under patterns that end in a wildcard (under a constant leaf the edited tree would no longer be the image of a table)',
    'classes 21, 22, 24, 25, 27 of the brief are outside the quantifier (no stamps, no tabulated domain - tree_getitem is only claimed for listed paths -, patterns are strings, no arrays, no float leaves); '
    'class 23: the paths of a dict u are distinct and none is the source of another, crossing branch objects between t and u is the existing u_holds / u_is class',
    'branches whose class DERIVES from dict / Dict / dictattr (one kind per case: collections.OrderedDict, class Config(Dict), class Section(dictattr), class MyDict(dict)) occur in a share of the flatten and merge cases, '
    'below the root of t and u and, in the merge, also as the root of t or of u. The library flattens with type(x) in types and copies / walks down with isinstance, so whether such a node counts as a branch (merged into, '
    'flattened) or as a leaf (hung / listed as a whole) is NOT fixed by the statement: for the VALUE of a merge each of the four readings (t side / u side, branch / leaf) is accepted, and tree_items may list such a node either way. '
    'What is demanded on these trees is what holds under every reading: neither t nor u is modified at any depth (structure, classes and identity of every node), tree_update(t, t) == t, tree_update(t, {}) == t, '
    'tree_keys / tree_values follow the SAME reading as tree_items, items_to_tree(tree_items(t)) == t, tree_getitem returns what tree_items lists, flattening leaves t alone. '
    'The root of a flattened tree is always dict / Dict / dictattr (a root of another class is one leaf for tree_items and has no path); the session sub-check keeps to the three classes '
    '(the reading taken by an earlier result would have to be guessed)',
]

_KEYS = ['a', 'b', 'c', 'd']
_POOLS = {'abc': _KEYS, 'num': ['1', '10', '2', '01'], 'struct': ['a', 'a.b', 'ab', '']}
_pool = st.sampled_from(['abc'] * 16 + ['num', 'num', 'struct', 'struct'])
_lists = st.one_of(st.lists(st.integers(0, 2), max_size=2), st.lists(st.integers(0, 2), max_size=2), st.lists(st.integers(0, 2), max_size=2),
                   st.sampled_from([['a', 'b'], ['a'], ['1', '10'], [[0], [1]], [[]], ['s', 0]]))
_leafv = st.one_of(st.none(), st.integers(0, 3), st.sampled_from(['s', 't', 's', 't', '']), _lists.map(lambda v: ['lst', v]))
_btype = st.sampled_from(['dict', 'dict', 'Dict', 'dictattr'])
_IGNORES = [None, None, None, None, None, None, [None], [None], [None], [None, 0], [None, 0], [None, 0], [0], ['s'], [[]], ['s', None]]
_IGNORES_M = _IGNORES + [None, [], ['', None]]      # the single-call merge also gets the empty ignore list (what None is normalised to) and one that names the empty string
_DFLT = ['omit'] * 5 + ['kw', 'pos', 'sibling']     # how the optional parameters are written: left out / their own defaults by keyword / positionally / the sibling API's default handed on


@st.composite
def _tree(draw, d, keys=_KEYS):
    if d == 0:
        return ['leaf', draw(_leafv)]
    n = draw(st.integers(1, 3))
    ks = draw(st.permutations(keys))[:n]
    kids = [draw(_tree(d - 1, keys))] + [draw(_tree(draw(st.integers(0, d - 1)), keys)) for _ in range(n - 1)]
    pos = draw(st.integers(0, n - 1))
    kids[0], kids[pos] = kids[pos], kids[0]
    return [draw(_btype), [[k, v] for k, v in zip(ks, kids)]]


def _t_of(keys):
    return st.sampled_from([1, 1, 2, 2, 3, 3, 4]).flatmap(lambda d: _tree(d, keys))


_t = _t_of(_KEYS)


def _cp(v):
    return [_cp(x) for x in v] if isinstance(v, list) else v


def _leaf(v):
    """leaf spec -> a fresh leaf object (lists are tagged ['lst', [...]] and copied to any depth)"""
    return _cp(v[1]) if isinstance(v, list) else v


_SUBKINDS = ['OrderedDict', 'Config', 'Section', 'MyDict']      # classes that DERIVE from the branch classes: OrderedDict(dict), Config(Dict), Section(dictattr), MyDict(dict)
_subkind = st.sampled_from(_SUBKINDS)
_CLS = {}


def _cls(name):
    if name not in _CLS:
        import collections
        import pyg_base
        _CLS.update(dict=dict, Dict=pyg_base.Dict, dictattr=pyg_base.dictattr, OrderedDict=collections.OrderedDict, Config=type('Config', (pyg_base.Dict,), {}),
                    Section=type('Section', (pyg_base.dictattr,), {}), MyDict=type('MyDict', (dict,), {}))
    return _CLS[name]


def build(s):
    if s[0] == 'leaf':
        return _leaf(s[1])
    d = {k: build(x) for k, x in s[1]}
    if s[0] == 'dict':
        return d
    return _cls(s[0])(d)


class _SubM(dict):
    """model image of a branch whose class derives from the branch classes (equal to the plain dict of the same content)"""


def _retype(draw, s, kind, one_in=2, root=False, path=()):
    """the tree spec s with the class of its branches below the root (one in `one_in` of them) replaced by the subclass kind; the root too if asked"""
    if s[0] == 'leaf':
        return s
    kids = [[k, _retype(draw, v, kind, one_in, root, path + (k,))] for k, v in s[1]]
    return [kind if (root and not path) or (path and draw(st.integers(1, one_in)) == 1) else s[0], kids]


def _kind_paths(s, prefix=()):
    """paths of the branches below the root whose class is a derived one"""
    out = []
    if s[0] != 'leaf':
        for k, v in s[1]:
            if v[0] in _SUBKINDS:
                out.append(list(prefix + (k,)))
            out.extend(_kind_paths(v, prefix + (k,)))
    return out


def _graft(draw, u, path, keys, top=True):
    """u with branches of the three exact classes down `path` and at least one leaf in the branch at its end (what u holds on the way is kept where it is such a branch)"""
    base = u if u[0] != 'leaf' and (top or u[0] not in _SUBKINDS) else [draw(_btype), []]
    if not path:
        return base if _spec_has_leaf(base) else _put(base, draw(st.sampled_from(keys)), ['leaf', draw(_leafv)])
    child = dict((k, v) for k, v in base[1]).get(path[0], ['leaf', None])
    return _put(base, path[0], _graft(draw, child, path[1:], keys, False))


def _sub_below_root(s, top=True):
    return s[0] != 'leaf' and ((not top and s[0] in _SUBKINDS) or any(_sub_below_root(v, False) for _, v in s[1]))


def _spec_has_leaf(s):
    return s[0] == 'leaf' or any(_spec_has_leaf(v) for _, v in s[1])


def _writes_inside_sub(t, u, top=True):
    """t holds, below its root, a branch of a derived class at a path where u (through branches of the three exact classes) holds a branch with a leaf in it: the merge walks into t's branch and writes there"""
    if t[0] == 'leaf' or u[0] == 'leaf' or (not top and u[0] in _SUBKINDS) or not _spec_has_leaf(u):
        return False
    if not top and t[0] in _SUBKINDS:
        return True
    tk = dict((k, v) for k, v in t[1])
    return any(k in tk and _writes_inside_sub(tk[k], v, False) for k, v in u[1])


def plain(x):
    """plain-dict image of a real tree"""
    if isinstance(x, dict):
        return {k: plain(v) for k, v in x.items()}
    return x


def model(s, mark=False):
    """plain-dict image straight from the spec (independent of pyg_base); mark: branches of a derived class become _SubM dicts (same content, recognisable)"""
    if s[0] == 'leaf':
        return _leaf(s[1])
    d = {k: model(x, mark) for k, x in s[1]}
    return _SubM(d) if mark and s[0] in _SUBKINDS else d


def m_items(m, prefix=(), leafy=False):
    """leafy: the reading in which a branch of a derived class (below the root) is listed as one leaf"""
    if isinstance(m, dict) and not (leafy and prefix and type(m) is _SubM):
        out = []
        for k, v in m.items():
            out.extend(m_items(v, prefix + (k,), leafy))
        return out
    return [prefix + (m,)]


def snapshot(x):
    """structure + identity of every branch node and of every leaf object"""
    if isinstance(x, dict):
        return (id(x), type(x), [(k, snapshot(v)) for k, v in x.items()])
    return (id(x), type(x), repr(x))


def depth(s):
    return 0 if s[0] == 'leaf' else 1 + max([depth(v) for _, v in s[1]] or [0])


def _keys_of(s, acc=None):
    acc = set() if acc is None else acc
    if s[0] != 'leaf':
        for k, v in s[1]:
            acc.add(k)
            _keys_of(v, acc)
    return acc


def _key_classes(*specs):
    ks = set()
    for s in specs:
        _keys_of(s, ks)
    ks = set(k for k in ks if not k.startswith('w') and k != 'zz')
    cls = []
    if ks and all(k.isdigit() for k in ks):
        cls.append('numeric_string_keys')
    if any('.' in k or k == '' for k in ks):
        cls.append('structured_keys')
    return cls


# ----------------------------------------------------------------------------- one branch object at several places

def _branch_paths(s, prefix=()):
    """paths of the proper sub-branches of a tree spec"""
    out = []
    if s[0] != 'leaf':
        for k, v in s[1]:
            if v[0] != 'leaf':
                out.append(list(prefix + (k,)))
                out.extend(_branch_paths(v, prefix + (k,)))
    return out


def _sub(s, path):
    for k in path:
        s = dict((kk, v) for kk, v in s[1])[k]
    return s


def _put(s, k, v):
    """the branch spec s with child k set to v (replaced in place of order, or appended)"""
    kids = [[kk, (v if kk == k else vv)] for kk, vv in s[1]]
    if k not in [kk for kk, _ in s[1]]:
        kids.append([k, v])
    return [s[0], kids]


def _node(root, path):
    for k in path:
        root = dict.__getitem__(root, k)
    return root


def _apply_alias(objs, alias, side):
    """makes the object at (side, dst path) THE object at (src side, src path); the generator has already made the two spec sub-trees equal, so the models need not know"""
    for dside, dpath, sside, spath in alias:
        if dside != side:
            continue
        src = _node(objs[sside], spath)
        if not dpath:
            objs[dside] = src
        else:
            dict.__setitem__(_node(objs[dside], dpath[:-1]), dpath[-1], src)


def _twice(draw, t, keys):
    """t with one of its sub-branches hung a second time under another top-level key -> (t, alias) or (t, [])"""
    paths = _branch_paths(t)
    if not paths:
        return t, []
    p = draw(st.sampled_from(paths))
    k = draw(st.sampled_from([k for k in keys if k != p[0]]))
    return _put(t, k, _cp(_sub(t, p))), [['t', [k], 't', p]]


# ----------------------------------------------------------------------------- flatten / rebuild

@st.composite
def _flatten_case(draw):
    pool = draw(_pool)
    keys = _POOLS[pool]
    t = draw(_t_of(keys))
    shape = draw(st.sampled_from(['plain'] * 14 + ['wide', 'deep']))
    if shape == 'wide':
        t = _widen(draw, t)
    elif shape == 'deep':
        for _ in range(draw(st.integers(1, 4))):
            t = [draw(_btype), [[draw(st.sampled_from(keys)), t]]]
    sub = draw(_subkind) if draw(st.integers(0, 8)) == 0 else None
    if sub:     # below the root, half of the branches are of a class that derives from dict / Dict / dictattr (the root keeps its class: a root of another class is a single leaf for tree_items)
        t = _retype(draw, t, sub)
    alias, edit = [], None
    how = draw(st.sampled_from(['none', 'none', 'none', 'edit', 'edit', 'twice']))
    if how == 'twice':
        t, alias = _twice(draw, t, keys)
    elif how == 'edit':
        edit = dict(at=draw(st.integers(0, 200)), op=draw(st.sampled_from(['set', 'add', 'del', 'graft'])), v=draw(_leafv))
    return dict(t=t, alias=alias, edit=edit, again=draw(st.booleans()), dflt=draw(st.sampled_from(_DFLT)), sub=sub)


def _flatten_calls(dflt):
    """the four flatten / rebuild calls with the optional parameters left out, or written out with the values their signatures declare (by keyword, positionally), or with
    types = (dict, Dict, dictattr), the default of the sibling tree_update, handed on: all of these are the call the statement speaks of"""
    from pyg_base import tree_items, tree_keys, tree_values, items_to_tree, Dict, dictattr
    if dflt == 'kw':
        return (lambda t: tree_items(t, types=None), lambda t: tree_keys(t, types=None), lambda t: tree_values(t, types=None),
                lambda i: items_to_tree(i, tree=None, raise_if_duplicate=True, ignore=None, types=None), ' [own defaults by keyword]')
    if dflt == 'pos':
        return (lambda t: tree_items(t, None), lambda t: tree_keys(t, None), lambda t: tree_values(t, None), lambda i: items_to_tree(i, None, True, None, None), ' [own defaults positionally]')
    if dflt == 'sibling':
        ty = (dict, Dict, dictattr)
        return (lambda t: tree_items(t, ty), lambda t: tree_keys(t, ty), lambda t: tree_values(t, ty), lambda i: items_to_tree(i, types=ty), ' [types = (dict, Dict, dictattr)]')
    return tree_items, tree_keys, tree_values, items_to_tree, ''


def _flatten_pass(t, m, again, tag='', dflt=None):
    from pyg_base import tree_getitem
    tree_items, tree_keys, tree_values, items_to_tree, dtag = _flatten_calls(dflt)
    tag = tag + dtag
    snap = snapshot(t)
    items = call('tree_items(%s)%s' % (short(t, 150), tag), tree_items, t)
    exp = m_items(m)
    exp_leafy = m_items(m, leafy=True)      # differs only when branches of a derived class occur: tree_items may list them as leaves; tree_keys / tree_values must then do the same
    two = exp_leafy != exp
    if two and list(items) == exp_leafy:
        exp = exp_leafy
    check(list(items) == exp, 'tree_items(%s)%s = %s, expected the paths %s%s', t, tag, items, exp, '' if not two else ' or, with the branches of a derived class as leaves, %s' % (exp_leafy,))
    keys = call('tree_keys', tree_keys, t)
    check(list(keys) == [i[:-1] for i in exp], 'tree_keys(%s)%s = %s, expected %s', t, tag, keys, [i[:-1] for i in exp])
    vals = call('tree_values', tree_values, t)
    check(list(vals) == [i[-1] for i in exp], 'tree_values(%s)%s = %s, expected %s', t, tag, vals, [i[-1] for i in exp])
    back = call('items_to_tree(tree_items(t))', items_to_tree, items)
    check(plain(back) == m, 'items_to_tree(tree_items(%s))%s = %s', t, tag, back)
    if again:       # the caller's items list handed over a second time (and with the duplicate test switched off: the paths are unique anyway)
        check(list(items) == exp, 'items_to_tree changed the list of items it was given: now %s, was %s', items, exp)
        from pyg_base import items_to_tree as i2t
        back2 = call('items_to_tree(items, raise_if_duplicate = False), same items object', lambda: i2t(items, raise_if_duplicate=False))
        check(plain(back2) == m, 'items_to_tree(tree_items(%s), raise_if_duplicate = False)%s = %s on the second use of the items', t, tag, back2)
        check(plain(back) == m, 'the first rebuilt tree changed when the items were used again: now %s, expected %s', back, m)
        items2 = call('tree_items(t) again', tree_items, t)
        check(list(items2) == exp, 'a second tree_items(%s)%s = %s, expected the paths %s', t, tag, items2, exp)
    for item in exp:
        path, leaf = item[:-1], item[-1]
        forms = [('tuple', tuple(path)), ('list', list(path))]
        if not any('.' in k for k in path):
            forms.append(('dotted', '.'.join(path)))
        for form, p in forms:
            got = call('tree_getitem(%s, %r)' % (short(t, 100), p), tree_getitem, t, p)
            if isinstance(leaf, dict):      # a branch of a derived class that tree_items listed as a leaf
                check(isinstance(got, dict) and type(got) is type(_node(t, path)) and plain(got) == leaf, 'tree_getitem(%s, %r)%s = %s, expected what tree_items lists there: %s', t, p, tag, got, leaf)
                continue
            check(got == leaf and type(got) is type(leaf), 'tree_getitem(%s, %r)%s = %s, expected the leaf %s', t, p, tag, got, leaf)
    check(snapshot(t) == snap, 'flattening modified the tree%s: now %s', tag, t)
    return exp


def _edit(node, k, op, v):
    """the caller's own in-place edit of one branch (a dict or a dict subclass), in plain python"""
    if op == 'del' and len(node) < 2:
        op = 'set'
    if op == 'set':
        dict.__setitem__(node, k, v)
    elif op == 'add':
        dict.__setitem__(node, 'zz', v)
    elif op == 'graft':
        dict.__setitem__(node, k, {'zz': v})
    else:
        dict.__delitem__(node, k)
    return op


def run_flatten(spec):
    if isinstance(spec, list):      # the spec format of earlier replay files: the tree alone
        spec = dict(t=spec, alias=[], edit=None, again=False, dflt='omit')
    ts = spec['t']
    objs = dict(t=build(ts))
    _apply_alias(objs, spec.get('alias') or [], 't')
    t, m = objs['t'], model(ts, mark=bool(spec.get('sub')))
    dflt = spec.get('dflt') or 'omit'
    exp = _flatten_pass(t, m, spec.get('again'), dflt=dflt)
    d = depth(ts)
    cls = ['depth=%i' % d, 'leaves=%i' % min(len(exp), 6)] + _key_classes(ts)
    if len(m) >= 60:
        cls.append('wide_branch_60+')
    if spec.get('alias'):
        cls.append('one_branch_object_at_two_places')
    if spec.get('again'):
        cls.append('same_items_object_twice')
    if dflt in ('kw', 'pos'):
        cls += ['own_defaults_passed_explicitly', 'own_defaults_passed_' + dflt]
    elif dflt == 'sibling':
        cls.append('types=default_of_tree_update')
    if any(i[-1] == '' and isinstance(i[-1], str) for i in exp):
        cls.append('empty_string_leaf')
    if spec.get('sub') and _sub_below_root(ts):
        cls += ['branch_of_a_derived_class_below_the_root', 'derived_class=' + spec['sub']]
    e = spec.get('edit')
    if e:
        path = exp[e['at'] % len(exp)][:-1]
        v = ['leaf', e['v']]
        op = _edit(_node(t, path[:-1]), path[-1], e['op'], _leaf(v[1]))
        mp = m
        for k in path[:-1]:
            mp = mp[k]
        _edit(mp, path[-1], e['op'], _leaf(v[1]))
        _flatten_pass(t, m, spec.get('again'), ' (after the caller edited the tree in place: %s at %s)' % (op, list(path)), dflt=dflt)
        cls += ['flattened_again_after_in_place_edit', 'edit=' + op]
    return dict(nt=d >= 2, cls=cls)


# ----------------------------------------------------------------------------- merge

def _derive(draw, s, d=0, keys=_KEYS):
    """u derived from t: per key keep / delete / replace (leaf<->branch) / recurse; plus new keys"""
    if s[0] == 'leaf':
        return draw(st.one_of(st.just(s), _leafv.map(lambda v: ['leaf', v]), _tree(1, keys)))
    out = []
    for k, v in s[1]:
        how = draw(st.sampled_from(['keep', 'drop', 'drop', 'recurse', 'recurse', 'recurse', 'leaf', 'branch']))
        if how == 'keep':
            out.append([k, v])
        elif how == 'recurse':
            out.append([k, _derive(draw, v, d + 1, keys)])
        elif how == 'leaf':
            out.append([k, ['leaf', draw(_leafv)]])
        elif how == 'branch':
            out.append([k, draw(_tree(draw(st.integers(1, 2)), keys))])
    for k in keys:
        if k not in [x[0] for x in s[1]] and draw(st.integers(0, 3)) == 0:
            out.append([k, draw(_tree(draw(st.integers(0, 2)), keys))])
    if not out:
        k = draw(st.sampled_from(keys))
        out.append([k, draw(_tree(draw(st.integers(0, 1)), keys))])
    return [draw(_btype), out]


def _with_empty(draw, s):
    """replaces some leaves of t by empty branches (the merge clauses of the statement still read unambiguously: u's branch merges into the empty one)"""
    if s[0] == 'leaf':
        return [draw(_btype), []] if draw(st.integers(0, 5)) == 0 else s
    return [s[0], [[k, _with_empty(draw, v)] for k, v in s[1]]]


def _widen(draw, s):
    """adds 60-100 extra leaf keys to the top branch of t (and later some of them to u): size-dependent paths"""
    n = draw(st.sampled_from([60, 64, 100]))
    return [s[0], s[1] + [['w%03i' % i, ['leaf', i % 3]] for i in range(n)]]


@st.composite
def _merge_case(draw):
    keys = _POOLS[draw(_pool)]
    t = draw(_t_of(keys))
    wide = draw(st.integers(0, 24)) == 0
    if wide:
        t = _widen(draw, t)
    if draw(st.integers(0, 3)) == 0:
        t = _with_empty(draw, t)
    sub = draw(_subkind) if draw(st.integers(0, 5)) == 0 else None
    if sub:     # half of the branches below the root of t (one time in four the root as well) are of a class that DERIVES from dict / Dict / dictattr; what is derived or cut out of t below inherits them:
        # u recurses into such a branch with a branch of the exact classes (the merge then writes inside it), keeps it as it is, or IS such a branch object of t
        t = _retype(draw, t, sub, 2, root=draw(st.integers(0, 3)) == 0)
    share = draw(st.sampled_from(['no'] * 13 + ['t_twice', 'u_holds', 'u_is'])) if not wide else 'no'
    alias = []
    if share == 't_twice':
        t, alias = _twice(draw, t, keys)
    kind = draw(st.sampled_from(['derived', 'derived', 'derived', 'independent', 'self', 'empty']))
    if share in ('u_holds', 'u_is') and _branch_paths(t):
        kind = 'derived'
    if kind == 'derived':
        u = _derive(draw, t, 0, keys)
    elif kind == 'independent':
        u = draw(_t_of(keys))
    elif kind == 'self':
        u = t
    else:
        u = [draw(_btype), []]
    if kind in ('derived', 'independent') and draw(st.integers(0, 3)) == 0:
        u = _with_empty(draw, u)       # an empty branch inside u contributes nothing: it must not wipe the branch or leaf t has at that path
    if sub and kind in ('derived', 'independent') and draw(st.integers(0, 2)) == 0:
        u = _retype(draw, u, sub, 3, root=draw(st.integers(0, 2)) == 0)      # u's own branches (one in three), and one time in three its root, of the derived class as well
    if sub and kind in ('derived', 'independent') and _kind_paths(t) and not _writes_inside_sub(t, u) and draw(st.booleans()):
        u = _graft(draw, u, draw(st.sampled_from(_kind_paths(t))), keys)     # by construction: u reaches, through plain branches, into a branch of t that is of the derived class and has a leaf to write there
    if wide and u[1] and kind not in ('self', 'empty'):
        u = [u[0], u[1] + [['w%03i' % i, ['leaf', 7]] for i in range(0, 60, 7)] + [['w500', ['leaf', 1]]]]
    paths = _branch_paths(t)
    if share == 'u_holds' and paths:        # u carries, under some key, a branch object cut out of t
        p = draw(st.sampled_from(paths))
        k = draw(st.sampled_from(keys))
        u = _put(u, k, _cp(_sub(t, p)))
        alias = alias + [['u', [k], 't', p]]
    elif share == 'u_is' and paths:         # u IS a branch object of t
        p = draw(st.sampled_from(paths))
        u = _cp(_sub(t, p))
        kind = 'branch_of_t'
        alias = alias + [['u', [], 't', p]]
    ignore = draw(st.sampled_from(_IGNORES_M))
    via = draw(st.sampled_from(['tree_update', 'tree_update', 'add']))
    falsy = None
    if kind == 'derived' and not alias and not wide and draw(st.integers(0, 11)) == 0:
        # by construction: t holds a FALSY leaf (0, '', [], None) at a path where u holds a leaf the ignore list keeps out - "is there a value already" must not be a truth test
        falsy = dict(k=draw(st.sampled_from(keys)), tv=draw(st.sampled_from([0, '', ['lst', []], None, 0, ''])), deep=draw(st.booleans()))
        ignore = draw(st.sampled_from([[None], [None, 0], [0], ['s'], ['s', None], ['', None], [[]]]))
        tvv = _leaf(falsy['tv'])
        uv = draw(st.sampled_from([i for i in ignore if not (i == tvv and type(i) is type(tvv))] or ignore))
        uv = ['lst', uv] if isinstance(uv, list) else uv
        k = falsy['k']
        if falsy['deep'] and t[1] and u[1]:        # one level down, under a key both sides have as (or now get as) a branch
            bk = t[1][0][0]
            tb = _sub(t, [bk]) if _sub(t, [bk])[0] != 'leaf' else [draw(_btype), []]
            ub = dict((kk, v) for kk, v in u[1]).get(bk)
            ub = ub if ub is not None and ub[0] != 'leaf' else [draw(_btype), []]
            t, u = _put(t, bk, _put(tb, k, ['leaf', falsy['tv']])), _put(u, bk, _put(ub, k, ['leaf', uv]))
        else:
            t, u = _put(t, k, ['leaf', falsy['tv']]), _put(u, k, ['leaf', uv])
    if sub and ignore is None and draw(st.booleans()):
        via = 'add'       # Config(..) + dict, Dict(OrderedDict below) + dict: of the cases with derived classes and no ignore list, two in three go through + (the ignore lists keep their share)
    return dict(t=t, u=u, kind=kind, alias=alias, ignore=ignore, via=via, dflt=draw(st.sampled_from(_DFLT[:-1])), sub=sub)


def _ign(uv, ignore):
    return any(uv is i or (type(uv) is type(i) and uv == i) or (isinstance(uv, (int, float)) and isinstance(i, (int, float)) and not isinstance(uv, bool) and not isinstance(i, bool) and uv == i)
               for i in ignore)


def m_merge(t, u, ignore, tl=False, ul=False):
    """the statement's recursive merge on plain dicts. tl / ul: the reading in which a node of a derived class (_SubM) below the root of t / of u is a leaf rather than a branch
    (only trees that hold such nodes are judged under more than one reading)"""
    res = {k: m_copy(v) for k, v in t.items()}
    for k, uv in u.items():
        if isinstance(uv, dict) and not (ul and type(uv) is _SubM):
            if not _has_leaf(uv, ul):          # u contributes through its leaves only: a branch holding nothing but empty branches adds nothing
                continue
            tv = res.get(k)
            if isinstance(tv, dict) and not (tl and type(tv) is _SubM):
                res[k] = m_merge(tv, uv, ignore, tl, ul)
            else:
                res[k] = m_merge({}, uv, ignore, tl, ul)
        else:
            if k in res and _ign(uv, ignore):
                continue
            res[k] = uv
    return res


def _has_leaf(m, ul=False):
    return any(_has_leaf(v, ul) if isinstance(v, dict) and not (ul and type(v) is _SubM) else True for v in m.values())


def m_copy(m):
    return type(m)((k, m_copy(v)) for k, v in m.items()) if isinstance(m, dict) else m


def _conflicts(t, u, d=1):
    """(shared branch at depth>=2 with differing content, leaf-vs-branch conflict)"""
    shared, lb = False, False
    for k, uv in u.items():
        if k in t:
            tv = t[k]
            if isinstance(tv, dict) != isinstance(uv, dict):
                lb = True
            elif isinstance(tv, dict):
                if tv != uv:
                    shared = True
                s2, l2 = _conflicts(tv, uv, d + 1)
                shared, lb = shared or s2, lb or l2
    return shared, lb


def _at(m, path):
    for k in path:
        if not isinstance(m, dict) or k not in m:
            return ('absent',)
        m = m[k]
    return m


def _ignored_leaf(t, u, ignore, falsy=False):
    """u holds, at a path where t has a leaf too (falsy: a leaf that is 0 / '' / [] / None), a leaf that the ignore list keeps out"""
    for k, uv in u.items():
        if isinstance(uv, dict):
            if isinstance(t.get(k), dict) and _ignored_leaf(t[k], uv, ignore, falsy):
                return True
        elif k in t and _ign(uv, ignore) and not (falsy and (isinstance(t[k], dict) or t[k] or (t[k] is uv or (type(t[k]) is type(uv) and t[k] == uv)))):
            return True
    return False


def run_merge(spec):
    from pyg_base import tree_update, Dict
    ts, us = spec['t'], spec['u']
    alias = spec.get('alias') or []
    objs = dict(t=build(ts))
    _apply_alias(objs, alias, 't')
    objs['u'] = build(us) if spec['kind'] != 'self' else objs['t']
    _apply_alias(objs, alias, 'u')
    t, u = objs['t'], objs['u']
    sub = spec.get('sub')
    mt, mu = model(ts, bool(sub)), model(us, bool(sub))
    ignore = spec['ignore']
    via = spec['via']
    snap_t, snap_u = snapshot(t), snapshot(u)
    if via == 'add' and ignore is None:
        tt = Dict(t) if not isinstance(t, Dict) else t      # a Config(Dict) is added as it is
        snap_tt = snapshot(tt)
        what = 'Dict(%s) + %s' % (short(t, 150), short(u, 150))
        res = call(what, lambda: tt + u)
        check(snapshot(tt) == snap_tt, '%s modified its left operand: now %s', what, tt)
    else:
        via = 'tree_update'
        what = 'tree_update(%s, %s%s)' % (short(t, 150), short(u, 150), '' if ignore is None else ', ignore=%s' % ignore)
        ig = _cp(ignore)
        dflt = spec.get('dflt') or 'omit'
        if dflt == 'omit':
            res = call(what, lambda: tree_update(t, u) if ignore is None else tree_update(t, u, ignore=ig))
        else:       # the declared defaults written out: types = (dict, Dict, dictattr), ignore = None; by keyword or positionally
            from pyg_base import dictattr
            ty = (dict, Dict, dictattr)
            what = 'tree_update(%s, %s, %s(dict, Dict, dictattr), %s%s)' % (short(t, 150), short(u, 150), 'types = ' if dflt == 'kw' else '', 'ignore = ' if dflt == 'kw' else '', ignore)
            res = call(what, (lambda: tree_update(t, u, types=ty, ignore=ig)) if dflt == 'kw' else (lambda: tree_update(t, u, ty, ig)))
            check(ig == ignore, '%s changed the ignore list it was given: now %s', what, ig)
    if alias:
        what += ' [one branch object at several places: %s]' % alias
    exp = m_merge(mt, mu, ignore or [])
    check(isinstance(res, dict), '%s returned %s', what, type(res).__name__)
    if sub:     # nodes of a derived class: branch or leaf on either side is not fixed by the statement (see ASSUMPTIONS); the four readings give at most four merges, any of them is accepted
        exps = [exp] + [m_merge(mt, mu, ignore or [], tl, ul) for tl, ul in ((False, True), (True, False), (True, True))]
        if plain(res) != exp:
            exp = ([e for e in exps if plain(res) == e] or [exp])[0]
        check(plain(res) == exp, '%s = %s, the recursive merge is %s (with the nodes of class %s read as leaves on one or both sides: %s)', what, res, exps[0], sub, exps[1:])
    check(plain(res) == exp, '%s = %s, the recursive merge is %s', what, res, exp)
    check(snapshot(t) == snap_t, '%s modified t: now %s (was %s)', what, plain(t), mt)
    check(snapshot(u) == snap_u, '%s modified u: now %s (was %s)', what, plain(u), mu)
    check(res is not t, '%s returned t itself', what)
    shared, lb = _conflicts(mt, mu)
    cls = ['kind=' + spec['kind'], 'via=' + via, 'ignore=%s' % (ignore,)] + _key_classes(ts, us)
    if sub:
        st_, su_ = _sub_below_root(ts), _sub_below_root(us)
        cls += ['derived_class=' + sub] * bool(st_ or su_ or ts[0] == sub or us[0] == sub) + ['branch_of_a_derived_class_below_the_root_of_t'] * st_ + ['branch_of_a_derived_class_below_the_root_of_u'] * su_
        cls += ['root_of_t_of_a_derived_class'] * (ts[0] == sub) + ['root_of_u_of_a_derived_class'] * (us[0] == sub and spec['kind'] != 'self')
        if _writes_inside_sub(ts, us):
            cls += ['update_writes_inside_a_branch_of_a_derived_class_of_t', 'update_writes_inside_a_branch_of_a_derived_class_of_t,via=' + via]
    for a in alias:
        cls.append('one_branch_object_at_two_places_of_t' if a[0] == 't' else ('u_holds_a_branch_object_of_t' if a[1] else 'u_is_a_branch_object_of_t'))
        if a[0] == 't' and (_at(exp, a[1]) != _at(mt, a[1]) or _at(exp, a[3]) != _at(mt, a[3])):
            cls.append('update_writes_under_a_branch_object_that_occurs_twice')
    if via == 'tree_update' and (spec.get('dflt') or 'omit') != 'omit':
        cls += ['own_defaults_passed_explicitly', 'own_defaults_passed_' + spec['dflt']] + (['ignore=None_passed_explicitly'] if ignore is None else [])
    if any(i[-1] == '' and isinstance(i[-1], str) for i in m_items(mt) + m_items(mu)):
        cls.append('empty_string_leaf')
    if ignore and _ignored_leaf(mt, mu, ignore, falsy=True):
        cls.append('ignored_leaf_over_falsy_leaf_of_t')
    if ignore and _ignored_leaf(mt, mu, ignore):
        cls.append('ignored_leaf_kept_out')
        if ignore not in ([None], [None, 0]):
            cls.append('ignored_leaf_kept_out_by_a_str_or_list_or_0_only_entry')

    def _has_empty(m):
        return isinstance(m, dict) and (not m or any(_has_empty(v) for v in m.values()))
    if len(mt) >= 60:
        cls.append('wide_branch_60+')

    def _empty_over_content(t, u):
        for k, uv in u.items():
            if isinstance(uv, dict):
                if not _has_leaf(uv) and k in t and t[k] not in ({}, None):
                    return True
                if uv and isinstance(t.get(k), dict) and _empty_over_content(t[k], uv):
                    return True
        return False
    if _empty_over_content(mt, mu):
        cls.append('empty_branch_of_u_over_content_of_t')
    if any(_has_empty(v) for v in mt.values()):
        cls.append('empty_branch_in_t')
        if any(isinstance(mt.get(k), dict) and not mt[k] and isinstance(mu.get(k), dict) and mu[k] for k in mu):
            cls.append('u_branch_merges_into_empty_branch_of_t')
    if shared:
        cls.append('shared_branch_differs')
    if lb:
        cls.append('leaf_vs_branch')
    deep_shared = any(isinstance(mt.get(k), dict) and isinstance(mu.get(k), dict) and mt[k] != mu[k] for k in mu)
    if deep_shared:
        cls.append('nested_branch_merged')
    return dict(nt=bool(deep_shared or lb), cls=cls)


# ----------------------------------------------------------------------------- several merges on the same objects

@st.composite
def _session_case(draw):
    """three trees built ONCE (t0, and two updates derived from it or from one another), one ignore list object; 2-4 merges whose operands are those same objects or earlier results"""
    keys = _POOLS[draw(_pool)]
    t0 = draw(_t_of(keys))
    if draw(st.integers(0, 3)) == 0:
        t0 = _with_empty(draw, t0)
    t1 = _derive(draw, t0, 0, keys)
    t2 = _derive(draw, draw(st.sampled_from([t0, t0, t1])), 0, keys)
    if draw(st.integers(0, 3)) == 0:
        t2 = _with_empty(draw, t2)
    ignore = draw(st.sampled_from(_IGNORES[4:]))
    calls = []
    for c in range(draw(st.integers(2, 4))):
        res = list(range(3, 3 + c))
        i = draw(st.sampled_from([0, 0, 0, 0, 1] + res))
        j = draw(st.sampled_from([1, 1, 2, 2, 0] + res))
        calls.append([i, j, draw(st.sampled_from(['tree_update', 'tree_update', 'add'])), draw(st.integers(0, 4)) > 0])
    edit = None
    if draw(st.integers(0, 5)) == 0:
        # between two calls the caller edits one of the three trees in place (plain dict operations); the calls that follow are judged by the content the tree has THEN
        # (a per-object memo of the flattened update or of the copied tree would be stale); results made before the edit are no longer used or re-inspected
        before = draw(st.integers(1, len(calls) - 1))
        edit = dict(before=before, obj=draw(st.sampled_from([0, 0, 1, 2])), at=draw(st.integers(0, 200)), op=draw(st.sampled_from(['set', 'add', 'del', 'graft'])), v=draw(_leafv))
        for c in range(before, len(calls)):
            calls[c][0], calls[c][1] = [x if x < 3 or x >= 3 + before else x % 3 for x in calls[c][:2]]
        c = calls[before]
        if edit['obj'] not in c[:2]:       # the first call after the edit uses the edited object, on the side it has been used on before where there is one
            earlier = [x[:2] for x in calls[:before]]
            side = 0 if (edit['obj'] == 0 or any(e[0] == edit['obj'] for e in earlier)) and not any(e[1] == edit['obj'] for e in earlier) else 1
            c[side] = edit['obj']
    return dict(trees=[t0, t1, t2], ignore=ignore, calls=calls, edit=edit)


def run_session(spec):
    from pyg_base import tree_update, Dict
    objs = [build(s) for s in spec['trees']]
    models = [model(s) for s in spec['trees']]
    ignore = spec['ignore']
    ig = _cp(ignore)                # ONE list object for the whole session
    wrapped = {}
    watched = [(('t%i' % i), o, snapshot(o)) for i, o in enumerate(objs)]
    results = []                    # (what, result object, expected merge)
    used, cls, note = [], set(), ''
    ed = spec.get('edit')
    for n_call, (i, j, via, use_ig) in enumerate(spec['calls']):
        if ed and n_call == ed['before']:
            o = ed['obj']
            paths = m_items(models[o])
            if paths:
                path = paths[ed['at'] % len(paths)][:-1]
                op = _edit(_node(objs[o], path[:-1]), path[-1], ed['op'], _leaf(ed['v']))
                _edit(_node(models[o], path[:-1]), path[-1], ed['op'], _leaf(ed['v']))
                # what was made before the edit may or may not share branches with the edited tree (the statement does not say): it is dropped from the watch lists
                wrapped = {}
                results = []
                watched = [(('t%i' % k), objs[k], snapshot(objs[k])) for k in range(3)]
                note = '; before this call the caller edited t%i in place: %s at %s' % (o, op, list(path))
                cls.add('operand_edited_in_place_between_calls')
                cls.add('edited_operand_had_been_' + ('both' if any(u[0] == o for u in used) and any(u[1] == o for u in used) else
                                                    'the_tree' if any(u[0] == o for u in used) else 'the_update' if any(u[1] == o for u in used) else 'unused'))
        use_ig = bool(use_ig and ignore)
        L, R = objs[i], objs[j]
        if via == 'add' and not use_ig:
            if type(L) is not Dict:
                if i not in wrapped:
                    wrapped[i] = Dict(L)
                    watched.append(('Dict(operand %i)' % i, wrapped[i], snapshot(wrapped[i])))
                L = wrapped[i]
            what = 'call %i of the session: Dict(%s) + %s' % (len(used) + 1, short(L, 120), short(R, 120))
            res = call(what, lambda: L + R)
        else:
            via = 'tree_update'
            what = 'call %i of the session: tree_update(%s, %s%s)' % (len(used) + 1, short(L, 120), short(R, 120), ', ignore=%s' % (ignore,) if use_ig else '')
            res = call(what, lambda: tree_update(L, R, ignore=ig) if use_ig else tree_update(L, R))
        exp = m_merge(models[i], models[j], ignore if use_ig else [])
        hist = '' if not used else ' (earlier calls on the same objects: %s%s)' % (used, note)
        check(isinstance(res, dict), '%s returned %s', what, type(res).__name__)
        check(plain(res) == exp, '%s = %s, the recursive merge is %s%s', what, res, exp, hist)
        check(ig == ignore, '%s changed the ignore list it was given: now %s, was %s', what, ig, ignore)
        for name, o, snap in watched:
            check(snapshot(o) == snap, '%s modified %s: now %s%s', what, name, plain(o), hist)
        for w, r, e in results:
            check(plain(r) == e, '%s changed the result of an earlier call (%s): now %s, it was the merge %s', what, w, r, e)
        check(res is not L and res is not objs[i], '%s returned its left operand itself', what)
        if any(u[0] == i and u[1] != j for u in used):
            cls.add('same_left_object_other_update')
        if any(u[0] == i and u[1] == j for u in used):
            cls.add('same_operands_again')
        if any(u[1] == j and u[0] != i for u in used):
            cls.add('same_update_object_other_tree')
        if i >= 3 or j >= 3:
            cls.add('earlier_result_as_operand')
        if use_ig and any(u[3] for u in used):
            cls.add('same_ignore_list_object_again')
        if not use_ig and ignore and any(u[3] for u in used):
            cls.add('call_without_ignore_after_call_with')
        if i == j:
            cls.add('tree_with_itself')
        used.append([i, j, via, use_ig])
        results.append((what, res, exp))
        watched.append(('the result of call %i' % len(used), res, snapshot(res)))
        objs.append(res)
        models.append(exp)
    nt = bool(cls & {'same_left_object_other_update', 'earlier_result_as_operand'})
    return dict(nt=nt, cls=['calls=%i' % len(used)] + sorted(cls) + _key_classes(*spec['trees']))


# ----------------------------------------------------------------------------- table <-> tree

@st.composite
def _table_case(draw):
    nw = draw(st.integers(1, 4))
    names = ['w%i' % i for i in range(nw)]
    parts, wi = [], 0
    # interleave constants and wildcards; the pattern ends with the last wildcard (leaf) or a constant leaf
    for i in range(nw):
        if draw(st.booleans()) or i == 0:
            parts.append(draw(st.sampled_from(['root', 'x', 'y'])))
        parts.append('%' + names[i])
    const_leaf = draw(st.integers(0, 3)) == 0
    if const_leaf:
        if draw(st.booleans()):
            parts.append(draw(st.sampled_from(['k', 'v'])))      # .../%w/k/m : a fixed key, then a fixed leaf
        parts.append(draw(st.sampled_from(['m', 'f'])))          # or .../%w/m : the wildcard is followed directly by the fixed leaf
    nrows = draw(st.integers(0, 5))
    keyv = st.sampled_from(draw(st.sampled_from([['p', 'q', 'r']] * 9 + [['1', '10', '2'], ['', 'p', 'q']])))     # one time in eleven the keys are numeric-looking strings, one in eleven the empty string is a key
    leafv = st.one_of(st.integers(0, 5), st.sampled_from(['L', 'M', 'L', 'M', '']), st.none(), st.lists(st.integers(0, 3), max_size=3))     # list leaves too: [], [5], [1, 2]
    rows, seen = [], set()
    for _ in range(nrows):
        if const_leaf:
            row = [draw(keyv) for _ in names]
            path = tuple(row)
        else:
            row = [draw(keyv) for _ in names[:-1]] + [draw(leafv)]
            path = tuple(row[:-1])
        if path in seen:
            continue
        seen.add(path)
        rows.append(row)
    n_eff = len(rows) if const_leaf or len(names) > 1 else min(len(rows), 1)
    if n_eff and not const_leaf and draw(st.integers(0, 7)) == 0:       # a leaf that is a list of exactly as many elements as the table has rows (what a column would look like)
        at = draw(st.integers(0, n_eff - 1))
        rows[at][-1] = draw(st.lists(st.integers(0, 3), min_size=n_eff, max_size=n_eff))
    return dict(pattern='/'.join(parts), names=names, rows=rows, const_leaf=const_leaf, as_table=draw(st.booleans()),
                leaf=draw(st.integers(0, 3)) == 0, base=draw(st.sampled_from([None, None, None, None, 'dictattr', 'dict', 'Dict'])), repeat=draw(st.integers(0, 2)) == 0,
                pos=draw(st.integers(0, 4)) == 0,      # the optional parameters written out positionally with the values the signatures declare (base = dictattr, ignore = None, types = None; leaf = False)
                edit=draw(st.one_of(st.none(), st.none(), st.fixed_dictionaries(dict(row=st.integers(0, 5), col=st.integers(0, 3))))))    # with repeat: a cell of the table, then a leaf of the tree, edited in place between the calls


def run_table(spec):
    import pyg_base
    from pyg_base import table_to_tree, tree_to_table, dictable
    pattern, names = spec['pattern'], spec['names']

    def mk():
        rs = [dict(zip(names, [_cp(v) for v in r])) for r in spec['rows']]
        return rs[:1] if not spec['const_leaf'] and len(names) == 1 else rs      # a pattern whose only wildcard is the leaf has one path
    rows, orig = mk(), mk()         # orig: the content of the rows as the caller wrote them, never handed to pyg_base
    table = dictable(rows) if spec['as_table'] and rows else rows
    leaf, base, repeat = bool(spec.get('leaf')), spec.get('base'), bool(spec.get('repeat'))
    kw = {} if base is None else dict(base=dict if base == 'dict' else getattr(pyg_base, base))
    lkw = dict(leaf=True) if leaf else {}
    opts = ''.join(', %s = %s' % (k, getattr(v, '__name__', v)) for k, v in kw.items())
    what = 'table_to_tree(None, %r, %s%s)' % (pattern, short(orig, 200), opts)

    def ttt(x):
        return 'tree_to_table(%s, %r%s)' % (x, pattern, ', leaf = True' if leaf else '')
    pos = bool(spec.get('pos'))
    if pos:
        what = 'table_to_tree(None, %r, %s, %s, None, None)' % (pattern, short(orig, 200), base or 'dictattr')
        bcls = kw.get('base', pyg_base.dictattr)

        def t2t(tb):
            return table_to_tree(None, pattern, tb, bcls, None, None)

        def t2tab(tr):
            return tree_to_table(tr, pattern, leaf)
    else:
        def t2t(tb):
            return table_to_tree(None, pattern, tb, **kw)

        def t2tab(tr):
            return tree_to_table(tr, pattern, **lkw)
    tree = call(what, lambda: t2t(table))
    back = call(ttt(short(tree, 200)), lambda: t2tab(tree))

    def ms(rs):
        return Counter(tuple(sorted((k, repr(v)) for k, v in r.items())) for r in rs)
    check(ms(back) == ms(orig), '%s = %s, rows were %s (tree %s)', ttt('table_to_tree(rows)'), back, orig, tree)
    # independent expectation of the tree itself
    exp = {}
    for r in orig:
        path = [r[p[1:]] if p.startswith('%') else p for p in pattern.split('/')]
        node = exp
        for k in path[:-2]:
            node = node.setdefault(k, {})
        node[path[-2]] = path[-1]
    check(plain(tree) == exp, '%s = %s, expected %s', what, tree, exp)
    # and the reverse direction on the tree produced that way
    again = call('table_to_tree(None, pattern, tree_to_table(tree, pattern))', lambda: t2t(back))
    check(plain(again) == plain(tree), 'table_to_tree(tree_to_table(tree)) = %s differs from the tree %s (pattern %r)', again, tree, pattern)
    if rows:
        d = call('dictable(tree, %r)' % pattern, dictable, tree, pattern)
        check(ms(list(d)) == ms(orig), 'dictable(%s, %r) = %s, expected the rows %s', tree, pattern, list(d), orig)
    e = spec.get('edit') if repeat and rows else None
    if e:           # class 28: between the two calls the caller writes ONE cell of the table in place (into the row dict, or into the column list the dictable holds), then one leaf of the tree
        r, name = e['row'] % len(rows), names[e['col'] % len(names)]
        leaf_col = not spec['const_leaf'] and name == names[-1]
        v = 'E' if leaf_col else 'zz'       # a key no other row has at that place: the paths stay unique
        if isinstance(table, list):
            dict.__setitem__(table[r], name, v)
        else:
            col = dict.__getitem__(table, name)
            if not isinstance(col, list):
                raise TypeError('the harness expects a dictable to hold its columns as lists, found %s' % type(col))
            col[r] = v
        orig2 = [dict(row) for row in orig]
        orig2[r][name] = v
        exp2 = {}
        for row in orig2:
            path = [row[p[1:]] if p.startswith('%') else p for p in pattern.split('/')]
            node = exp2
            for k in path[:-2]:
                node = node.setdefault(k, {})
            node[path[-2]] = path[-1]
        w2 = '%s called again on the same table object after the caller set %s = %r in row %i' % (what, name, v, r)
        tree2 = call(w2, lambda: t2t(table))
        check(plain(tree2) == exp2, '%s = %s, expected %s', w2, tree2, exp2)
        check(plain(tree) == exp, 'the tree built first changed afterwards: now %s, expected %s', tree, exp)
        check(ms(back) == ms(orig), 'the rows returned first changed afterwards: now %s, expected %s', back, orig)
        if not spec['const_leaf']:      # the tree built first: its leaf on the path of row r is overwritten in place (plain dict write); the pattern then reads the new leaf
            path = [orig[r][p[1:]] if p.startswith('%') else p for p in pattern.split('/')]
            dict.__setitem__(_node(tree, path[:-2]), path[-2], 'T')
            orig3 = [dict(row) for row in orig]
            orig3[r][names[-1]] = 'T'
            w3 = '%s called again on the same tree object after the caller set the leaf at %s to \'T\'' % (ttt(short(tree, 200)), path[:-1])
            back3 = call(w3, lambda: t2tab(tree))
            check(ms(back3) == ms(orig3), '%s = %s, expected the rows %s', w3, back3, orig3)
            check(ms(back) == ms(orig), 'the rows returned first changed afterwards: now %s, expected %s', back, orig)
    elif repeat:      # the same table object and the same tree object handed over a second time: judged by what the caller wrote into them
        tree2 = call(what + ' called a second time on the same table object', lambda: t2t(table))
        check(plain(tree2) == exp, 'the second %s on the same table object = %s, expected %s', what, tree2, exp)
        back2 = call(ttt(short(tree, 200)) + ' called a second time on the same tree object', lambda: t2tab(tree))
        check(ms(back2) == ms(orig), 'the second %s on the same tree object = %s, rows were %s', ttt(short(tree, 200)), back2, orig)
        check(plain(tree) == exp, 'the tree built first changed afterwards: now %s, expected %s', tree, exp)
        check(ms(back) == ms(orig), 'the rows returned first changed afterwards: now %s, expected %s', back, orig)
    parts = pattern.split('/')
    list_leaf = any(isinstance(r[-1], list) for r in spec['rows']) and not spec['const_leaf']
    shape = 'wild_leaf' if not spec['const_leaf'] else ('const_leaf_after_wildcard' if parts[-2].startswith('%') else 'const_leaf_after_key')
    cls = ['wildcards=%i' % len(names), 'rows=%i' % min(len(rows), 3), shape] + (['list_leaf'] if list_leaf else [])
    if not spec['const_leaf'] and orig and any(isinstance(r[names[-1]], list) and len(r[names[-1]]) == len(orig) for r in orig):
        cls.append('list_leaf_as_long_as_the_table')
        if len(orig) >= 2:
            cls.append('list_leaf_as_long_as_a_table_of_2+_rows')
    keyvals = [v for r in orig for n, v in r.items() if spec['const_leaf'] or n != names[-1]]
    if keyvals and all(isinstance(v, str) and v.isdigit() for v in keyvals):
        cls.append('numeric_string_keys')
    if leaf:
        cls += ['leaf=True', 'leaf=True,' + shape]
    if base is not None:
        cls.append('base=' + base)
    if repeat and rows:
        cls.append('same_table_object_twice' + ('' if spec['as_table'] else ',list_of_dicts'))
    if e:
        cls += ['cell_edited_in_place_between_calls', 'cell_edited_in_place_between_calls,' + ('dictable_column' if not isinstance(table, list) else 'row_dict')]
        if not spec['const_leaf']:
            cls.append('tree_leaf_edited_in_place_between_calls')
    if pos:
        cls.append('own_defaults_passed_positionally')
    if any(v == '' for v in keyvals):
        cls.append('empty_string_key')
    return dict(nt=len(rows) >= 2 and len(names) >= 2, cls=cls)


SUBS = [
    Sub('flatten', lambda tier: _flatten_case(), run_flatten, quick=2500, thorough=15000,
        rule='trees of depth 1-4 over dict/Dict/dictattr nodes (few percent: 60-100 keys in a branch, chains to depth 8, numeric-looking or structured string keys, one branch object hung at two places); '
             'oracle: tree_items/keys/values equal the model paths in order, items_to_tree inverts (in half of the cases the same items object is used twice, the second time with raise_if_duplicate=False), tree_getitem '
             'returns every leaf by tuple/list/dotted path, tree untouched; in a third of the cases the tree is then edited in place (set / add / delete a leaf, graft a branch) and everything is checked again on the same object; in three cases of eight the optional parameters are written out (their own defaults by keyword / positionally, or types = the default of tree_update); leaves include the empty string; in one case of nine half of the branches below the root are of a class that derives from dict / Dict / dictattr (OrderedDict, Config(Dict), Section(dictattr), MyDict(dict)): tree_items may list them as branches or as leaves, tree_keys / tree_values must follow it, the round trip, tree_getitem and the untouched tree are demanded as before. non-trivial = depth >= 2',
        floor=0.3, class_floors={'flattened_again_after_in_place_edit': 0.09, 'same_items_object_twice': 0.09, 'one_branch_object_at_two_places': 0.025, 'numeric_string_keys': 0.03,
                                 'structured_keys': 0.03, 'wide_branch_60+': 0.01,
                                 'own_defaults_passed_pos': 0.015, 'own_defaults_passed_kw': 0.02, 'types=default_of_tree_update': 0.016, 'empty_string_leaf': 0.028,
                                 'branch_of_a_derived_class_below_the_root': 0.04, 'derived_class=OrderedDict': 0.016, 'derived_class=Config': 0.009, 'derived_class=Section': 0.008, 'derived_class=MyDict': 0.006}),
    Sub('merge', lambda tier: _merge_case(), run_merge, quick=3000, thorough=20000,
        rule='pairs (t, u) with u derived from t by keep/drop/replace leaf<->branch/recurse/add (or independent, t itself, empty), ignore lists, via tree_update or Dict + dict; '
             'in a fifth of the cases a branch OBJECT occurs twice in t, or hangs in u and in t, or u is a branch object of t; '
             'oracle: recursive merge written from the statement on plain dicts; t and u compared by structure and node identity before/after; '
             'a quarter of the tree_update calls write out types = (dict, Dict, dictattr) and ignore (also ignore = None, []) by keyword or positionally; one derived case in twelve puts a falsy leaf '
             '(0, the empty string, [], None) into t where u holds an ignored leaf; in a sixth of the cases half of the branches of t below its root (one time in four its root too) are of a class that DERIVES from '
             'dict / Dict / dictattr (OrderedDict, Config(Dict), Section(dictattr), MyDict(dict)), u keeps, recurses into or is grafted into them with plain branches, a third of these u get such branches of their own: '
             'the value is accepted under each reading (branch / leaf) of those nodes, t and u must be untouched at every depth, by structure, class and identity. '
             'non-trivial = a nested branch present on both sides with differing content, or a leaf-vs-branch conflict',
        floor=0.2, class_floors={'nested_branch_merged': 0.1, 'leaf_vs_branch': 0.05, 'via=add': 0.05, 'empty_branch_of_u_over_content_of_t': 0.01,
                                 'one_branch_object_at_two_places_of_t': 0.014, 'update_writes_under_a_branch_object_that_occurs_twice': 0.006, 'u_holds_a_branch_object_of_t': 0.015,
                                 'u_is_a_branch_object_of_t': 0.014, 'numeric_string_keys': 0.03, 'structured_keys': 0.03, 'ignored_leaf_kept_out_by_a_str_or_list_or_0_only_entry': 0.007,
                                 'own_defaults_passed_pos': 0.026, 'own_defaults_passed_kw': 0.03, 'ignore=None_passed_explicitly': 0.013, 'empty_string_leaf': 0.07,
                                 'ignored_leaf_over_falsy_leaf_of_t': 0.023, 'ignore=[]': 0.011, "ignore=['', None]": 0.014,
                                 'update_writes_inside_a_branch_of_a_derived_class_of_t': 0.01, 'update_writes_inside_a_branch_of_a_derived_class_of_t,via=add': 0.002,
                                 'branch_of_a_derived_class_below_the_root_of_t': 0.04, 'branch_of_a_derived_class_below_the_root_of_u': 0.02,
                                 'root_of_t_of_a_derived_class': 0.02, 'root_of_u_of_a_derived_class': 0.012,
                                 'derived_class=OrderedDict': 0.018, 'derived_class=Config': 0.009, 'derived_class=Section': 0.008, 'derived_class=MyDict': 0.008}),
    Sub('session', lambda tier: _session_case(), run_session, quick=1500, thorough=10000,
        rule='t0 and two updates derived from it (or from one another) are built ONCE, with one ignore list object; 2-4 calls tree_update / Dict + dict whose operands are those same objects or the '
             'results of earlier calls, mostly with t0 on the left; every call judged by the single-call merge oracle on the original content; all operands, wrapped operands and earlier '
             'results re-inspected after every call; in a sixth of the sessions the caller edits one of the three trees in place between two calls (plain dict writes) and the following calls are judged by the '
             'content it has then. non-trivial = the same left object merged with two different updates, or an earlier result used as an operand',
        floor=0.3, class_floors={'same_left_object_other_update': 0.19, 'earlier_result_as_operand': 0.13, 'same_ignore_list_object_again': 0.17, 'same_operands_again': 0.13,
                                 'operand_edited_in_place_between_calls': 0.06, 'edited_operand_had_been_the_tree': 0.026, 'edited_operand_had_been_the_update': 0.009}),
    Sub('table_tree', lambda tier: _table_case(), run_table, quick=2500, thorough=15000,
        rule='patterns with 1-4 wildcards interleaved with constants, rows with unique paths; oracle: independent tree construction, round trip both ways as multisets, dictable(tree, pattern) agrees; '
             'a quarter of the cases with leaf=True, three in seven with an explicit base class, a third repeat both calls on the same table / tree objects (a third of those after the caller wrote one cell of the '
             'table - row dict or dictable column list - and then one leaf of the tree in place); a fifth pass base, ignore, types and leaf positionally with their declared defaults; keys and leaves include the empty string. '
             'non-trivial = >= 2 rows and >= 2 wildcards',
        floor=0.15, class_floors={'const_leaf_after_wildcard': 0.05, 'const_leaf_after_key': 0.05, 'list_leaf': 0.05, 'leaf=True': 0.13, 'leaf=True,const_leaf_after_wildcard': 0.035,
                                  'base=dict': 0.033, 'same_table_object_twice,list_of_dicts': 0.07, 'list_leaf_as_long_as_a_table_of_2+_rows': 0.023, 'numeric_string_keys': 0.017,
                                  'cell_edited_in_place_between_calls,dictable_column': 0.009, 'cell_edited_in_place_between_calls,row_dict': 0.01,
                                  'tree_leaf_edited_in_place_between_calls': 0.015, 'own_defaults_passed_positionally': 0.1, 'empty_string_key': 0.01}),
]
