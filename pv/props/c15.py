# -*- coding: utf-8 -*-
"""
C15 - tree flatten / rebuild are inverse; tree_update (and Dict + dict) is a non-destructive deep merge; table_to_tree / tree_to_table inverse.
"""
from collections import Counter

from hypothesis import strategies as st

from pv.core import Sub, Violation, call, check, short

ASSUMPTIONS = [
    'trees are dict / Dict / dictattr nodes with 1-3 string keys (no "." in keys), leaves None / ints / strings / lists of ints, depth <= 4; flatten/rebuild only on trees without empty branches; '
    'in the merge check a quarter of the t trees carry empty branches (u\'s branch then merges into the empty one; an empty branch of u contributes nothing)',
    'results are compared structurally with == on the plain-dict image (the statement does not fix which dict class new branches get)',
    'ignore lists are [None] or [None, 0]; an ignored leaf still creates keys that did not exist (documented in items_to_tree)',
    'table<->tree: wildcard names are distinct, key wildcards bind strings, the last pattern element is a wildcard bound to a scalar leaf or a constant leaf; rows have unique paths',
]

_KEYS = ['a', 'b', 'c', 'd']
_leafv = st.one_of(st.none(), st.integers(0, 3), st.sampled_from(['s', 't']), st.lists(st.integers(0, 2), max_size=2).map(lambda v: ['lst', v]))
_btype = st.sampled_from(['dict', 'dict', 'Dict', 'dictattr'])


@st.composite
def _tree(draw, d):
    if d == 0:
        return ['leaf', draw(_leafv)]
    n = draw(st.integers(1, 3))
    keys = draw(st.permutations(_KEYS))[:n]
    kids = [draw(_tree(d - 1))] + [draw(_tree(draw(st.integers(0, d - 1)))) for _ in range(n - 1)]
    pos = draw(st.integers(0, n - 1))
    kids[0], kids[pos] = kids[pos], kids[0]
    return [draw(_btype), [[k, v] for k, v in zip(keys, kids)]]


_t = st.sampled_from([1, 1, 2, 2, 3, 3, 4]).flatmap(_tree)


def build(s):
    if s[0] == 'leaf':
        v = s[1]
        return list(v[1]) if isinstance(v, list) else v
    d = {k: build(x) for k, x in s[1]}
    if s[0] == 'dict':
        return d
    import pyg_base
    return getattr(pyg_base, s[0])(d)


def plain(x):
    """plain-dict image of a real tree"""
    if isinstance(x, dict):
        return {k: plain(v) for k, v in x.items()}
    return x


def model(s):
    """plain-dict image straight from the spec (independent of pyg_base)"""
    if s[0] == 'leaf':
        v = s[1]
        return list(v[1]) if isinstance(v, list) else v
    return {k: model(x) for k, x in s[1]}


def m_items(m, prefix=()):
    if isinstance(m, dict):
        out = []
        for k, v in m.items():
            out.extend(m_items(v, prefix + (k,)))
        return out
    return [prefix + (m,)]


def snapshot(x):
    """structure + identity of every branch node and of every leaf object"""
    if isinstance(x, dict):
        return (id(x), type(x), [(k, snapshot(v)) for k, v in x.items()])
    return (id(x), type(x), repr(x))


def depth(s):
    return 0 if s[0] == 'leaf' else 1 + max(depth(v) for _, v in s[1])


# ----------------------------------------------------------------------------- flatten / rebuild

def run_flatten(spec):
    from pyg_base import tree_items, tree_keys, tree_values, items_to_tree, tree_getitem
    t = build(spec)
    m = model(spec)
    snap = snapshot(t)
    items = call('tree_items(%s)' % short(t, 150), tree_items, t)
    exp = m_items(m)
    check(list(items) == exp, 'tree_items(%s) = %s, expected the paths %s', t, items, exp)
    keys = call('tree_keys', tree_keys, t)
    check(list(keys) == [i[:-1] for i in exp], 'tree_keys(%s) = %s, expected %s', t, keys, [i[:-1] for i in exp])
    vals = call('tree_values', tree_values, t)
    check(list(vals) == [i[-1] for i in exp], 'tree_values(%s) = %s, expected %s', t, vals, [i[-1] for i in exp])
    back = call('items_to_tree(tree_items(t))', items_to_tree, items)
    check(plain(back) == m, 'items_to_tree(tree_items(%s)) = %s', t, back)
    for item in exp:
        path, leaf = item[:-1], item[-1]
        for form, p in (('tuple', tuple(path)), ('list', list(path)), ('dotted', '.'.join(path))):
            got = call('tree_getitem(%s, %r)' % (short(t, 100), p), tree_getitem, t, p)
            check(got == leaf and type(got) is type(leaf), 'tree_getitem(%s, %r) = %s, expected the leaf %s', t, p, got, leaf)
    check(snapshot(t) == snap, 'flattening modified the tree: now %s', t)
    d = depth(spec)
    return dict(nt=d >= 2, cls=['depth=%i' % d, 'leaves=%i' % min(len(exp), 6)])


# ----------------------------------------------------------------------------- merge

def _derive(draw, s, d=0):
    """u derived from t: per key keep / delete / replace (leaf<->branch) / recurse; plus new keys"""
    if s[0] == 'leaf':
        return draw(st.one_of(st.just(s), _leafv.map(lambda v: ['leaf', v]), _tree(1)))
    out = []
    for k, v in s[1]:
        how = draw(st.sampled_from(['keep', 'drop', 'drop', 'recurse', 'recurse', 'recurse', 'leaf', 'branch']))
        if how == 'keep':
            out.append([k, v])
        elif how == 'recurse':
            out.append([k, _derive(draw, v, d + 1)])
        elif how == 'leaf':
            out.append([k, ['leaf', draw(_leafv)]])
        elif how == 'branch':
            out.append([k, draw(_tree(draw(st.integers(1, 2))))])
    for k in _KEYS:
        if k not in [x[0] for x in s[1]] and draw(st.integers(0, 3)) == 0:
            out.append([k, draw(_tree(draw(st.integers(0, 2))))])
    if not out:
        k = draw(st.sampled_from(_KEYS))
        out.append([k, draw(_tree(draw(st.integers(0, 1))))])
    return [draw(_btype), out]


def _with_empty(draw, s):
    """replaces some leaves of t by empty branches (the merge clauses of the statement still read unambiguously: u's branch merges into the empty one)"""
    if s[0] == 'leaf':
        return [draw(_btype), []] if draw(st.integers(0, 5)) == 0 else s
    return [s[0], [[k, _with_empty(draw, v)] for k, v in s[1]]]


def _widen(draw, s):
    """adds 60-100 extra leaf keys to the top branch of t (and later some of them to u): size-dependent paths"""
    n = draw(st.sampled_from([60, 64, 100]))
    return [s[0], s[1] + [['w%03i' % i, ['leaf', i % 3]] for i in range(n)]]


@st.composite
def _merge_case(draw):
    t = draw(_t)
    wide = draw(st.integers(0, 24)) == 0
    if wide:
        t = _widen(draw, t)
    if draw(st.integers(0, 3)) == 0:
        t = _with_empty(draw, t)
    kind = draw(st.sampled_from(['derived', 'derived', 'derived', 'independent', 'self', 'empty']))
    if kind == 'derived':
        u = _derive(draw, t)
    elif kind == 'independent':
        u = draw(_t)
    elif kind == 'self':
        u = t
    else:
        u = [draw(_btype), []]
    if kind in ('derived', 'independent') and draw(st.integers(0, 3)) == 0:
        u = _with_empty(draw, u)       # an empty branch inside u contributes nothing: it must not wipe the branch or leaf t has at that path
    if wide and u[1] and kind not in ('self', 'empty'):
        u = [u[0], u[1] + [['w%03i' % i, ['leaf', 7]] for i in range(0, 60, 7)] + [['w500', ['leaf', 1]]]]
    return dict(t=t, u=u, kind=kind, ignore=draw(st.sampled_from([None, None, [None], [None, 0]])), via=draw(st.sampled_from(['tree_update', 'tree_update', 'add'])))


def m_merge(t, u, ignore):
    """the statement's recursive merge on plain dicts"""
    res = {k: m_copy(v) for k, v in t.items()}
    for k, uv in u.items():
        if isinstance(uv, dict):
            if not _has_leaf(uv):          # u contributes through its leaves only: a branch holding nothing but empty branches adds nothing
                continue
            if isinstance(res.get(k), dict):
                res[k] = m_merge(res[k], uv, ignore)
            else:
                res[k] = m_merge({}, uv, ignore)
        else:
            if k in res and any(uv is i or (type(uv) is type(i) and uv == i) or (isinstance(uv, (int, float)) and isinstance(i, (int, float)) and not isinstance(uv, bool) and uv == i) for i in ignore):
                continue
            res[k] = uv
    return res


def _has_leaf(m):
    return any(_has_leaf(v) if isinstance(v, dict) else True for v in m.values())


def m_copy(m):
    return {k: m_copy(v) for k, v in m.items()} if isinstance(m, dict) else m


def _conflicts(t, u, d=1):
    """(shared branch at depth>=2 with differing content, leaf-vs-branch conflict)"""
    shared, lb = False, False
    for k, uv in u.items():
        if k in t:
            tv = t[k]
            if isinstance(tv, dict) != isinstance(uv, dict):
                lb = True
            elif isinstance(tv, dict):
                if tv != uv:
                    shared = True
                s2, l2 = _conflicts(tv, uv, d + 1)
                shared, lb = shared or s2, lb or l2
    return shared, lb


def run_merge(spec):
    from pyg_base import tree_update, Dict
    ts, us = spec['t'], spec['u']
    t, u = build(ts), (build(us) if spec['kind'] != 'self' else None)
    if spec['kind'] == 'self':
        u = t
    mt, mu = model(ts), model(us)
    ignore = spec['ignore']
    via = spec['via']
    snap_t, snap_u = snapshot(t), snapshot(u)
    if via == 'add' and ignore is None:
        tt = Dict(t) if type(t) is not Dict else t
        snap_tt = snapshot(tt)
        what = 'Dict(%s) + %s' % (short(t, 150), short(u, 150))
        res = call(what, lambda: tt + u)
        check(snapshot(tt) == snap_tt, '%s modified its left operand: now %s', what, tt)
    else:
        via = 'tree_update'
        what = 'tree_update(%s, %s%s)' % (short(t, 150), short(u, 150), '' if ignore is None else ', ignore=%s' % ignore)
        res = call(what, lambda: tree_update(t, u) if ignore is None else tree_update(t, u, ignore=ignore))
    exp = m_merge(mt, mu, ignore or [])
    check(isinstance(res, dict), '%s returned %s', what, type(res).__name__)
    check(plain(res) == exp, '%s = %s, the recursive merge is %s', what, res, exp)
    check(snapshot(t) == snap_t, '%s modified t: now %s (was %s)', what, plain(t), mt)
    check(snapshot(u) == snap_u, '%s modified u: now %s (was %s)', what, plain(u), mu)
    check(res is not t, '%s returned t itself', what)
    shared, lb = _conflicts(mt, mu)
    cls = ['kind=' + spec['kind'], 'via=' + via, 'ignore=%s' % (ignore,)]

    def _has_empty(m):
        return isinstance(m, dict) and (not m or any(_has_empty(v) for v in m.values()))
    if len(mt) >= 60:
        cls.append('wide_branch_60+')

    def _empty_over_content(t, u):
        for k, uv in u.items():
            if isinstance(uv, dict):
                if not _has_leaf(uv) and k in t and t[k] not in ({}, None):
                    return True
                if uv and isinstance(t.get(k), dict) and _empty_over_content(t[k], uv):
                    return True
        return False
    if _empty_over_content(mt, mu):
        cls.append('empty_branch_of_u_over_content_of_t')
    if any(_has_empty(v) for v in mt.values()):
        cls.append('empty_branch_in_t')
        if any(isinstance(mt.get(k), dict) and not mt[k] and isinstance(mu.get(k), dict) and mu[k] for k in mu):
            cls.append('u_branch_merges_into_empty_branch_of_t')
    if shared:
        cls.append('shared_branch_differs')
    if lb:
        cls.append('leaf_vs_branch')
    deep_shared = any(isinstance(mt.get(k), dict) and isinstance(mu.get(k), dict) and mt[k] != mu[k] for k in mu)
    if deep_shared:
        cls.append('nested_branch_merged')
    return dict(nt=bool(deep_shared or lb), cls=cls)


# ----------------------------------------------------------------------------- table <-> tree

@st.composite
def _table_case(draw):
    nw = draw(st.integers(1, 4))
    names = ['w%i' % i for i in range(nw)]
    parts, wi = [], 0
    # interleave constants and wildcards; the pattern ends with the last wildcard (leaf) or a constant leaf
    for i in range(nw):
        if draw(st.booleans()) or i == 0:
            parts.append(draw(st.sampled_from(['root', 'x', 'y'])))
        parts.append('%' + names[i])
    const_leaf = draw(st.integers(0, 3)) == 0
    if const_leaf:
        if draw(st.booleans()):
            parts.append(draw(st.sampled_from(['k', 'v'])))      # .../%w/k/m : a fixed key, then a fixed leaf
        parts.append(draw(st.sampled_from(['m', 'f'])))          # or .../%w/m : the wildcard is followed directly by the fixed leaf
    nrows = draw(st.integers(0, 5))
    keyv = st.sampled_from(['p', 'q', 'r'])
    leafv = st.one_of(st.integers(0, 5), st.sampled_from(['L', 'M']), st.none(), st.lists(st.integers(0, 3), max_size=3))     # list leaves too: [], [5], [1, 2]
    rows, seen = [], set()
    for _ in range(nrows):
        if const_leaf:
            row = [draw(keyv) for _ in names]
            path = tuple(row)
        else:
            row = [draw(keyv) for _ in names[:-1]] + [draw(leafv)]
            path = tuple(row[:-1])
        if path in seen:
            continue
        seen.add(path)
        rows.append(row)
    return dict(pattern='/'.join(parts), names=names, rows=rows, const_leaf=const_leaf, as_table=draw(st.booleans()))


def run_table(spec):
    from pyg_base import table_to_tree, tree_to_table, dictable
    pattern, names = spec['pattern'], spec['names']
    rows = [dict(zip(names, r)) for r in spec['rows']]
    if not spec['const_leaf'] and len(names) == 1:
        rows = rows[:1]      # a pattern whose only wildcard is the leaf has one path
    table = dictable(rows) if spec['as_table'] and rows else list(rows)
    what = 'table_to_tree(None, %r, %s)' % (pattern, short(rows, 200))
    tree = call(what, table_to_tree, None, pattern, table)
    back = call('tree_to_table(%s, %r)' % (short(tree, 200), pattern), tree_to_table, tree, pattern)

    def ms(rs):
        return Counter(tuple(sorted((k, repr(v)) for k, v in r.items())) for r in rs)
    check(ms(back) == ms(rows), 'tree_to_table(table_to_tree(rows)) = %s, rows were %s (pattern %r, tree %s)', back, rows, pattern, tree)
    # independent expectation of the tree itself
    exp = {}
    for r in rows:
        path = [r[p[1:]] if p.startswith('%') else p for p in pattern.split('/')]
        node = exp
        for k in path[:-2]:
            node = node.setdefault(k, {})
        node[path[-2]] = path[-1]
    check(plain(tree) == exp, '%s = %s, expected %s', what, tree, exp)
    # and the reverse direction on the tree produced that way
    again = call('table_to_tree(None, pattern, tree_to_table(tree, pattern))', table_to_tree, None, pattern, back)
    check(plain(again) == plain(tree), 'table_to_tree(tree_to_table(tree)) = %s differs from the tree %s (pattern %r)', again, tree, pattern)
    if rows:
        d = call('dictable(tree, %r)' % pattern, dictable, tree, pattern)
        check(ms(list(d)) == ms(rows), 'dictable(%s, %r) = %s, expected the rows %s', tree, pattern, list(d), rows)
    parts = pattern.split('/')
    list_leaf = any(isinstance(r[-1], list) for r in spec['rows']) and not spec['const_leaf']
    shape = 'wild_leaf' if not spec['const_leaf'] else ('const_leaf_after_wildcard' if parts[-2].startswith('%') else 'const_leaf_after_key')
    return dict(nt=len(rows) >= 2 and len(names) >= 2, cls=['wildcards=%i' % len(names), 'rows=%i' % min(len(rows), 3), shape] + (['list_leaf'] if list_leaf else []))


SUBS = [
    Sub('flatten', lambda tier: _t, run_flatten, quick=2500, thorough=15000,
        rule='trees of depth 1-4 over dict/Dict/dictattr nodes; oracle: tree_items/keys/values equal the model paths in order, items_to_tree inverts, tree_getitem '
             'returns every leaf by tuple/list/dotted path, tree untouched. non-trivial = depth >= 2',
        floor=0.3),
    Sub('merge', lambda tier: _merge_case(), run_merge, quick=3000, thorough=20000,
        rule='pairs (t, u) with u derived from t by keep/drop/replace leaf<->branch/recurse/add (or independent, t itself, empty), ignore lists, via tree_update or Dict + dict; '
             'oracle: recursive merge written from the statement on plain dicts; t and u compared by structure and node identity before/after. '
             'non-trivial = a nested branch present on both sides with differing content, or a leaf-vs-branch conflict',
        floor=0.2, class_floors={'nested_branch_merged': 0.1, 'leaf_vs_branch': 0.05, 'via=add': 0.05, 'empty_branch_of_u_over_content_of_t': 0.01}),
    Sub('table_tree', lambda tier: _table_case(), run_table, quick=2500, thorough=15000,
        rule='patterns with 1-4 wildcards interleaved with constants, rows with unique paths; oracle: independent tree construction, round trip both ways as multisets, dictable(tree, pattern) agrees. '
             'non-trivial = >= 2 rows and >= 2 wildcards',
        floor=0.15, class_floors={'const_leaf_after_wildcard': 0.05, 'const_leaf_after_key': 0.05, 'list_leaf': 0.05}),
]
