# -*- coding: utf-8 -*-
"""
C09 - dt_bump adds business days, calendar units and compound tenors exactly.

Oracles (all plain datetime / plain loops, none of them calls pyg_base):
  business days : walk one day at a time, skipping Saturday/Sunday, after rolling a weekend start forward to Monday;
                  cross-checked against a table "list of all weekdays, index + n" built by a day-by-day walk
  d/w/h/n/s, int, timedelta : datetime + timedelta
  m/q/y (midnight) : target month by integer division, same day of month if it exists, otherwise the excess days go
                  into the following month; cross-checked against "first of target month + (day-1) days"
  compound      : left fold of the single-part oracle

Sessions (sub-check `session`): start and bump objects are built once and used in 2-4 calls whose bump lists are prefixes / extensions /
permutations of one another, partly through one caller-owned list; every call is judged by the single-call oracle (left fold).

A bump part is spelled [n, unit, form]; form bit 0 = explicit '+' sign (only when n >= 0), bit 1 = upper-case unit letter,
bit 2 = the number is zero padded ('05b', '-012d', '+00h'; a zero written '-00' when there is no '+').
A start is [ordinal, seconds, microseconds]; `raw` says in which raw type the start is handed over (0 datetime, 1 pd.Timestamp,
2 numpy datetime64[us], 3 datetime.date - midnight starts only). `tz` (optional) = minutes east of UTC of a fixed-offset zone: the start is then the wall time
[ordinal, seconds, microseconds] IN that zone (a zone-aware datetime / pd.Timestamp) and the result must be the oracle's wall time in the same zone.
"""
import datetime
import os

from hypothesis import strategies as st

from pv.core import Sub, EnumSub, Violation, HarnessError, call

ASSUMPTIONS = [
    'starts are instants with 1900-01-01 <= t < 2300-01-01 (one 400-year cycle, 146097 days), handed over as datetime.datetime (7 cases of 8) or as the same instant in another raw type: '
    'pd.Timestamp, numpy datetime64[us], and (midnight only) datetime.date; for those only the VALUE of the result is judged (a datetime.datetime or subclass equal to the oracle), '
    'because datetime arithmetic on a Timestamp gives a Timestamp; strings and numbers as starts stay the subject of C04',
    'zone-aware starts (one case in ten of bday / fixed_units, and of the compound / session cases without a month-based part; datetime.datetime or pd.Timestamp): the zone is a FIXED offset from UTC '
    '(datetime.timezone, +01:00 .. +14:00 / -05:00 .. -12:00, never 0), the start day / time of day / weekday of the statement are read on the wall clock of that zone, and the result must be zone-aware '
    'with the same offset and the wall time of the oracle (with a fixed offset "exactly that much time" means the same on the wall clock and in UTC; the dt docstring promises dt(t, "1h").tzinfo == tz, dt(t, 1).tzinfo == tz); '
    'zones with daylight-saving or historic offset changes are NOT generated: python adds a timedelta to an aware datetime on the wall clock, so "+24h" over a DST change is 23 or 25 elapsed hours and the statement does not say which is meant',
    'zone-aware starts are bumped by m/q/y too and must keep their zone with the oracle\'s wall time (left out only with PV_C09_EXCLUDE_FIXED=1): before finding F37 was fixed in /repo the month-based units rebuilt the date from year / month / day and returned a naive datetime (replay replays/C10/F37-*.json)',
    'results may lie outside 1900-2300 (a start within 90 days of either end of the cycle bumped outwards, 1 start in 15 lies there): the statement quantifies over START days, the library computes rather than tabulates, '
    'so the plain datetime oracle value is demanded there as well (class result_outside_cycle)',
    'observation through dt_bump(t, bump), dt_bump(t, *bumps), dt(t, bump), dt(t, *bumps), and (sub-check today) through the one-argument dt(bump), the third way of observing the anchors name: the bump is applied to TODAY',
    'today: dt(bump) reads the wall clock, so the harness reads datetime.datetime.now() right before and right after the call and accepts the left fold from midnight of EITHER reading\'s date (they differ only when midnight '
    'passes in between); "today" is taken to be midnight of the local date (the dt docstring: today = dt(0), dt("-10b") == today - 14 * day), which is also what puts the m/q/y parts inside the claimed domain; only the tenor grammar and '
    'the arithmetic are judged, never the clock value; classes that depend on the day the check runs on (weekend start, month overflow, boundary-day start) carry no floor there. The bump is a tenor string of 1-3 parts in every spelling '
    'of the other sub-checks (inner "+" / "-" signs, upper case, zero padding), a python int in [-60, 60] (documented: dt(-3) == today - 3 * day) or a timedelta / pandas Timedelta; NOT generated: named tenors (dt("spot") is '
    'read as a date string: the one-argument form tells tenors from dates by their leading <count><unit> and the names are only documented for dt_bump), numpy ints (a lone number is read by dt\'s number reader - the subject of C04 - '
    'which refuses numpy ints), several arguments without a start (dt(tenor, x) reads year, month), the keywords tzinfo= / none=',
    'several tenor strings as separate arguments (or in the one list), each of them itself a one- or two-part tenor ("1y-3m", "2d"): half of the three-part cases of the multi / list forms of sub-check compound; the parts of all arguments are applied left to right',
    'n in [-60, 60] for every part; in the composition law a, b have the same sign and |a+b| <= 60 so that all three bumps are inside the quantifier',
    'm/q/y parts are only applied when the running time of day is midnight (the statement claims them at midnight only), also inside compound tenors: '
    'tenors holding an m/q/y part start at midnight, and an h/n/s part in front of a later m/q/y part is a whole number of days (24h/48h) or is replaced by a day-based unit',
    'monotonicity of business-day bumps is demanded at day granularity: t1 <= t2 with the same time of day (the roll-forward keeps the time of day, so Saturday 10:00 vs Monday 09:00 is not a meaningful pair)',
    'spellings: optional "+" sign, upper or lower case unit letter, optionally zero-padded digits ("05b", "-012d", "+00h", "-00b": the tokenizer takes [0-9]+ and int() reads them), no white space '
    '(the tokenizer is anchored and a remainder is read as a time zone name); named tenors spot/on/o/n/tn/t/n/sn/s/n (any case) are taken as spellings of 0b/1b/2b/3b (documented in the dt_bump docstring)',
    'integer bumps are python ints or numpy int64/int32/int16 (is_int accepts both) in [-60, 60] (days); timedelta bumps are within +-61 days with second and microsecond parts, as datetime.timedelta '
    'or as pandas Timedelta (a datetime.timedelta subclass); numpy timedelta64 and dateutil relativedelta bumps are not generated (the statement speaks of integers and timedeltas only)',
    'separate bumps of one call may mix strings, ints, numpy ints and timedeltas (a d part as int / numpy int / timedelta, a w/h/n/s part as timedelta); '
    'bumps may also be passed as ONE list argument (dt_bump and dt unwrap it with as_list): same result, and the caller\'s list must be left unchanged (same objects, same order); '
    'the list may hold bumps of several raw types, a single bump, or nothing (then, as with no bump argument at all, the result is the start itself); '
    'a tuple as the one argument is NOT generated: as_list only unwraps a list, so dt_bump(t, (a, b)) is not a spelling the library offers',
    'sessions: start and bump objects are built once and used in 2-4 calls (prefixes / extensions / permutations / repetitions of the previous bump list, the same object twice in one call, '
    'one caller-owned list edited in place between calls); each call is judged on its own by the left fold, i.e. dt_bump / dt are taken to be functions of their arguments\' values only',
    'keywords that have no say over a scalar bump are passed in a share of the session calls and must not change the result: aggregate= (dt_bump: documented for merging equal stamps of a bumped time SERIES only), '
    'dialect= (dt: string parsing only), tzinfo=None (dt: the default spelled out); tzinfo=<zone> and none= are not generated (they change / do not concern the claimed result); '
    'aggregate="last", dialect="uk", tzinfo=None are the parameters\' own defaults passed explicitly (class default_spelled_out; dt hands only the bumps on to dt_bump, whose aggregate default then applies)',
    'same-date siblings: after a bump from t the same bump is asked from another time of day of the same date (half of them differ in the microsecond only) and must follow its own oracle',
    'inverse law +x then -x: fixed-length units/ints/timedeltas from any start, business days from a weekday start, m/q/y from midnight with day of month <= 28',
]

KNOWN = {}

# zone-aware starts bumped by m/q/y come back naive (the _ymd rebuild drops tzinfo together with the time of day): not fixed by the statement, see ASSUMPTIONS
INCLUDE_AWARE_MONTH = os.environ.get('PV_C09_EXCLUDE_FIXED', '') != '1'      # F37 (dt_bump keeps the zone through m/q/y parts), fixed in /repo: generated by default

DAY = datetime.timedelta(days=1)
O_MIN = datetime.date(1900, 1, 1).toordinal()       # a Monday
O_MAX = datetime.date(2299, 12, 31).toordinal()
NDAYS = O_MAX - O_MIN + 1                            # 146097 = one Gregorian cycle
NMAX = 60
FIXED = {'d': datetime.timedelta(days=1), 'w': datetime.timedelta(days=7), 'h': datetime.timedelta(hours=1),
         'n': datetime.timedelta(minutes=1), 's': datetime.timedelta(seconds=1)}
MONTHS = {'m': 1, 'q': 3, 'y': 12}
ALL_UNITS = 'bdwhnsmqy'
NAMED = {'spot': 0, 'on': 1, 'o/n': 1, 'tn': 2, 't/n': 2, 'sn': 3, 's/n': 3}

if datetime.date.fromordinal(O_MIN).weekday() != 0 or NDAYS != 146097:
    raise HarnessError('calendar constants are wrong')


# ----------------------------------------------------------------------------- builders

def mk(tspec):
    o, sec, us = (list(tspec) + [0, 0])[:3]
    return datetime.datetime.fromordinal(o) + datetime.timedelta(seconds=sec, microseconds=us)


RAWS = ['datetime', 'Timestamp', 'datetime64', 'date']
_TZ = [None]        # the zone of the starts of the case that is running: minutes east of UTC of a fixed-offset zone (spec['tz']); None = naive starts
ZONES = [60, -300, 330, -570, 765, 840, -720, 345]
T_LO, T_HI = datetime.datetime(1900, 1, 1), datetime.datetime(2300, 1, 1)


def _zone(spec):
    """every run function starts here: which zone are the starts of this case in?"""
    tz = spec.get('tz')
    if tz is not None and (not isinstance(tz, int) or tz == 0 or abs(tz) >= 1440):
        raise HarnessError('zone offset %r is not a non-zero number of minutes within a day' % (tz,))
    _TZ[0] = tz
    return tz


def _tzinfo():
    return datetime.timezone(datetime.timedelta(minutes=_TZ[0]))


def _wall(x):
    """the wall-clock reading of a (possibly zone-aware) datetime"""
    return x.replace(tzinfo=None) if x.tzinfo is not None else x


def _eq(got, exp):
    """the same wall time (the zone of `got` is judged by _is_dt)"""
    return _wall(got) == _wall(exp)


def _zone_class(t0):
    """t0 = the naive wall time of the start"""
    if _TZ[0] is None:
        return []
    utc = t0 - datetime.timedelta(minutes=_TZ[0])
    return ['zone_aware_start'] + (['zone_aware_utc_date_differs'] if utc.date() != t0.date() else [])


def _outside(*results):
    return ['result_outside_cycle'] if any(not T_LO <= _wall(r) < T_HI for r in results) else []


def as_raw(t, raw):
    """the instant t (a datetime) in another raw type: 1 pd.Timestamp, 2 numpy datetime64[us], 3 datetime.date (midnight only);
    in a zone-aware case t is the wall time in the case's zone and the datetime / Timestamp carries that zone"""
    if _TZ[0] is not None:
        if raw not in (0, 1):
            raise HarnessError('a %s start cannot carry a zone' % RAWS[raw])
        if t.tzinfo is None:
            t = t.replace(tzinfo=_tzinfo())
    if not raw:
        return t
    if raw == 1:
        import pandas as pd
        return pd.Timestamp(t)
    if raw == 2:
        import numpy as np
        return np.datetime64(t, 'us')
    if raw == 3:
        if t.hour or t.minute or t.second or t.microsecond:
            raise HarnessError('a datetime.date start cannot carry a time of day: %r' % t)
        return datetime.date(t.year, t.month, t.day)
    raise HarnessError('unknown raw type %r' % raw)


def _raw_class(raw):
    return ['raw_start', 'raw_start=' + RAWS[raw]] if raw else []


def fmt(n, unit, form=0):
    u = unit.upper() if form & 2 else unit
    if form & 4:
        sign = '-' if n < 0 or (n == 0 and not form & 1) else '+' if form & 1 else ''
        return '%s%s%s' % (sign, ('%02i' if abs(n) < 10 else '%03i') % abs(n), u)
    sign = '+' if (form & 1) and n >= 0 else ''
    return '%s%i%s' % (sign, n, u)


def fmt_parts(parts):
    return ''.join(fmt(*p) for p in parts)


def _bump(api, t, *bumps):
    """the call into pyg_base; api 'dt_bump' = dt_bump(t, *bumps), 'dt' = dt(t, *bumps)"""
    import pyg_base
    f = pyg_base.dt_bump if api == 'dt_bump' else pyg_base.dt
    try:
        return call(api, f, t, *bumps)
    except Violation as v:
        raise Violation('%s(%r, %s): %s' % (api, t, ', '.join(repr(b) for b in bumps), v))


def _is_dt(r, loose=False):
    """a datetime.datetime, naive for a naive start and in the start's zone for a zone-aware one; `loose` (raw-typed starts / pandas timedeltas only) also admits a subclass such as pd.Timestamp,
    which is what datetime arithmetic on such operands gives - the value is what the statement fixes"""
    if not (isinstance(r, datetime.datetime) if loose else type(r) is datetime.datetime):
        return False
    if _TZ[0] is None:
        return r.tzinfo is None
    return r.tzinfo is not None and r.utcoffset() == datetime.timedelta(minutes=_TZ[0])      # still zone-aware, the same offset


def _expect(api, t, bumps, got, exp, why, loose=False):
    if not (_is_dt(got, loose) and _eq(got, exp)):
        if _TZ[0] is not None:
            exp, why = _wall(exp).replace(tzinfo=_tzinfo()), why + '; a zone-aware start gives the wall time of the oracle in the same zone'
        raise Violation('%s(%r, %s) = %r, expected %r (%s)' % (api, t, ', '.join(repr(b) for b in bumps), got, exp, why))


# ----------------------------------------------------------------------------- oracles

def o_bday(t, n):
    """n-th weekday after/before t; a weekend start first rolls forward to Monday; the time of day is kept"""
    while t.weekday() >= 5:
        t = t + DAY
    step = DAY if n > 0 else -DAY
    k = abs(n)
    while k:
        t = t + step
        if t.weekday() < 5:
            k -= 1
    return t


_TABLE = {}


def _weekday_table():
    """W = every weekday ordinal around the cycle in increasing order; IDX[o] = position in W of the first weekday >= o"""
    if not _TABLE:
        lo, hi = O_MIN - 130, O_MAX + 140
        W = [o for o in range(lo, hi + 1) if datetime.date.fromordinal(o).weekday() < 5]
        IDX = {}
        j = 0
        for o in range(lo, hi - 10):
            while W[j] < o:
                j += 1
            IDX[o] = j
        _TABLE['W'], _TABLE['IDX'] = W, IDX
    return _TABLE['W'], _TABLE['IDX']


def o_bday_table(t, n):
    W, IDX = _weekday_table()
    o = t.toordinal()
    return datetime.datetime.fromordinal(W[IDX[o] + n]) + (t - datetime.datetime.fromordinal(o))


_DIM = [31, 28, 31, 30, 31, 30, 31, 31, 30, 31, 30, 31]


def _dim(y, m):
    if m == 2 and y % 4 == 0 and (y % 100 != 0 or y % 400 == 0):
        return 29
    return _DIM[m - 1]


def o_months(t, months):
    """same day of month in the target month if it exists, otherwise the excess days roll into the following month"""
    if t.hour or t.minute or t.second or t.microsecond:
        raise HarnessError('month-based bump applied off midnight: outside the claimed domain (%r)' % t)
    y, m0 = divmod(t.year * 12 + (t.month - 1) + months, 12)
    m = m0 + 1
    dim = _dim(y, m)
    if t.day <= dim:
        res = datetime.datetime(y, m, t.day)
    else:
        y2, m2 = (y, m + 1) if m < 12 else (y + 1, 1)
        res = datetime.datetime(y2, m2, t.day - dim)
    if res != datetime.datetime(y, m, 1) + (t.day - 1) * DAY:
        raise HarnessError('the two formulations of the month oracle disagree at %r %+i months' % (t, months))
    return res


def o_part(t, n, unit):
    if unit == 'b':
        return o_bday(t, n)
    if unit in FIXED:
        return t + n * FIXED[unit]
    return o_months(t, n * MONTHS[unit])


def _overflow(t, n, unit):
    """does an m/q/y bump from t land in a month that is too short for t.day?"""
    y, m0 = divmod(t.year * 12 + (t.month - 1) + n * MONTHS[unit], 12)
    return t.day > _dim(y, m0 + 1)


# ----------------------------------------------------------------------------- shared strategies

_n = st.one_of(st.integers(-NMAX, -1), st.integers(1, NMAX), st.integers(-NMAX, -1), st.integers(1, NMAX), st.integers(-7, 7),
               st.sampled_from([-60, -59, -11, -10, -6, -5, -4, -1, 0, 1, 4, 5, 6, 10, 11, 59, 60]))
# spelling of one part: bits 0/1 as before; one part in seven is zero padded as well (bit 2)
_form = st.sampled_from([0, 1, 2, 3] * 6 + [4, 5, 6, 7])
_tod = st.one_of(
    st.just([0, 0]),
    st.tuples(st.sampled_from([1, 3600, 36000, 43200, 86399]), st.sampled_from([0, 0, 1, 500000, 999999])).map(list),
    st.tuples(st.integers(0, 86399), st.just(0)).map(list),
    # boundary values: one microsecond past midnight with everything else 0, the last microsecond of the day
    st.sampled_from([[0, 1], [0, 999999], [86399, 999999], [1, 0]]),
)
_tod_intraday = st.one_of(
    st.tuples(st.sampled_from([1, 3600, 36000, 43200, 86399]), st.sampled_from([0, 0, 1, 500000, 999999])).map(list),
    st.tuples(st.integers(1, 86399), st.just(0)).map(list),
)


@st.composite
def _sibling(draw, tod):
    """another time of day on the SAME date: half of them differ from `tod` in the microsecond only (a result remembered per
    date / per second would be wrong for the sibling)"""
    if draw(st.booleans()):
        sib = [tod[0], draw(st.sampled_from([0, 1, 500000, 999999]))]
    else:
        sib = list(draw(_tod))
    if sib == list(tod):
        sib = [tod[0], (tod[1] + 1) % 1000000]
    return sib


def _sib_class(spec):
    return 'sibling_same_second' if spec['sib'][0] == spec['t'][1] else 'sibling_other_time'


def _tod_class(tspec):
    if tspec[1] == 0 and tspec[2]:
        return ['microseconds_only']
    return []


def _ymd_ordinal(ymd):
    y, m, d = ymd
    return datetime.date(y, m, min(d, _dim(y, m))).toordinal()


# month ends / leap days / year ends are frequent
_cal_day = st.tuples(st.one_of(st.integers(1900, 2299), st.sampled_from([1900, 1904, 1999, 2000, 2024, 2096, 2100, 2200, 2296, 2299])),
                     st.one_of(st.integers(1, 12), st.sampled_from([1, 2, 3, 12])),
                     st.one_of(st.integers(1, 31), st.sampled_from([1, 28, 29, 30, 31]))).map(_ymd_ordinal)


def _is_leap(y):
    return y % 4 == 0 and (y % 100 != 0 or y % 400 == 0)


def _boundary_ordinal(x):
    """calendar boundary days as START values: 28 Feb of a non-leap year (the last day of its month AND a day every month has),
    29 Feb, the 30th / 31st, 31 Dec, 1 Jan, 1 Mar"""
    y, which = x
    if which == 0:
        while _is_leap(y):
            y = y + 1 if y < 2299 else y - 1
        return datetime.date(y, 2, 28).toordinal()
    if which == 1:
        while not _is_leap(y):
            y = y + 1 if y < 2296 else y - 1
        return datetime.date(y, 2, 29).toordinal()
    if which == 2:
        return datetime.date(y, 12, 31).toordinal()
    if which == 3:
        return datetime.date(y, 1, 1).toordinal()
    if which == 4:
        return datetime.date(y, 3, 1).toordinal()
    m = [1, 3, 4, 5, 6, 7, 8, 9, 10, 11, 12][which % 11]
    return datetime.date(y, m, 30 if which < 16 else _dim(y, m)).toordinal()


_boundary_day = st.tuples(st.one_of(st.integers(1900, 2299), st.sampled_from([1900, 1999, 2000, 2023, 2024, 2100, 2299])),
                          st.sampled_from([0, 0, 0, 1, 1, 2, 2, 3, 3, 4] + list(range(5, 27)))).map(_boundary_ordinal)
# starts within 90 days of either end of the cycle (the ends themselves boosted): bumped outwards the answer lies outside 1900-2300
_edge_day = st.one_of(st.integers(O_MIN, O_MIN + 89), st.integers(O_MAX - 89, O_MAX), st.sampled_from([O_MIN, O_MIN + 1, O_MAX - 1, O_MAX]))
_ordinal = st.sampled_from([0, 0, 0, 1, 1, 1, 2] * 2 + [3]).flatmap(lambda i: (st.integers(O_MIN, O_MAX), _cal_day, _boundary_day, _edge_day)[i])


def _start_class(t):
    """labels of class 19 (calendar boundary days as start values)"""
    out = []
    if t.month == 2 and t.day == 28 and not _is_leap(t.year):
        out.append('start_feb28_nonleap')
    if t.month == 2 and t.day == 29:
        out.append('start_feb29')
    if t.month == 12 and t.day == 31:
        out.append('start_dec31')
    if t.month == 1 and t.day == 1:
        out.append('start_jan1')
    if t.day >= 30:
        out.append('start_30_31')
    return out


@st.composite
def _raw(draw, tod):
    """raw type of the start: datetime in 7 cases of 8, otherwise pd.Timestamp / numpy datetime64 / (from midnight) datetime.date"""
    if draw(st.sampled_from([True] * 7 + [False])):
        return 0
    return draw(st.sampled_from([1, 2, 3, 3] if list(tod) == [0, 0] else [1, 2]))


@st.composite
def _tz(draw, raw, allowed=True):
    """zone of the start: one case in ten (datetime / Timestamp starts only) lives in a fixed-offset zone off UTC"""
    if not allowed or raw in (2, 3) or draw(st.integers(0, 9)):
        return None
    return draw(st.sampled_from(ZONES))


# ============================================================================= 1. business days (hypothesis)

@st.composite
def _bday_case(draw):
    o = draw(_ordinal)
    tod = draw(_tod)
    n = draw(_n)
    name = None
    if 0 <= n <= 3 and draw(st.integers(0, 2)) == 0:
        name = draw(st.sampled_from(sorted(k for k, v in NAMED.items() if v == n)))
        name = draw(st.sampled_from([name, name.upper(), name.title()]))
    bmag = draw(st.integers(0, NMAX - abs(n)))
    neg = n < 0 or (n == 0 and draw(st.booleans()))
    if n == 0 and draw(st.booleans()):
        # the falsy count from a weekend day: '0b' / 'spot' is NOT a no-op there, it rolls forward to Monday
        wd = datetime.date.fromordinal(o).weekday()
        if wd < 5:
            o = o + draw(st.sampled_from([5, 6])) - wd
            if o > O_MAX:
                o -= 7
    raw = draw(_raw(tod))
    return dict(t=[o, tod[0], tod[1]], n=n, form=draw(_form), name=name, k=draw(st.integers(0, 9)), b=-bmag if neg else bmag,
                api=draw(st.sampled_from(['dt_bump', 'dt_bump', 'dt'])), sib=draw(_sibling(tod)), raw=raw, tz=draw(_tz(raw)))


def run_bday(spec):
    _zone(spec)
    t0 = mk(spec['t'])
    raw = spec.get('raw', 0)
    loose = bool(raw)
    t = as_raw(t0, raw)              # the start in its raw type; the oracles work on the datetime t0
    n, form, api = spec['n'], spec['form'], spec['api']
    s = spec['name'] or fmt(n, 'b', form)
    exp = o_bday(t0, n)
    if exp != o_bday_table(t0, n):
        raise HarnessError('walk oracle and table oracle disagree at %r %+ib' % (t0, n))
    r = _bump(api, t, s)
    _expect(api, t, [s], r, exp, 'the %s weekday %s, same time of day%s'
            % (abs(n), 'after' if n >= 0 else 'before', '; weekend start rolls forward to Monday first' if t0.weekday() >= 5 else ''), loose)
    if r.weekday() >= 5:
        raise Violation('%s(%r, %r) = %r is not a weekday' % (api, t, s, r))
    # monotone in t (day granularity, same time of day)
    t2 = t0 + spec['k'] * DAY
    r2 = _bump(api, as_raw(t2, raw), s)
    _expect(api, as_raw(t2, raw), [s], r2, o_bday(t2, n), 'business-day walk', loose)
    if not r <= r2:
        raise Violation('not monotone in t: %r <= %r but bumped by %r they give %r > %r' % (t, t2, s, r, r2))
    cls = ['n>0' if n > 0 else 'n<0' if n < 0 else 'n=0', 'api=' + api] + _tod_class(spec['t']) + _start_class(t0) + _raw_class(raw) + _zone_class(t0) + _outside(r, r2)
    if spec.get('sib') is not None:
        # same date, other time of day, same bump - asked right after the first one
        ts = mk([spec['t'][0]] + spec['sib'])
        rs = _bump(api, as_raw(ts, raw if raw != 3 else 1), s)
        _expect(api, ts, [s], rs, o_bday(ts, n), 'business-day walk; asked right after the same bump from %r' % t, loose)
        cls.append(_sib_class(spec))
    t = as_raw(t0, 0)               # the plain datetime (in the case's zone, if it has one)
    weekend = t.weekday() >= 5
    if weekend:
        cls.append('start_weekend')
        if n == 0:
            cls.append('zero_b_from_weekend')
    else:
        # same-sign bumps compose
        a, b = n, spec['b']
        sa, sb, sab = fmt(a, 'b', form), fmt(b, 'b', form & 2), fmt(a + b, 'b', form & 2)
        direct = _bump(api, t, sab)
        _expect(api, t, [sab], direct, o_bday(t, a + b), 'business-day walk')
        two = _bump(api, _bump(api, t, sa), sb)
        if two != direct:
            raise Violation('from weekday %r: %r then %r gives %r but %r gives %r' % (t, sa, sb, two, sab, direct))
        multi = _bump(api, t, sa, sb)
        if multi != direct:
            raise Violation('from weekday %r: %s(t, %r, %r) gives %r but %r gives %r' % (t, api, sa, sb, multi, sab, direct))
        comp = _bump(api, t, sa + sb)
        if comp != direct:
            raise Violation('from weekday %r: compound %r gives %r but %r gives %r' % (t, sa + sb, comp, sab, direct))
        # +n then -n
        back = _bump(api, r, fmt(-n, 'b', form & 2))
        if back != t:
            raise Violation('from weekday %r: %r then %r returns to %r' % (t, s, fmt(-n, 'b', form & 2), back))
        if b:
            cls.append('composed')
    crosses = (r.toordinal() - t.toordinal()) != n
    if crosses:
        cls.append('crosses_weekend')
    if spec['name']:
        cls.append('named_tenor')
        if spec['name'] not in (spec['name'].lower(), spec['name'].upper()):
            cls.append('named_tenor_mixed_case')
    if spec['t'][1] or spec['t'][2]:
        cls.append('intraday')
    if abs(n) >= 5:
        cls.append('multi_week')
    if form & 1 and n >= 0:
        cls.append('plus_sign')
    if form & 2:
        cls.append('upper_case')
    if form & 4 and not spec['name']:
        cls.append('zero_padded')
    return dict(nt=weekend or crosses, cls=cls)


# ============================================================================= 2. business days, every day of the cycle x every n

def run_bday_day(spec):
    """one start day (midnight), every n in [-60, 60]: exact result, weekday, monotone against the next day, +n then -n from a weekday"""
    _zone({})
    o = spec['o']
    W, IDX = _weekday_table()
    t = datetime.datetime.fromordinal(o)
    t1 = t + DAY
    wd = t.weekday()
    i0, i1 = IDX[o], IDX[o + 1]
    fo = datetime.datetime.fromordinal
    for n in range(spec['lo'], spec['hi'] + 1):
        s = '%ib' % n
        r = _bump('dt_bump', t, s)
        exp = fo(W[i0 + n])
        if not (type(r) is datetime.datetime and r == exp):
            _expect('dt_bump', t, [s], r, exp, 'weekday number %+i counted from %s' % (n, 'this weekday' if wd < 5 else 'the Monday after this weekend day'))
        r1 = _bump('dt_bump', t1, s)
        if not r <= r1:
            raise Violation('not monotone in t: %r < %r but bumped by %r they give %r > %r' % (t, t1, s, r, r1))
        if o == O_MAX and r1 != fo(W[i1 + n]):
            _expect('dt_bump', t1, [s], r1, fo(W[i1 + n]), 'weekday table')
        if wd < 5:
            sb = '%ib' % -n
            back = _bump('dt_bump', r, sb)
            if back != t:
                raise Violation('from weekday %r: %r then %r returns to %r' % (t, s, sb, back))
    return dict(nt=True, cls=['weekday=%i' % wd] + (['zero_b_from_weekend'] if wd >= 5 and spec['lo'] <= 0 <= spec['hi'] else []))


def enum_bday_days(tier):
    def chunker(i, nchunks):
        for o in range(O_MIN + i, O_MAX + 1, nchunks):
            yield dict(o=o, lo=-NMAX, hi=NMAX)
    return NDAYS, chunker


_bday_day_quick = st.integers(O_MIN, O_MAX).map(lambda o: dict(o=o, lo=-NMAX, hi=NMAX))


# ============================================================================= 3. composition of business-day bumps, all (a, b)

def _sample_weeks():
    nweeks = NDAYS // 7
    special = [(1900, 2, 28), (1999, 12, 31), (2000, 2, 29), (2100, 2, 28), (2299, 12, 25)]
    weeks = set((datetime.date(*d).toordinal() - O_MIN) // 7 for d in special)
    k = 0
    while len(weeks) < 40:
        weeks.add((k * 521 + 3) % nweeks)
        k += 1
    return sorted(weeks)


WEEKS = _sample_weeks()


def _b_range(a):
    """all b of the same sign as a with |a + b| <= 60"""
    if a > 0:
        return range(0, NMAX - a + 1)
    if a < 0:
        return range(-(NMAX + a), 1)
    return range(-NMAX, NMAX + 1)


def run_bday_compose(spec):
    """one weekday start, one a, every b of the same sign with |a+b| <= 60"""
    _zone({})
    t = mk(spec['t'])
    if t.weekday() >= 5:
        raise HarnessError('composition is only claimed from a weekday')
    a = spec['a']
    sa = '%ib' % a
    ra = _bump('dt_bump', t, sa)
    _expect('dt_bump', t, [sa], ra, o_bday_table(t, a), 'weekday table')
    for b in _b_range(a):
        sb, sab = '%ib' % b, '%ib' % (a + b)
        direct = _bump('dt_bump', t, sab)
        exp = o_bday_table(t, a + b)
        if direct != exp:
            _expect('dt_bump', t, [sab], direct, exp, 'weekday table')
        two = _bump('dt_bump', ra, sb)
        if two != direct:
            raise Violation('from weekday %r: %r then %r gives %r but %r gives %r' % (t, sa, sb, two, sab, direct))
        multi = _bump('dt_bump', t, sa, sb)
        if multi != direct:
            raise Violation('from weekday %r: dt_bump(t, %r, %r) gives %r but %r gives %r' % (t, sa, sb, multi, sab, direct))
        comp = _bump('dt_bump', t, sa + sb)
        if comp != direct:
            raise Violation('from weekday %r: compound %r gives %r but %r gives %r' % (t, sa + sb, comp, sab, direct))
    return dict(nt=a != 0, cls=['weekday=%i' % t.weekday(), 'a>0' if a > 0 else 'a<0' if a < 0 else 'a=0'])


def _compose_specs():
    for wi, w in enumerate(WEEKS):
        for wd in range(5):
            sec = [0, 36000, 86399][wi % 3]
            for a in range(-NMAX, NMAX + 1):
                yield dict(t=[O_MIN + 7 * w + wd, sec, 0], a=a)


def enum_bday_compose(tier):
    total = len(WEEKS) * 5 * (2 * NMAX + 1)

    def chunker(i, nchunks):
        for j, spec in enumerate(_compose_specs()):
            if j % nchunks == i:
                yield spec
    return total, chunker


_compose_quick = st.tuples(st.integers(0, NDAYS // 7 - 1), st.integers(0, 4), st.sampled_from([0, 36000, 86399]), st.integers(-NMAX, NMAX)).map(
    lambda x: dict(t=[O_MIN + 7 * x[0] + x[1], x[2], 0], a=x[3]))


# ============================================================================= 4. fixed-length units, ints, timedeltas (hypothesis)

@st.composite
def _fixed_case(draw):
    o = draw(_ordinal)
    tod = draw(_tod)
    kind = draw(st.sampled_from(['d', 'w', 'h', 'n', 's', 'int', 'td', 'npint']))
    if kind == 'int':
        bump = ['int', draw(_n)]
    elif kind == 'npint':
        bump = ['npint', draw(_n), draw(st.sampled_from(['int64', 'int64', 'int32', 'int16']))]
    elif kind == 'td':
        bump = ['td', draw(st.integers(-NMAX, NMAX)), draw(st.one_of(st.just(0), st.integers(-86399, 86399))), draw(st.sampled_from([0, 0, 1, -1, 500000]))]
        if draw(st.integers(0, 3)) == 0:
            # the same duration as a pandas Timedelta (a datetime.timedelta subclass whose .microseconds attribute means something else);
            # these carry a microsecond part of 1000 or more in two cases out of three
            bump[3] = draw(st.sampled_from([bump[3], 500000, 1001, -999999, 123456, 999]))
            bump.append('pd')
    else:
        bump = ['p', draw(_n), kind, draw(_form)]
    raw = draw(_raw(tod))
    return dict(t=[o, tod[0], tod[1]], bump=bump, api=draw(st.sampled_from(['dt_bump', 'dt'])), sib=draw(_sibling(tod)), raw=raw, tz=draw(_tz(raw)))


def _build_fixed(bump):
    """-> (bump object, inverse bump object, expected timedelta, n-ish)"""
    if bump[0] == 'int':
        return bump[1], -bump[1], bump[1] * DAY
    if bump[0] == 'npint':
        import numpy as np
        return getattr(np, bump[2])(bump[1]), getattr(np, bump[2])(-bump[1]), bump[1] * DAY
    if bump[0] == 'td':
        td = datetime.timedelta(days=bump[1], seconds=bump[2], microseconds=bump[3])
        if len(bump) > 4:
            import pandas as pd
            ptd = pd.Timedelta(days=bump[1], seconds=bump[2], microseconds=bump[3])
            if not (ptd == td and -ptd == -td):
                raise HarnessError('pandas Timedelta built for %r is %r' % (td, ptd))
            return ptd, -ptd, td
        return td, -td, td
    _, n, unit, form = bump
    return fmt(n, unit, form), fmt(-n, unit, form & 2), n * FIXED[unit]


def zero_bump(bump):
    return (bump[0] in ('int', 'npint', 'p') and bump[1] == 0) or (bump[0] == 'td' and not (bump[1] or bump[2] or bump[3]))


def run_fixed(spec):
    _zone(spec)
    t0 = mk(spec['t'])
    raw = spec.get('raw', 0)
    pdtd = spec['bump'][0] == 'td' and len(spec['bump']) > 4
    loose = bool(raw) or pdtd
    t = as_raw(t0, raw)
    api = spec['api']
    b, inv, delta = _build_fixed(spec['bump'])
    exp = t0 + delta
    r = _bump(api, t, b)
    _expect(api, t, [b], r, exp, 'adds exactly %r' % delta, loose)
    back = _bump(api, r, inv)
    if not (_is_dt(back, loose) and _eq(back, t0)):
        raise Violation('%s: %r bumped by %r then by %r returns to %r' % (api, t, b, inv, back))
    kind = spec['bump'][0] if spec['bump'][0] != 'p' else 'unit=' + spec['bump'][2]
    cls = [kind, 'api=' + api] + _tod_class(spec['t']) + _start_class(t0) + _raw_class(raw) + _zone_class(t0) + _outside(r)
    if pdtd:
        cls.append('pandas_timedelta')
        if abs(spec['bump'][3]) >= 1000:
            cls.append('pandas_timedelta_ms')
    if spec.get('sib') is not None:
        ts = mk([spec['t'][0]] + spec['sib'])
        rs = _bump(api, as_raw(ts, raw if raw != 3 else 1), b)
        _expect(api, ts, [b], rs, ts + delta, 'adds exactly %r; asked right after the same bump from %r' % (delta, t), loose)
        cls.append(_sib_class(spec))
    t = t0
    if spec['bump'][0] == 'p':
        if spec['bump'][3] & 2:
            cls.append('upper_case')
        if spec['bump'][3] & 1 and spec['bump'][1] >= 0:
            cls.append('plus_sign')
        if spec['bump'][3] & 4:
            cls.append('zero_padded')
    if zero_bump(spec['bump']):
        cls.append('zero_bump')
    zero = delta == datetime.timedelta(0)
    if delta < datetime.timedelta(0):
        cls.append('negative')
    intraday = bool(spec['t'][1] or spec['t'][2])
    if intraday:
        cls.append('intraday_start')
    new_month = (r.year, r.month) != (t.year, t.month)
    if new_month:
        cls.append('crosses_month_end')
    if r.date() != t.date() and spec['bump'][0] == 'p' and spec['bump'][2] in 'hns':
        cls.append('intraday_unit_crosses_midnight')
    return dict(nt=(not zero) and (intraday or new_month), cls=cls)


# ============================================================================= 5. m/q/y at midnight (hypothesis)

# days 29..31 of the months that have them, and 29 February of leap years, are over-weighted
_late_day = st.one_of(
    st.tuples(st.integers(1900, 2299), st.sampled_from([1, 3, 5, 7, 8, 10, 12, 1, 3, 4, 6, 9, 11]), st.sampled_from([29, 30, 31])).map(_ymd_ordinal),
    st.tuples(st.integers(475, 574).map(lambda q: 4 * q), st.just(2), st.just(29)).map(_ymd_ordinal),
)


@st.composite
def _month_case(draw):
    if draw(st.sampled_from([True] + [False] * 11)):
        # 28 February of a non-leap year (the last day of its month, and a day every month has) bumped into the February of a leap year
        y = draw(st.one_of(st.integers(1900, 2299), st.sampled_from([1900, 1903, 2023, 2099, 2100, 2101, 2299])))
        while _is_leap(y):
            y = y + 1 if y < 2299 else y - 1
        unit = draw(st.sampled_from('mqy'))
        per_year = 12 // MONTHS[unit]
        dy = draw(st.sampled_from([d for d in range(-(NMAX // per_year), NMAX // per_year + 1) if _is_leap(y + d)]))
        raw = draw(_raw([0, 0]))
        return dict(t=[datetime.date(y, 2, 28).toordinal(), 0, 0], n=dy * per_year, unit=unit, form=draw(_form), api=draw(st.sampled_from(['dt_bump', 'dt'])), raw=raw,
                    tz=draw(_tz(raw, INCLUDE_AWARE_MONTH)))
    raw = draw(_raw([0, 0]))
    return dict(t=[draw(st.one_of(_cal_day, _late_day, st.integers(O_MIN, O_MAX), _cal_day, _late_day, st.integers(O_MIN, O_MAX), _boundary_day)), 0, 0],
                n=draw(st.one_of(_n, _n, _n, _n, st.sampled_from([-12, -8, -4, -3, -1, 1, 3, 4, 8, 12]))), unit=draw(st.sampled_from('mqy')),
                form=draw(_form), api=draw(st.sampled_from(['dt_bump', 'dt'])), raw=raw, tz=draw(_tz(raw, INCLUDE_AWARE_MONTH)))


def run_month(spec):
    _zone(spec)
    t = mk(spec['t'])
    raw = spec.get('raw', 0)
    n, unit, form, api = spec['n'], spec['unit'], spec['form'], spec['api']
    s = fmt(n, unit, form)
    exp = o_months(t, n * MONTHS[unit])
    r = _bump(api, as_raw(t, raw), s)
    _expect(api, as_raw(t, raw), [s], r, exp, 'month %+i, day of month kept if it exists, otherwise excess days roll into the following month' % (n * MONTHS[unit]), bool(raw))
    cls = ['unit=' + unit, 'api=' + api, 'n>0' if n > 0 else 'n<0' if n < 0 else 'n=0'] + _start_class(t) + _raw_class(raw) + _zone_class(t) + _outside(r)
    if form & 4:
        cls.append('zero_padded')
    if 'start_feb28_nonleap' in cls and _is_leap(exp.year) and exp.month == 2:
        cls.append('feb28_nonleap_to_leap_february')
    if 'start_feb28_nonleap' in cls and n and _dim(exp.year, exp.month) > 28 and exp.day == 28:
        cls.append('month_end_to_longer_month')
    if t.day <= 28:
        si = fmt(-n, unit, form & 2)
        back = _bump(api, r, si)
        if not (_is_dt(back, bool(raw) and _TZ[0] is not None) and _eq(back, t)):
            raise Violation('%s: %r (day <= 28) bumped by %r then by %r returns to %r' % (api, t, s, si, back))
        cls.append('day<=28')
    else:
        cls.append('day>=29')
    if _overflow(t, n, unit):
        cls.append('overflow')
    if t.month == 2 and t.day == 29:
        cls.append('feb29')
    if r.year != t.year:
        cls.append('year_changes')
    return dict(nt=t.day >= 29 and n != 0, cls=cls)


# ============================================================================= 6. m/q/y, every day of the cycle x every n

def run_month_day(spec):
    """one start day (midnight), one unit, every n in [-60, 60]; inverse when day <= 28"""
    _zone({})
    t = datetime.datetime.fromordinal(spec['o'])
    unit = spec['unit']
    k = MONTHS[unit]
    low = t.day <= 28
    over = 0
    base = t.year * 12 + t.month - 1
    day = t.day
    for n in range(spec['lo'], spec['hi'] + 1):
        s = '%i%s' % (n, unit)
        r = _bump('dt_bump', t, s)
        # inlined o_months (same two formulations)
        y, m0 = divmod(base + n * k, 12)
        m = m0 + 1
        dim = _dim(y, m)
        if day <= dim:
            exp = datetime.datetime(y, m, day)
        else:
            over += 1
            exp = datetime.datetime(y, m + 1, day - dim) if m < 12 else datetime.datetime(y + 1, 1, day - dim)
            if exp != datetime.datetime(y, m, 1) + (day - 1) * DAY:
                raise HarnessError('the two formulations of the month oracle disagree at %r %s' % (t, s))
        if not (type(r) is datetime.datetime and r == exp):
            _expect('dt_bump', t, [s], r, exp, 'month %+i, day of month kept if it exists, otherwise excess days roll into the following month' % (n * k))
        if low:
            si = '%i%s' % (-n, unit)
            back = _bump('dt_bump', r, si)
            if back != t:
                raise Violation('%r (day <= 28) bumped by %r then by %r returns to %r' % (t, s, si, back))
    cls = ['unit=' + unit, 'day<=28' if low else 'day>=29']
    if over:
        cls.append('overflow')
    return dict(nt=not low, cls=cls)


def enum_month_days(tier):
    def chunker(i, nchunks):
        for o in range(O_MIN + i, O_MAX + 1, nchunks):
            for unit in 'mqy':
                yield dict(o=o, unit=unit, lo=-NMAX, hi=NMAX)
    return 3 * NDAYS, chunker


_month_day_quick = st.tuples(st.one_of(_cal_day, st.integers(O_MIN, O_MAX)), st.sampled_from('mqy')).map(lambda x: dict(o=x[0], unit=x[1], lo=-NMAX, hi=NMAX))


# ============================================================================= 7. every unit x every n x every spelling on a grid of starts

def _grid_starts():
    days = [(1900, 1, 1), (1900, 2, 28), (1900, 3, 1), (1999, 12, 31), (2000, 1, 1), (2000, 2, 29), (2000, 12, 31), (2004, 2, 29),
            (2023, 1, 31), (2023, 3, 31), (2023, 5, 31), (2023, 8, 31), (2023, 10, 29), (2024, 1, 30), (2024, 12, 31), (2100, 2, 28),
            (2199, 12, 30), (2299, 12, 31)] + [(2022, 10, d) for d in range(17, 24)]      # Monday .. Sunday
    tods = [[36000, 0], [86399, 999999], [1, 0], [43200, 500000], [0, 1]]     # incl. the last microsecond of the day and 1 microsecond past midnight
    out = [[datetime.date(*d).toordinal(), 0, 0] for d in days]
    out += [[datetime.date(*d).toordinal()] + tods[i % 5] for i, d in enumerate(days)]
    return out


STARTS = _grid_starts()          # first half midnight, second half intraday
NMID = len(STARTS) // 2


def run_single(spec):
    """one unit, one n, one start: every spelling (sign / case / int / timedelta / named tenor) through dt_bump and dt"""
    _zone({})
    unit, n = spec['unit'], spec['n']
    t = mk(spec['t'])
    exp = o_part(t, n, unit)
    bumps = [fmt(n, unit, f) for f in (0, 1, 2, 3, 4, 7) if f & 1 == 0 or n >= 0]       # 4 and 7: zero padded
    if unit == 'd':
        bumps += [n, datetime.timedelta(days=n)]
    elif unit in FIXED:
        bumps.append(n * FIXED[unit])
    if unit == 'b':
        bumps += [k for k, v in sorted(NAMED.items()) if v == n] + [k.upper() for k, v in sorted(NAMED.items()) if v == n]
    for b in bumps:
        for api in ('dt_bump', 'dt'):
            r = _bump(api, t, b)
            _expect(api, t, [b], r, exp, 'single-part oracle for %+i%s' % (n, unit))
    cls = ['unit=' + unit]
    if spec['t'][1] or spec['t'][2]:
        cls.append('intraday')
    return dict(nt=n != 0, cls=cls)


def _single_specs():
    for unit in ALL_UNITS:
        starts = STARTS[:NMID] if unit in MONTHS else STARTS
        for n in range(-NMAX, NMAX + 1):
            for t in starts:
                yield dict(unit=unit, n=n, t=t)


def enum_single(tier):
    total = sum(1 for _ in _single_specs())

    def chunker(i, nchunks):
        for j, spec in enumerate(_single_specs()):
            if j % nchunks == i:
                yield spec
    return total, chunker


_single_quick = st.tuples(st.sampled_from(ALL_UNITS), st.integers(-NMAX, NMAX), st.integers(0, len(STARTS) - 1)).map(
    lambda x: dict(unit=x[0], n=x[1], t=STARTS[x[2] % NMID] if x[0] in MONTHS else STARTS[x[2]]))


# ============================================================================= 8. compound tenors (hypothesis)

def _fold(t, parts):
    """left fold of the single-part oracle; also returns class labels seen on the way"""
    seen = set()
    for n, unit, _ in parts:
        if unit == 'b' and t.weekday() >= 5:
            seen.add('b_from_weekend')
        if unit in MONTHS and _overflow(t, n, unit):
            seen.add('month_overflow')
        t = o_part(t, n, unit)
    return t, seen


def _valid(tod, parts):
    """is every m/q/y part applied at midnight? (only h/n/s parts move the time of day)"""
    off = datetime.timedelta(seconds=tod[0], microseconds=tod[1])
    for n, unit, _ in parts:
        if unit in MONTHS and (off.seconds or off.microseconds):
            return False
        if unit in 'hns':
            off = off + n * FIXED[unit]
    return True


HOWS = ['compound', 'compound', 'compound', 'dt', 'multi', 'dt_multi', 'mixed', 'dt_mixed', 'list', 'dt_list', 'list_mixed', 'dt_list_mixed']
MIXED = ('mixed', 'dt_mixed', 'list_mixed', 'dt_list_mixed')      # bumps of several raw types: as separate arguments or inside ONE list
GROUPABLE = ('multi', 'dt_multi', 'list', 'dt_list')               # tenor strings as separate arguments / list members: spec['group'] = g joins parts[:g] and parts[g:] into two tenors


@st.composite
def _compound_case(draw):
    k = draw(st.sampled_from([2, 2, 3, 3, 3]))
    units = [draw(st.sampled_from(ALL_UNITS)) for _ in range(k)]
    months = [i for i, u in enumerate(units) if u in MONTHS]
    last_month = months[-1] if months else -1
    parts = []
    for i, u in enumerate(units):
        if u in 'ns' and i < last_month:
            u = draw(st.sampled_from('bdwmqy'))         # minutes/seconds would leave midnight before a month-based part
        if u == 'h' and i < last_month:
            n = draw(st.sampled_from([-48, -24, 0, 24, 48]))
        else:
            n = draw(_n)
        parts.append([n, u, draw(_form)])
    tod = [0, 0] if last_month >= 0 else draw(_tod)
    # duplicates: one part repeated verbatim (adjacent, or first == last of three) where the result stays inside the claimed domain
    if draw(st.sampled_from([True] + [False] * 6)):
        i, j = draw(st.sampled_from([(0, 1), (0, k - 1), (k - 2, k - 1)]))
        cand = [list(q) for q in parts]
        cand[j] = list(cand[i])
        if _valid(tod, cand):
            parts = cand
    # a zero part in the middle / at an end of the tenor
    if draw(st.sampled_from([True] + [False] * 11)):
        j = draw(st.integers(0, k - 1))
        parts[j][0] = 0
    how = draw(st.sampled_from(HOWS))
    kinds = [draw(st.integers(0, 4)) for _ in range(k)]
    if how in MIXED:
        # at least one bump that can be passed as an int / numpy int / timedelta (a day part never leaves midnight)
        j = draw(st.integers(0, k - 1))
        if parts[j][1] not in FIXED:
            cand = parts[:j] + [[parts[j][0], 'd', parts[j][2]]] + parts[j + 1:]
            if _valid(tod, cand):
                parts = cand
        kinds[j] = draw(st.integers(1, 4))
    sib = None
    if not any(p[1] in MONTHS for p in parts):
        sib = draw(_sibling(tod))
    raw = draw(_raw(tod))
    spec = dict(t=[draw(_ordinal), tod[0], tod[1]], parts=parts, api=how, kinds=kinds, sib=sib, raw=raw,
                tz=draw(_tz(raw, INCLUDE_AWARE_MONTH or not any(p[1] in MONTHS for p in parts))))
    # several tenor STRINGS as separate arguments / list members, one of them itself a two-part tenor: '1y-3m', '2d' or '1y', '-3m2d'
    if how in GROUPABLE and k == 3 and draw(st.sampled_from([True, False])):
        spec['group'] = draw(st.sampled_from([1, 2]))
        # in half of these the later part of the two-part argument carries its own sign, by construction
        j = 1 if spec['group'] == 2 else 2
        if draw(st.booleans()) and not fmt(*parts[j])[0] in '+-':
            parts[j][2] |= 1
    return spec


def _as_object(part, kind):
    """the same bump as string / python int / numpy int / timedelta where the unit allows it"""
    n, unit, form = part
    if unit == 'd' and kind == 1:
        return n
    if unit == 'd' and kind == 2:
        import numpy as np
        return np.int64(n)
    if unit in FIXED and kind == 3:
        return n * FIXED[unit]
    if unit in FIXED and kind == 4:
        import pandas as pd
        return pd.Timedelta(n * FIXED[unit])
    return fmt(n, unit, form)


def _grouped(parts, g):
    """the parts as tenor strings: one string per part, or (g given) the two tenors parts[:g], parts[g:]"""
    if g is None:
        return [fmt(*q) for q in parts]
    if not 0 < g < len(parts):
        raise HarnessError('cannot split %i parts at %r' % (len(parts), g))
    return [fmt_parts(parts[:g]), fmt_parts(parts[g:])]


def _same_objects(a, b):
    """the list a holds exactly the objects of the snapshot b (identity, in order)"""
    return len(a) == len(b) and all(x is y for x, y in zip(a, b))


def _order_matters(t, tod, parts, exp):
    import itertools
    for perm in itertools.permutations(parts):
        if _valid(tod, perm) and _fold(t, perm)[0] != exp:
            return True
    return False


def run_compound(spec):
    _zone(spec)
    t0 = mk(spec['t'])
    raw = spec.get('raw', 0)
    t = as_raw(t0, raw)
    parts = spec['parts']
    tod = spec['t'][1:]
    if not _valid(tod, parts):
        raise HarnessError('month-based part applied off midnight: outside the claimed domain')
    exp, seen = _fold(t0, parts)
    s = fmt_parts(parts)
    how = spec['api']
    api = 'dt' if how.startswith('dt') else 'dt_bump'
    given = None
    if how in ('compound', 'dt'):
        bumps = [s]
    elif how in ('multi', 'dt_multi'):
        bumps = _grouped(parts, spec.get('group'))
    elif how in ('mixed', 'dt_mixed'):
        bumps = [_as_object(q, kd) for q, kd in zip(parts, spec['kinds'])]
    elif how in ('list_mixed', 'dt_list_mixed'):
        given = [_as_object(q, kd) for q, kd in zip(parts, spec['kinds'])]
        bumps = [given]                     # ONE argument that is a list of bumps of several raw types
    else:
        given = _grouped(parts, spec.get('group'))
        bumps = [given]                     # ONE argument that is a list of bumps
    grouped = spec.get('group') is not None
    if grouped and how not in GROUPABLE:
        raise HarnessError('grouped tenors are spelled through the multi / list forms only')
    snapshot = list(given) if given is not None else None
    objects = given if given is not None else bumps
    loose = bool(raw) or any(type(b).__name__ == 'Timedelta' for b in objects)
    why = 'parts applied left to right: %s' % ' then '.join('%+i%s' % (q[0], q[1]) for q in parts)
    r = _bump(api, t, *bumps)
    _expect(api, t, bumps if given is None else [snapshot], r, exp, why, loose)
    if given is not None and not _same_objects(given, snapshot):
        raise Violation('%s(%r, %r) changed the list of bumps it was given to %r' % (api, t, snapshot, given))
    signs = set(1 if q[0] > 0 else -1 for q in parts if q[0])
    units = set(q[1] for q in parts)
    cls = ['k=%i' % len(parts), 'how=' + how] + sorted(seen) + _tod_class(spec['t']) + _start_class(t0) + _raw_class(raw) + _zone_class(t0) + _outside(r)
    if spec.get('sib') is not None:
        ts = mk([spec['t'][0]] + spec['sib'])
        rs = _bump(api, as_raw(ts, raw if raw != 3 else 1), *bumps)
        _expect(api, ts, bumps if given is None else [snapshot], rs, _fold(ts, parts)[0], why + '; asked right after the same bump from %r' % t, loose)
        if given is not None and not _same_objects(given, snapshot):
            raise Violation('%s(%r, %r) changed the list of bumps it was given to %r' % (api, ts, snapshot, given))
        cls.append(_sib_class(spec))
    t = t0
    if any(type(b).__name__ == 'Timedelta' for b in objects):
        cls.append('pandas_timedelta')
    as_text = [True] * len(parts) if how in ('compound', 'dt') or grouped else [isinstance(b, str) for b in objects]
    if grouped:
        cls.append('grouped_tenor_args')
        g = spec['group']
        if fmt(*parts[1 if g == 2 else 2])[0] in '+-':
            cls.append('grouped_tenor_inner_sign')          # the two-part argument's later part carries its own sign: '1y-3m', '2d' / '1y', '2d+3b'
        if given is not None:
            cls.append('grouped_tenors_in_list')
    if any(q[2] & 4 for q, txt in zip(parts, as_text) if txt):
        cls.append('zero_padded')
    if len(signs) == 2:
        cls.append('mixed_sign')
    if units & set(MONTHS):
        cls.append('has_month')
    if 'b' in units:
        cls.append('has_b')
    if units & set('hns'):
        cls.append('has_intraday_unit')
    if len(units) == len(parts):
        cls.append('all_units_differ')
    if any(q[0] < 0 for q in parts[1:]):
        cls.append('later_part_negative')
    if any(q[0] == 0 for q in parts):
        cls.append('zero_part')
    spelled = [fmt(*q) for q in parts]
    if len(set(spelled)) < len(spelled):
        cls.append('duplicate_part')
        if len(parts) == 3 and spelled[0] == spelled[2] != spelled[1]:
            cls.append('duplicate_first_last')
    if _order_matters(t, tod, parts, exp):
        cls.append('order_matters')
    if how in MIXED and len(set(type(b).__name__ for b in objects)) >= 2:
        cls.append('bump_types_mixed')
        if given is not None:
            cls.append('list_of_mixed_types')
        if not isinstance(objects[-1], str) or not isinstance(objects[0], str):
            cls.append('non_string_bump_at_an_end')
        if not isinstance(objects[0], str):
            cls.append('non_string_bump_first')
    if any(q[2] & 2 for q in parts) and any(not q[2] & 2 for q in parts):
        cls.append('mixed_case_units')
    return dict(nt=len(signs) == 2, cls=cls)


# ============================================================================= 9. compound tenors: all unit pairs / triples on a grid

N2 = list(range(-NMAX, NMAX + 1))                 # two-part tenors: every n for both parts
N3 = [-60, -13, -5, -1, 0, 1, 4, 12, 31]          # three-part tenors: 9 values per part
H_DAYS = [-48, -24, 0, 24, 48]


def _values(units, i, grid):
    months = [j for j, u in enumerate(units) if u in MONTHS]
    before_month = bool(months) and i < months[-1]
    if before_month and units[i] == 'h':
        return H_DAYS
    if before_month and units[i] in 'ns':
        return [0]
    return grid


def run_compound_grid(spec):
    """one unit sequence (2 or 3 parts), one start: every n combination of the grid; the spelling rotates with the combination"""
    _zone({})
    units = spec['units']
    t = mk(spec['t'])
    if set(units) & set(MONTHS) and (spec['t'][1] or spec['t'][2]):
        raise HarnessError('month-based tenor from an intraday start is outside the claimed domain')
    grid = N2 if len(units) == 2 else N3
    vals = [_values(units, i, grid) for i in range(len(units))]
    combos = [[a, b] for a in vals[0] for b in vals[1]]
    if len(units) == 3:
        combos = [c + [x] for c in combos for x in vals[2]]
    mixed = False
    seen_all = set()
    for ci, ns in enumerate(combos):
        parts = [[n, u, (ci + j) % 4] for j, (n, u) in enumerate(zip(ns, units))]
        exp, seen = _fold(t, parts)
        seen_all |= seen
        s = fmt_parts(parts)
        r = _bump('dt_bump', t, s)
        if not (type(r) is datetime.datetime and r == exp):
            _expect('dt_bump', t, [s], r, exp, 'parts applied left to right: %s' % ' then '.join('%+i%s' % (p[0], p[1]) for p in parts))
        if min(ns) < 0 < max(ns):
            mixed = True
    cls = ['k=%i' % len(units)] + sorted(seen_all)
    if set(units) & set(MONTHS):
        cls.append('has_month')
    if 'b' in units:
        cls.append('has_b')
    return dict(nt=mixed, cls=cls)


def _compound_grid_specs():
    import itertools
    for k, nstarts in ((2, 4), (3, 8)):
        for units in itertools.product(ALL_UNITS, repeat=k):
            has_month = bool(set(units) & set(MONTHS))
            for si in range(nstarts):
                # rotate through the start grid so that all starts are used; month-based tenors start at midnight
                idx = (si * 5 + ALL_UNITS.index(units[0]) + 3 * ALL_UNITS.index(units[-1])) % NMID
                t = STARTS[idx] if (has_month or si % 2 == 0) else STARTS[NMID + idx]
                yield dict(units=''.join(units), t=t)


def enum_compound_grid(tier):
    total = 81 * 4 + 729 * 8

    def chunker(i, nchunks):
        for j, spec in enumerate(_compound_grid_specs()):
            if j % nchunks == i:
                yield spec
    return total, chunker


@st.composite
def _compound_grid_quick(draw):
    k = draw(st.sampled_from([2, 3]))
    units = ''.join(draw(st.sampled_from(ALL_UNITS)) for _ in range(k))
    idx = draw(st.integers(0, NMID - 1))
    intraday = draw(st.booleans()) and not (set(units) & set(MONTHS))
    return dict(units=units, t=STARTS[NMID + idx] if intraday else STARTS[idx])


# ============================================================================= 10. sessions: several calls on the same objects

KW = {'dt_bump': [['aggregate', 'last'], ['aggregate', 'first']],          # aggregate only says how a bumped time SERIES merges equal stamps
      'dt': [['dialect', 'us'], ['dialect', 'uk'], ['tzinfo', None]]}      # dialect only steers the parsing of strings; tzinfo=None is the default


@st.composite
def _session_case(draw):
    """One or two start objects and a pool of 2-4 bump objects (str / int / numpy int / timedelta / pandas Timedelta), all built ONCE;
    then 2-4 calls whose bump lists are prefixes / extensions / permutations / repetitions of the previous call's. The bumps travel as
    separate arguments, as a fresh list, as one compound string, or in ONE list object owned by the caller that the caller edits in place
    between the calls. The first call may carry a keyword that has no say over a scalar bump; the later ones come without."""
    month_family = draw(st.booleans())
    npool = draw(st.sampled_from([2, 3, 3, 4]))
    pool = []
    for _ in range(npool):
        if month_family:
            u = draw(st.sampled_from('bdwmqymqyh'))
            n = draw(st.sampled_from(H_DAYS)) if u == 'h' else draw(_n)
        else:
            u = draw(st.sampled_from('bbdwhns'))
            n = draw(_n)
        pool.append([n, u, draw(_form), draw(st.sampled_from([0, 0, 0, 1, 2, 3, 4]))])
    tod = [0, 0] if month_family else draw(_tod)
    o = draw(_ordinal)
    t2 = None
    if draw(st.sampled_from([True, False, False])):
        # a second start: the same date at another time of day, or a day nearby (another weekday)
        if not month_family and draw(st.booleans()):
            t2 = [o] + draw(_sibling(tod))
        else:
            t2 = [min(O_MAX, o + draw(st.integers(1, 6))), tod[0], tod[1]]
    how0 = draw(st.sampled_from(['args', 'args', 'list', 'shared', 'shared', 'string']))
    api0 = draw(st.sampled_from(['dt_bump', 'dt_bump', 'dt']))
    calls, prev = [], None
    idx = st.integers(0, npool - 1)
    for ci in range(draw(st.sampled_from([2, 3, 3, 4]))):
        rel = draw(st.sampled_from(['prefix', 'extend', 'extend', 'permute', 'permute', 'same', 'repeat', 'free'])) if prev is not None else 'free'
        if rel == 'prefix' and prev:
            sel = prev[:draw(st.integers(0 if draw(st.sampled_from([True, False, False, False])) else min(1, len(prev) - 1), len(prev) - 1))]
        elif rel == 'extend' and len(prev) < 3:
            rest = [i for i in range(npool) if i not in prev]
            sel = prev + [draw(st.sampled_from(rest)) if rest and draw(st.sampled_from([True, True, True, False])) else draw(idx)]
        elif rel == 'permute' and len(prev) >= 2:
            sel = list(reversed(prev)) if draw(st.booleans()) else prev[1:] + prev[:1]
        elif rel == 'same':
            sel = list(prev)
        elif rel == 'repeat' and prev and len(prev) < 3:
            sel = prev + [prev[-1]]                  # the same bump object twice in one call
        elif draw(st.sampled_from([True, True, True, False])):
            sel = list(draw(st.permutations(list(range(npool)))))[:draw(st.sampled_from([1, 2, 2, 3, 3]))]      # distinct objects
        else:
            sel = [draw(idx) for _ in range(draw(st.sampled_from([1, 2, 2, 3, 3])))]
        prev = sel
        how = how0 if draw(st.sampled_from([True, True, True, False])) else draw(st.sampled_from(['args', 'list', 'shared', 'string']))
        api = api0 if draw(st.sampled_from([True, True, True, False])) else draw(st.sampled_from(['dt_bump', 'dt']))
        kw = None
        if ci == 0 and draw(st.sampled_from([True] + [False] * 5)):
            kw = draw(st.sampled_from(KW[api]))
        calls.append(dict(api=api, sel=sel, how=how, start=1 if t2 is not None and draw(st.sampled_from([True, False, False])) else 0, kw=kw))
    raw = draw(_raw(tod))
    return dict(t=[o, tod[0], tod[1]], t2=t2, raw=raw, pool=pool, calls=calls, tz=draw(_tz(raw, INCLUDE_AWARE_MONTH or not any(q[1] in MONTHS for q in pool))))


def run_session(spec):
    _zone(spec)
    raw = spec.get('raw', 0)
    specs = [spec['t']] + ([spec['t2']] if spec['t2'] is not None else [])
    plain = [mk(ts) for ts in specs]                                                   # what the oracle folds from
    starts = [as_raw(p, raw if (raw != 3 or not (ts[1] or ts[2])) else 1) for p, ts in zip(plain, specs)]   # what the library is handed, built once
    pool = spec['pool']
    objects = [_as_object(q[:3], q[3]) for q in pool]                                  # built once, the same objects in every call
    shared = []                                                                        # the caller's own list of bumps
    cls = set()
    prev_sel, prev_exp, prev_start, prev_kw, prev_shared, nt = None, None, None, None, False, False
    for ci, c in enumerate(spec['calls']):
        sel, api, how = c['sel'], c['api'], c['how']
        parts = [pool[i][:3] for i in sel]
        tod = specs[c['start']][1:]
        if not _valid(tod, parts):
            raise HarnessError('month-based part applied off midnight: outside the claimed domain')
        exp = _fold(plain[c['start']], parts)[0]
        t = starts[c['start']]
        given = None
        if how == 'string':
            args = [fmt_parts(parts)] if parts else []
        elif how == 'args':
            args = [objects[i] for i in sel]
        elif how == 'list':
            given = [objects[i] for i in sel]
            args = [given]
        else:
            before = list(shared)
            shared[:] = [objects[i] for i in sel]             # the caller edits the list object it already passed
            if prev_shared and not _same_objects(before, shared):
                cls.add('shared_list_edited_between_calls')
            given = shared
            args = [given]
            cls.add('shared_list')
        snapshot = list(given) if given is not None else None
        kw = dict([c['kw']]) if c['kw'] else {}
        loose = bool(raw) or any(type(objects[i]).__name__ == 'Timedelta' for i in sel)
        f = _session_api(api)
        try:
            r = call(api, f, t, *args, **kw)
        except Violation as v:
            raise Violation('call %i of the session, %s: %s' % (ci + 1, _show(api, t, args, kw), v))
        why = 'call %i of %i on the same objects; parts applied left to right: %s' % (
            ci + 1, len(spec['calls']), ' then '.join('%+i%s' % (q[0], q[1]) for q in parts) or 'no bump at all')
        if not (_is_dt(r, loose) and _eq(r, exp)):
            if _TZ[0] is not None:
                exp, why = exp.replace(tzinfo=_tzinfo()), why + '; a zone-aware start gives the wall time of the oracle in the same zone'
            raise Violation('%s = %r, expected %r (%s)' % (_show(api, t, args if given is None else [snapshot], kw), r, exp, why))
        cls.update(_outside(r))
        if given is not None and not _same_objects(given, snapshot):
            raise Violation('%s changed the list of bumps it was given to %r' % (_show(api, t, [snapshot], kw), given))
        # ---- classes
        if kw:
            cls.add('option_keyword')
            cls.add('option_' + c['kw'][0])
            if c['kw'] in (['aggregate', 'last'], ['dialect', 'uk'], ['tzinfo', None]):
                cls.add('default_spelled_out')           # the parameter's own default passed explicitly
        if prev_kw and not kw:
            cls.add('keyword_first_then_plain')
        if given is not None:
            if len(given) == 0:
                cls.add('empty_list')
            if len(given) == 1:
                cls.add('one_bump_in_a_list')
            if len(set(type(b).__name__ for b in given)) >= 2:
                cls.add('list_of_mixed_types')
        if not sel:
            cls.add('no_bump')
        if len(set(sel)) < len(sel) and how != 'string':
            cls.add('same_bump_object_twice')
        if prev_sel is not None and c['start'] == prev_start:
            if sel != prev_sel and prev_sel[:len(sel)] == sel:
                cls.add('prefix_of_previous_call')
            if sel != prev_sel and sel[:len(prev_sel)] == prev_sel:
                cls.add('extends_previous_call')
            if sel != prev_sel and sorted(sel) == sorted(prev_sel):
                cls.add('permutation_of_previous_call')
                if exp != prev_exp:
                    cls.add('permutation_changes_result')
            if sel == prev_sel:
                cls.add('same_bumps_again')
            if exp != prev_exp:
                nt = True
        if prev_sel is not None and c['start'] != prev_start:
            cls.add('other_start_object')
        prev_shared = how == 'shared'
        prev_sel, prev_exp, prev_start, prev_kw = sel, exp, c['start'], kw
    cls.add('calls=%i' % len(spec['calls']))
    if any(type(b).__name__ == 'Timedelta' for b in objects):
        cls.add('pandas_timedelta')
    if len(set(c['how'] for c in spec['calls'])) == 1 and len(set(c['api'] for c in spec['calls'])) == 1:
        cls.add('one_call_form_throughout')
    return dict(nt=nt, cls=sorted(cls) + _start_class(plain[0]) + _raw_class(raw) + _zone_class(plain[0]))


def _session_api(api):
    import pyg_base
    return pyg_base.dt_bump if api == 'dt_bump' else pyg_base.dt


def _show(api, t, args, kw):
    return '%s(%s)' % (api, ', '.join([repr(t)] + [repr(a) for a in args] + ['%s=%r' % kv for kv in sorted(kw.items())]))


# ============================================================================= 11. one argument: dt(bump) applies the bump to TODAY

@st.composite
def _today_case(draw):
    """dt(bump) with nothing else: a tenor string of 1-3 parts (nine cases of eleven), a python int or a timedelta. Today is midnight, so the
    tenor may hold m/q/y parts; as everywhere an h/n/s part in front of a later m/q/y part is a whole number of days or replaced"""
    kind = draw(st.sampled_from(['tenor'] * 9 + ['int', 'td']))
    if kind == 'int':
        return dict(bump=['int', draw(_n)])
    if kind == 'td':
        bump = ['td', draw(st.integers(-NMAX, NMAX)), draw(st.one_of(st.just(0), st.integers(-86399, 86399))), draw(st.sampled_from([0, 0, 1, -1, 500000, 1001]))]
        if draw(st.integers(0, 3)) == 0:
            bump.append('pd')
        return dict(bump=bump)
    k = draw(st.sampled_from([1, 2, 2, 2, 3, 3, 3, 3]))
    units = [draw(st.sampled_from(ALL_UNITS)) for _ in range(k)]
    months = [i for i, u in enumerate(units) if u in MONTHS]
    last_month = months[-1] if months else -1
    parts = []
    for i, u in enumerate(units):
        if u in 'ns' and i < last_month:
            u = draw(st.sampled_from('bdwmqy'))
        n = draw(st.sampled_from(H_DAYS)) if (u == 'h' and i < last_month) else draw(_n)
        parts.append([n, u, draw(_form)])
    if k > 1 and draw(st.sampled_from([True] + [False] * 9)):
        parts[draw(st.integers(0, k - 1))][0] = 0                 # a zero part
    if k > 1 and draw(st.sampled_from([True] + [False] * 5)):
        j = draw(st.integers(1, k - 1))                           # a later part with an explicit '+'
        if parts[j][0] >= 0:
            parts[j][2] |= 1
    return dict(bump=['tenor', parts])


def _midnight(now):
    return datetime.datetime(now.year, now.month, now.day)


def run_today(spec):
    _zone({})
    import pyg_base
    bump = spec['bump']
    loose = False
    if bump[0] == 'tenor':
        parts = bump[1]
        if not _valid([0, 0], parts):
            raise HarnessError('month-based part applied off midnight: outside the claimed domain')
        arg = fmt_parts(parts)
        why = 'parts applied left to right from today: %s' % ' then '.join('%+i%s' % (q[0], q[1]) for q in parts)
    elif bump[0] == 'int':
        parts, arg, why = [[bump[1], 'd', 0]], bump[1], 'today plus exactly that many days'
    else:
        arg, _, delta = _build_fixed(bump)
        parts, why, loose = None, 'today plus exactly %r' % (delta,), len(bump) > 4
    # the library reads the clock somewhere inside the call: bracket it by two readings of our own
    before = datetime.datetime.now()
    try:
        r = call('dt', pyg_base.dt, arg)
    except Violation as v:
        raise Violation('dt(%r) [one argument: the bump is applied to today, %s]: %s' % (arg, _midnight(before).date(), v))
    after = datetime.datetime.now()
    todays = [_midnight(before)] + ([_midnight(after)] if _midnight(after) != _midnight(before) else [])
    for t0 in todays:
        if not T_LO <= t0 < T_HI:
            raise HarnessError('the clock of this machine reads %r: outside the claimed range of start days' % t0)
    seen = set()
    exps = []
    for t0 in todays:
        if parts is None:
            exps.append(t0 + delta)
        else:
            e, s = _fold(t0, parts)
            exps.append(e)
            seen |= s
    if not (_is_dt(r, loose) and any(_eq(r, e) for e in exps)):
        raise Violation('dt(%r) = %r, expected %s (%s; today = %s by the clock readings taken right before and right after the call)' % (
            arg, r, ' or '.join(repr(e) for e in exps), why, ' or '.join(str(t0.date()) for t0 in todays)))
    cls = ['bump=' + bump[0]] + sorted('today:' + s for s in seen)          # 'today:...' depend on the day the check runs on: no floors
    if len(todays) == 2:
        cls.append('today:midnight_passed_during_the_call')
    if bump[0] == 'td' and len(bump) > 4:
        cls.append('pandas_timedelta')
    if bump[0] == 'int':
        cls.append('int<0' if bump[1] < 0 else 'int>=0')
    nt = False
    if bump[0] == 'tenor':
        k = len(parts)
        spelled = [fmt(*q) for q in parts]
        units = set(q[1] for q in parts)
        signs = set(1 if q[0] > 0 else -1 for q in parts if q[0])
        cls.append('k=%i' % k)
        if any(s[0] in '+-' for s in spelled[1:]):
            cls.append('later_part_signed')                  # '1y-3m2d', '2w+3d': a part other than the first carries its own sign
        if any(s[0] == '-' for s in spelled[1:]):
            cls.append('later_part_minus')
        if any(s[0] == '+' for s in spelled[1:]):
            cls.append('later_part_plus')
        if k == 3 and spelled[2][0] in '+-' and spelled[1][0] not in '+-':
            cls.append('only_last_part_signed')
        if k > 1 and spelled[0][0] in '+-' and not any(s[0] in '+-' for s in spelled[1:]):
            cls.append('only_leading_sign')
        if k > 1 and not any(s[0] in '+-' for s in spelled):
            cls.append('unsigned_compound')
        if len(signs) == 2:
            cls.append('mixed_sign')
        if units & set(MONTHS):
            cls.append('has_month')
        if 'b' in units:
            cls.append('has_b')
        if units & set('hns'):
            cls.append('has_intraday_unit')
        if any(q[2] & 4 for q in parts):
            cls.append('zero_padded')
        if any(q[2] & 2 for q in parts):
            cls.append('upper_case_unit')
        if k > 1 and any(q[0] == 0 for q in parts):
            cls.append('zero_part')
        if k > 1 and _order_matters(todays[0], [0, 0], parts, exps[0]):
            cls.append('today:order_matters')
        nt = k > 1
    return dict(nt=nt, cls=cls)


# ============================================================================= registration

SUBS = [
    Sub('bday', lambda tier: _bday_case(), run_bday, quick=5000, thorough=20000,
        rule="start anywhere in 1900-2299 (any time of day), n in [-60,60], spelled 'nb' with optional '+' / upper case or as named tenor spot/on/tn/sn, "
             'through dt_bump and dt; oracle: day-by-day walk skipping Sat/Sun after rolling a weekend start to Monday (cross-checked with a weekday table); '
             'lands on weekday, monotone against t + 0..9 days, from a weekday: a then b == a+b (two calls, two bumps, compound string), +n then -n returns; '
             'named tenors in lower / upper / title case; the same bump from a sibling time on the same date (other microsecond / other time) right afterwards; '
             'calendar boundary days as starts (28 Feb of a non-leap year, 29 Feb, 30th/31st, 31 Dec, 1 Jan) boosted; one start in eight handed over as pd.Timestamp / datetime64 / date; '
             'one spelling in seven zero padded; one start in ten zone-aware (fixed offset off UTC: weekday and time of day read on the wall clock of the zone, result in the same zone); '
             'one start in 15 within 90 days of an end of the cycle (results outside 1900-2300); a zero count from a weekend day boosted. non-trivial = starts on a weekend or crosses one',
        floor=0.4, class_floors={'start_weekend': 0.15, 'n<0': 0.25, 'intraday': 0.3, 'composed': 0.3, 'named_tenor': 0.01, 'named_tenor_mixed_case': 0.003,
                                 'sibling_same_second': 0.3, 'sibling_other_time': 0.1, 'microseconds_only': 0.03, 'n=0': 0.01,
                                 'start_feb28_nonleap': 0.013, 'start_feb29': 0.005, 'start_dec31': 0.009, 'start_jan1': 0.06, 'start_30_31': 0.06, 'raw_start': 0.03, 'raw_start=Timestamp': 0.012, 'raw_start=datetime64': 0.012, 'raw_start=date': 0.003, 'zero_padded': 0.04,
                                 'zone_aware_start': 0.05, 'zone_aware_utc_date_differs': 0.035, 'result_outside_cycle': 0.038, 'zero_b_from_weekend': 0.003}),
    EnumSub('bday_all_days', enum_bday_days, run_bday_day, strategy=lambda tier: _bday_day_quick, quick=1000, chunks=64,
            rule="every one of the 146097 days 1900-01-01..2299-12-31 at midnight x every n in [-60,60] (one evaluation = one start day = 121 bumps): "
                 "dt_bump(t,'nb') == n-th entry after t in the table of all weekdays; monotone against the following day; from a weekday +n then -n returns to t"),
    EnumSub('bday_compose', enum_bday_compose, run_bday_compose, strategy=lambda tier: _compose_quick, quick=600, chunks=32,
            rule='40 fixed weeks spread over the cycle x Mon..Fri x every a in [-60,60] (one evaluation = one (start, a) with every b of the same sign, |a+b| <= 60): '
                 "'ab' then 'bb' == '(a+b)b' as two calls, as two bumps of one call and as one compound string; each also equals the weekday table"),
    Sub('fixed_units', lambda tier: _fixed_case(), run_fixed, quick=4000, thorough=10000,
        rule="start anywhere in 1900-2299 with seconds/microseconds; bump = 'nd','nw','nh','nn','ns' (n in [-60,60], optional '+', either case), int n, or timedelta "
             '(days, seconds, microseconds; a quarter of them as pandas Timedelta, mostly with >= 1000 microseconds), numpy ints; through dt_bump and dt; oracle t + timedelta; '
             '+x then -x returns to t; same bump from a sibling time on the same date; boundary-day starts, raw-typed starts, zone-aware starts, starts near the ends of the cycle and zero-padded spellings as in bday. '
             'non-trivial = non-zero bump from an intraday start or into another month',
        floor=0.3, class_floors={'int': 0.04, 'npint': 0.04, 'td': 0.05, 'negative': 0.25, 'intraday_unit_crosses_midnight': 0.02, 'zero_bump': 0.02,
                                 'sibling_same_second': 0.3, 'sibling_other_time': 0.1, 'microseconds_only': 0.03,
                                 'pandas_timedelta': 0.011, 'pandas_timedelta_ms': 0.007, 'start_feb28_nonleap': 0.013, 'start_feb29': 0.005, 'start_dec31': 0.006, 'start_jan1': 0.06, 'start_30_31': 0.055, 'raw_start': 0.025, 'raw_start=Timestamp': 0.012, 'raw_start=datetime64': 0.01, 'raw_start=date': 0.003, 'zero_padded': 0.023,
                                 'zone_aware_start': 0.055, 'zone_aware_utc_date_differs': 0.035, 'result_outside_cycle': 0.023}),
    Sub('month_units', lambda tier: _month_case(), run_month, quick=4000, thorough=10000,
        rule="midnight start anywhere in 1900-2299 (month ends, leap days over-weighted); 'nm','nq','ny', n in [-60,60]; oracle: month arithmetic by integer division, "
             'day kept if it exists else excess rolls into the following month (cross-checked with first-of-month + (day-1) days); inverse when day <= 28; '
             'one case in twelve starts on 28 Feb of a non-leap year and lands in the February of a leap year (must stay the 28th); whole-year multiples of n over-weighted; '
             'raw-typed starts (date / Timestamp / datetime64) and zero-padded spellings. non-trivial = day of month >= 29 and n != 0',
        floor=0.15, class_floors={'overflow': 0.04, 'day<=28': 0.3, 'feb29': 0.005,
                                  'feb28_nonleap_to_leap_february': 0.02, 'month_end_to_longer_month': 0.017, 'start_feb28_nonleap': 0.03, 'start_feb29': 0.035, 'start_dec31': 0.007, 'start_jan1': 0.04, 'start_30_31': 0.08, 'raw_start': 0.035, 'raw_start=Timestamp': 0.007, 'raw_start=datetime64': 0.01, 'raw_start=date': 0.02, 'zero_padded': 0.045, 'result_outside_cycle': 0.05}),
    EnumSub('month_all_days', enum_month_days, run_month_day, strategy=lambda tier: _month_day_quick, quick=1500, chunks=64,
            rule='every one of the 146097 days at midnight x each of m, q, y x every n in [-60,60] (one evaluation = one (day, unit) = 121 bumps): exact result; '
                 '+n then -n returns to t when day <= 28. non-trivial = day of month >= 29'),
    EnumSub('single_grid', enum_single, run_single, strategy=lambda tier: _single_quick, quick=3000, chunks=32,
            rule="every unit letter x every n in [-60,60] x 50 fixed starts (25 midnight incl. month ends / leap days / Mon..Sun, 25 intraday; midnight only for m/q/y): "
                 "every spelling ('n', '+n', upper case, zero padded, int and timedelta for days, timedelta for w/h/n/s, named tenors for 0b..3b) through dt_bump and dt"),
    Sub('compound', lambda tier: _compound_case(), run_compound, quick=6000, thorough=30000,
        rule='two- and three-part tenors over all nine unit letters, n in [-60,60] each, optional + / upper case per part, as one string or as separate bumps, '
             'as one list argument (list left unchanged, also after the sibling call) or as bumps of mixed types (str / int / numpy int / timedelta / pandas Timedelta) passed separately or inside the one list, through dt_bump and dt; '
             'half of the three-part cases of the separate-strings / list-of-strings forms pass TWO tenor strings, one of them itself a two-part tenor, mostly with its own sign inside ("1y-3m", "2d" / "1y", "2d+3b"); '
             'a share with a part repeated verbatim (adjacent or first == last), with zero parts, and with a sibling start on the same date; zone-aware starts (tenors without a month-based part) and starts near the ends of the cycle as in bday; '
             'oracle: left fold of the single-part oracles. non-trivial = parts of both signs',
        floor=0.2, class_floors={'has_month': 0.3, 'has_b': 0.15, 'k=3': 0.3, 'month_overflow': 0.006, 'b_from_weekend': 0.03, 'later_part_negative': 0.3,
                                 'duplicate_part': 0.06, 'duplicate_first_last': 0.01, 'zero_part': 0.04, 'order_matters': 0.08, 'bump_types_mixed': 0.06,
                                 'non_string_bump_first': 0.02, 'how=list': 0.03, 'how=dt_list': 0.03, 'sibling_same_second': 0.1, 'sibling_other_time': 0.03,
                                 'how=list_mixed': 0.02, 'how=dt_list_mixed': 0.02, 'list_of_mixed_types': 0.038, 'pandas_timedelta': 0.03, 'start_feb28_nonleap': 0.009, 'start_feb29': 0.0045, 'start_dec31': 0.007, 'start_jan1': 0.06, 'start_30_31': 0.055, 'raw_start': 0.033, 'raw_start=Timestamp': 0.01, 'raw_start=datetime64': 0.008, 'raw_start=date': 0.012, 'zero_padded': 0.07,
                                 'zone_aware_start': 0.02, 'zone_aware_utc_date_differs': 0.013, 'result_outside_cycle': 0.05,
                                 'grouped_tenor_args': 0.032, 'grouped_tenor_inner_sign': 0.028, 'grouped_tenors_in_list': 0.016}),
    EnumSub('compound_grid', enum_compound_grid, run_compound_grid, strategy=lambda tier: _compound_grid_quick(), quick=60, chunks=32,
            rule='ALL two-part tenors (81 ordered unit pairs x 121^2 values of n) from 4 starts each, and all 729 ordered unit triples x 9^3 values of n from 8 starts each '
                 '(one evaluation = one unit sequence and start with all its n combinations; an h/n/s part in front of a month-based part is restricted to whole days: '
                 'h in {0, +-24, +-48}, n/s = 0); the spelling (+ sign / case) rotates with the combination; oracle: left fold. non-trivial = some combination mixes signs'),
    Sub('session', lambda tier: _session_case(), run_session, quick=3000, thorough=15000,
        rule='one or two start objects and a pool of 2-4 bump objects (str / int / numpy int / timedelta / pandas Timedelta) built ONCE, then 2-4 calls of dt_bump / dt on them whose '
             'bump lists are prefixes, extensions, permutations or repetitions of the previous call\'s (0-3 bumps per call; the same object may occur twice in a call); bumps as separate '
             'arguments, as a fresh list, as one compound string, or in ONE caller-owned list object that the caller edits in place between calls (must come back unchanged each time); '
             'the first call may carry a keyword that has no say over a scalar bump (aggregate=, dialect=, tzinfo=None), the later ones come plain; every call is judged by the left fold '
             'of the single-part oracles from its own start, so no result may depend on an earlier call; zone-aware start objects when no bump of the pool is month-based. non-trivial = two consecutive calls from the same start object with different expected results',
        floor=0.18, class_floors={'shared_list': 0.12, 'shared_list_edited_between_calls': 0.07, 'option_keyword': 0.07, 'option_aggregate': 0.055, 'option_dialect': 0.014, 'option_tzinfo': 0.003, 'keyword_first_then_plain': 0.07, 'empty_list': 0.011, 'one_bump_in_a_list': 0.057, 'list_of_mixed_types': 0.05, 'no_bump': 0.033, 'same_bump_object_twice': 0.09, 'prefix_of_previous_call': 0.08, 'extends_previous_call': 0.12, 'permutation_of_previous_call': 0.09, 'permutation_changes_result': 0.012, 'same_bumps_again': 0.064, 'other_start_object': 0.063, 'pandas_timedelta': 0.048, 'one_call_form_throughout': 0.16, 'raw_start': 0.03, 'calls=4': 0.054, 'start_feb28_nonleap': 0.007, 'start_feb29': 0.003, 'start_dec31': 0.0055, 'start_jan1': 0.05, 'start_30_31': 0.054,
                                  'zone_aware_start': 0.028, 'zone_aware_utc_date_differs': 0.016, 'result_outside_cycle': 0.045, 'default_spelled_out': 0.036}),
    Sub('today', lambda tier: _today_case(), run_today, quick=1500, thorough=3000,
        rule='the one-argument form dt(bump): the bump is applied to TODAY (midnight of the local date). Bump = a tenor string of 1-3 parts over all nine unit letters, n in [-60,60] each, every part with its own '
             'optional + / - sign, upper case, zero padding (so most compound tenors carry a sign inside: "1y-3m2d", "2w+3d"), a python int, or a timedelta / pandas Timedelta. The library reads the wall clock, so the harness '
             'reads it right before and right after the call and accepts the left fold of the single-part oracles from midnight of either reading (they differ only when midnight passes in between): only the tenor grammar and '
             'the arithmetic are judged. Classes named today:... depend on the day of the run and carry no floor. non-trivial = a tenor of two or three parts',
        floor=0.4, class_floors={'bump=tenor': 0.3, 'bump=int': 0.006, 'int<0': 0.003, 'bump=td': 0.02, 'pandas_timedelta': 0.01, 'k=1': 0.014, 'k=2': 0.1, 'k=3': 0.18, 'later_part_signed': 0.25, 'later_part_minus': 0.17, 'later_part_plus': 0.11, 'only_last_part_signed': 0.02, 'only_leading_sign': 0.013, 'unsigned_compound': 0.015, 'mixed_sign': 0.1, 'has_month': 0.16, 'has_b': 0.08, 'has_intraday_unit': 0.12, 'zero_padded': 0.06, 'upper_case_unit': 0.2, 'zero_part': 0.075}),
]
