# -*- coding: utf-8 -*-
"""
C11 - listby/unlist, groupby/ungroup and pivot/unpivot are lossless regroupings.

Three sub-checks, each   plain-data table spec -> dictable -> regroup -> compare with a list-of-records model:

  listby_unlist    d.listby(keys): one row per distinct key, other cells list that key's values in original row order;
                   .unlist() == the original stably sorted by the keys
  groupby_ungroup  d.groupby(keys): one sub-table per distinct key, sizes add up, .ungroup() restores the multiset of rows
  pivot_unpivot    d.xyz/pivot(x, y, z, agg): cell (x key, label(y)) = agg(z values in row order) / None where no row;
                   .unpivot(x, y, z) minus the None cells = one (x, label(y), aggregated z) row per distinct (x, y)

The model never looks at the dictable: it is built from the spec. Key equality of the model is written out for the scalar
universe (None is None, numbers by value so that 1 and 1.0 are one key, strings / datetimes by type and value) and groups
are found with nested loops (no hashing, no sorting).
"""
from collections import Counter

from hypothesis import strategies as st

from pv.core import Sub, call, check, short
from pv.codec import build, Env, token, vtoken, s_scalar, s_dt, S_INTS, S_FLOATS, S_STRS, D0

ASSUMPTIONS = [
    'cells are None, ints, finite floats, strings, datetimes (no NaN: NaN key identity is C02 territory; no bools; no +-inf)',
    'key columns hold -inf / +inf in a share of the cases: two ordinary, distinct keys, -inf below and +inf above every finite number (F22)',
    'ints include 2**53, 2**53+1 and -(2**53)-1 next to float(2**53) in a share of the key columns: int/float key equality of the model is exact '
    '(python ==), so 2**53 and float(2**53) are one key and 2**53+1 is another (F19: cmp used to compare ints after float())',
    'a dedicated share of tables has 200/256/300 rows, ONE key column of 2-5 distinct ints and/or floats and a non-key column with a distinct int per row '
    '(the place where a vectorised numeric grouping path would live)',
    'large tables (64/65/100/128/200 rows; wide pivots of 24-200 rows with 20-30 labels) are a pattern of 2-9 generated rows repeated ("tiled": interleaved, '
    '"blocks": equal keys adjacent) with a distinct int per row in one non-key column, so keys are few and groups are big; about 1-3% of the cases',
    'the table a regrouping is called on must still hold the same cells afterwards, and calling the inverse (unlist / ungroup / unpivot) a second time '
    'must give the same table again - otherwise "the original table" / "restores" would hold for the first call only',
    'column names: single letters k,j,u,w,m,n (40%), families of nested names (trade_id/trade/id/de, date/da/te/at, kkk/kk/k, uw/u/w/uwm, n_m/n/m/nm; 40%) '
    'so that names are substrings, prefixes and suffixes of each other, or one or two of the parameter names columns/data/key/grp/index/axis/self among '
    'single letters (20%), as key and as non-key columns; tables are always built through the dict form dictable({name: values}), never through keywords; '
    'never an attribute of dictable/Dict, a name starting with an underscore, or a string cell (so a pivot label cannot overwrite an x column)',
    'pivot: x, y, z and bystander columns may carry every one of the names columns/data/key/grp/index/axis/self (F25: xyz selects rs[[y]] and d[[names]] used to '
    'be built through **keywords, losing a column named columns and raising on self; regression input replays/C11/F25-pivot-y-named-columns.json)',
    'a column named grp is only used with groupby(..., grp=\'g\') / ungroup(\'g\') (it would collide with the default group column); a KEY column named self is '
    'not used with groupby: ungroup() passes the key cells as keyword arguments to Dict.__call__(self, **kwargs) and raises TypeError (minor candidate defect, reported)',
    'keys are a non-empty proper subset of the columns, spelled as *names or as one list of names (listby() with no keys and listby([]) are other contracts)',
    'key cells of the regrouped table are compared with == (the group representative of the keys 1 and 1.0 may be either); all other cells by type and value',
    '"sorted by the keys" is judged with pyg_base.cmp on the key tuples (the library-defined mixed-type order, itself the subject of C07) and, '
    'where two neighbouring keys are natively comparable, with the native tuple order as well',
    'empty tables: listby/groupby return an empty table; only "no rows" is demanded of unlist/ungroup (ungroup of an empty table has no columns at all)',
    'pivot: non-empty tables only (dictable.pivot of an empty table raises, DESIGN section 4); x = 1-2 column names (str or list), y and z column names',
    'pivot: the y column holds only strings, only ints, only floats, only datetimes, or a mix of strings/ints/datetimes (label rendering must be injective: '
    'no None, no digit strings next to ints, and never ints next to floats because 1 and 1.0 are one key but two labels); '
    'a label is accepted when it equals the y value or str(y value)',
    'pivot: z cells are not None (so that "None cell" means "no row"); with agg=sum the z cells are numbers',
    'pivot: aggregators are None (list of values), pyg_base.last, builtin sum, builtin len, builtin tuple; row and column ORDER of the pivot table is not asserted (the statement does not promise it)',
    'groupby sub-tables are expected to list the rows of their key in original row order ("likewise")',
]

KNOWN = {}      # no known findings: nothing is excluded from the search

_COLS = ['k', 'j', 'u', 'w', 'm', 'n']
# families of column names in which some names are substrings / prefixes / suffixes of others (a name test written as
# `name in other_name` instead of `name in [names]` goes wrong exactly here). None of them is a dictable/Dict attribute,
# a constructor parameter, the default group column, or a string cell / pivot label of the universe.
_FAMILIES = [['trade_id', 'trade', 'id', 'de'], ['date', 'da', 'te', 'at'], ['kkk', 'kk', 'k'], ['uw', 'u', 'w', 'uwm'], ['n_m', 'n', 'm', 'nm']]
_ALL_NAMES = sorted(set(_COLS + [c for f in _FAMILIES for c in f]))


# names of parameters of dictable.__init__ / Dict.__call__ / groupby and the like: a table built as type(self)(**{name: values}) instead of
# type(self)({name: values}) loses (or misreads) such a column. Tables are always built through the dict form here.
_CTOR_NAMES = ['columns', 'data', 'key', 'grp', 'index', 'axis', 'self']


def _col_names(draw, ncols):
    """40%: single letters; 40%: a family of nested names first, filled up with other names; 20%: one or two names of constructor parameters among single letters"""
    kind = draw(st.sampled_from(['letters', 'family', 'letters', 'family', 'ctor']))
    if kind == 'letters':
        return list(draw(st.permutations(_COLS))[:ncols])
    if kind == 'ctor':
        special = list(draw(st.permutations(_CTOR_NAMES))[:draw(st.sampled_from([1, 1, 2]))])
        return list(draw(st.permutations((special + list(draw(st.permutations(_COLS))))[:ncols])))
    fam = list(draw(st.permutations(draw(st.sampled_from(_FAMILIES)))))
    rest = [c for c in draw(st.permutations(_ALL_NAMES)) if c not in fam]
    return (fam + rest)[:ncols]


def _name_classes(keys, others):
    """class labels about substring relations between key column names and the other column names"""
    cls = []
    if any(o != k and o in k for o in others for k in keys):
        cls.append('colname_substring_of_key')
        if len(keys) == 1:
            cls.append('colname_substring_of_single_key')
    if any(o != k and k in o for o in others for k in keys):
        cls.append('key_substring_of_colname')
    if any(len(c) > 1 for c in list(keys) + list(others)):
        cls.append('multichar_names')
    if any(c in _CTOR_NAMES for c in list(keys) + list(others)):
        cls.append('column_named_like_ctor_parameter')
        if any(c in _CTOR_NAMES for c in others):
            cls.append('ctor_name_nonkey')
        if any(c in _CTOR_NAMES for c in keys):
            cls.append('ctor_name_key')
        for c in list(keys) + list(others):
            if c in ('columns', 'data'):
                cls.append('column_named_' + c)
    return cls


# ----------------------------------------------------------------------------- model helpers (plain python)

def _isnum(x):
    return isinstance(x, (int, float)) and not isinstance(x, bool)


def _keq(a, b):
    """key equality of two scalars of the universe (no NaN here)"""
    if a is None or b is None:
        return a is None and b is None
    if _isnum(a) or _isnum(b):
        return _isnum(a) and _isnum(b) and a == b
    return type(a) is type(b) and a == b


def _keqt(a, b):
    return len(a) == len(b) and all(_keq(x, y) for x, y in zip(a, b))


def _same(a, b):
    """exact equality: same type, same value (lists element-wise)"""
    return token(a) == token(b)


def _groups(keys):
    """[(key tuple of first occurrence, [row positions in original order])] in order of first occurrence; nested loops only"""
    res = []
    for i, k in enumerate(keys):
        for g in res:
            if _keqt(g[0], k):
                g[1].append(i)
                break
        else:
            res.append((k, [i]))
    return res


def _tclass(v):
    """type class of a cell *spec*"""
    if v is None:
        return 'none'
    if isinstance(v, bool):
        return 'bool'
    if isinstance(v, (int, float)):
        return 'num'
    if isinstance(v, str):
        return 'str'
    return 'num' if v[0] == 'inf' else v[0]


_LARGE_N = [64, 65, 64, 65, 100, 128, 200]        # the thresholds 64/65 twice: they are the cheapest large tables
_WIDE_N = [24, 40, 64, 65, 100, 128, 200]


def _wide_label(kind, j):
    """the j-th of the many y labels of a wide pivot (a value *spec*)"""
    if kind == 'int' or (kind == 'mixed' and j % 3 == 0):
        return j
    if kind == 'str' or (kind == 'mixed' and j % 3 == 1):
        return 'c%02i' % j
    return ['dt', D0 + j, 0]


def _expand(spec):
    """
    {column: [cell specs]} of the table. Small tables are written out in spec['data']. Large tables are spec['data'] (a pattern of a
    few rows) blown up by spec['tile'] = {n, layout, pos, [wide]}:
        layout 'tiled'  : row i = pattern row i % m            (keys interleaved, every group is spread over the whole table)
        layout 'blocks' : row i = pattern row i * m // n       (equal keys already adjacent, but blocks not in key order)
        pos             : columns that hold a distinct scrambled int per row instead (so that order inside groups is visible)
        wide            : {col, labels, kind}: that column cycles through `labels` (>= 20) distinct pivot labels
    """
    cols = list(spec['cols'])
    tile = spec.get('tile')
    if not tile:
        return {c: list(spec['data'][c]) for c in cols}
    n, m = tile['n'], len(spec['data'][cols[0]])
    src = [i % m for i in range(n)] if tile['layout'] == 'tiled' else [i * m // n for i in range(n)]
    data = {c: [spec['data'][c][j] for j in src] for c in cols}
    for c in tile.get('pos', []):
        data[c] = [(i * 37 + 11) % 509 for i in range(n)]            # distinct for n < 509, not monotone
    wide = tile.get('wide')
    if wide:
        data[wide['col']] = [_wide_label(wide['kind'], (i * 7) % wide['labels']) for i in range(n)]
    return data


def _build_table(spec):
    from pyg_base import dictable
    env = Env()
    cols = list(spec['cols'])
    sdata = _expand(spec)
    data = {c: [build(v, env) for v in sdata[c]] for c in cols}
    n = len(data[cols[0]])
    d = dictable({c: list(data[c]) for c in cols})
    return d, cols, data, n


def _snapshot(t):
    return {k: list(v) for k, v in dict.items(t)}


def _check_unchanged(what, t, snap, desc):
    """the table a regrouping was called on still holds the very same cells"""
    now = {k: v for k, v in dict.items(t)}
    ok = len(now) == len(snap) and all(k in now and len(now[k]) == len(v) and all(a is b for a, b in zip(now[k], v)) for k, v in snap.items())
    check(ok, '%s modified the table it was called on: %s is now %s', what, desc, short(now, 300))


def _check_again(what, first, second):
    """calling the inverse a second time gives the same table again (the regrouped table is not used up by the first call)"""
    a, b = _columns_of(first), _columns_of(second)
    ok = len(a) == len(b) and all(any(k is k2 or k == k2 for k2 in b) for k in a) and all(token(v) == token(b[k]) for k, v in a.items())
    check(ok, '%s called a second time gives a different result: first %s, then %s', what, short(a, 250), short(b, 250))


def _columns_of(t):
    """the underlying {column: list} of a dictable, read without any pyg_base logic"""
    return {k: list(v) for k, v in dict.items(t)}


def _check_table(what, t, want_cols, dictable):
    check(isinstance(t, dictable), '%s returned %s, not a dictable', what, type(t).__name__)
    cd = _columns_of(t)
    check(len(cd) == len(want_cols) and all(any(c is w or c == w for w in want_cols) for c in cd),
          '%s has columns %s, expected %s', what, list(cd), list(want_cols))
    lens = set(len(v) for v in cd.values())
    check(len(lens) <= 1, '%s is not rectangular: column lengths %s', what, {k: len(v) for k, v in cd.items()})
    return cd, (lens.pop() if lens else 0)


def _match_groups(what, groups, got_keys, table_desc):
    """got_keys: key tuples of the regrouped table. returns for each result row the index of its model group (a bijection)"""
    check(len(got_keys) == len(groups), '%s on %s has %s rows but there are %s distinct keys %s',
          what, table_desc, len(got_keys), len(groups), [g[0] for g in groups])
    idx = []
    for k in got_keys:
        hits = [gi for gi, g in enumerate(groups) if _keqt(g[0], k)]
        check(len(hits) == 1, '%s on %s has a row with key %s which is not a key of the table', what, table_desc, k)
        check(hits[0] not in idx, '%s on %s has two rows for the key %s', what, table_desc, k)
        idx.append(hits[0])
    return idx


def _key_order_ok(what, k1, k2, table_desc):
    """k1 precedes k2 in a table 'sorted by the keys' (both are distinct keys)"""
    from pyg_base import cmp
    c = call('cmp(%s, %s)' % (short(k1, 60), short(k2, 60)), cmp, k1, k2)
    check(c == -1, '%s on %s is not sorted by the keys: key %s comes before key %s but cmp says %s', what, table_desc, k1, k2, c)
    try:
        native = k1 < k2
    except TypeError:
        return
    check(native, '%s on %s is not sorted by the keys: key %s comes before the smaller key %s', what, table_desc, k1, k2)


def _key_classes(spec, by):
    cls = []
    mixed = False
    for c in by:
        tcs = set(_tclass(v) for v in spec['data'][c])
        if len(tcs) >= 2:
            mixed = True
        if any(isinstance(v, float) for v in spec['data'][c]) and any(isinstance(v, int) and not isinstance(v, bool) for v in spec['data'][c]):
            cls.append('int_and_float_key')
    if mixed:
        cls.append('mixed_type_key')
    if any(v is None for c in by for v in spec['data'][c]):
        cls.append('none_key')
    if any(isinstance(v, list) and v[0] == 'inf' for c in by for v in spec['data'][c]):
        cls.append('inf_key')
    bigs = set(repr(v) for c in by for v in spec['data'][c] if isinstance(v, (int, float)) and not isinstance(v, bool) and abs(v) >= 2 ** 53)
    if bigs:
        cls.append('bigint_key')
        if len(bigs) >= 3:
            cls.append('bigint_key_3_spellings')     # e.g. 2**53, float(2**53) (one key) and 2**53+1 (another key)
    if any(v is None or (isinstance(v, (int, float, str)) and not v) for c in by for v in spec['data'][c]):
        cls.append('falsy_key')          # None, 0, 0.0, '' as a key cell
    return sorted(set(cls)), mixed


# ----------------------------------------------------------------------------- generators

_S = s_scalar()                                # None, ints -3..6, 5 floats, 5 strings, 10 datetimes
_TWINS = st.sampled_from([1, 1.0, 2, 2.0, 0, 0.0, 2.5])


_BIG = [2 ** 53, 2 ** 53 + 1, float(2 ** 53), -(2 ** 53) - 1]      # float() merges the first three; exact comparison does not
_HOMOG = [st.integers(0, 2), st.sampled_from(['a', 'b', 'ab']), _TWINS, s_dt(3),
          st.one_of(st.none(), st.integers(0, 1)), st.one_of(st.sampled_from(['a', 'b']), st.integers(0, 1)),
          st.sampled_from(_BIG), st.sampled_from(_BIG + [0, None, 'a']),
          st.sampled_from([['inf', 1], ['inf', -1], 0, 1.0, 2 ** 53]), st.sampled_from([['inf', 1], ['inf', -1], None, 'a', -1.5])]      # +-inf: two ordinary keys (F22)


def _cells(draw, key_like):
    """
    draws the cell strategy of one column (or None for a column of distinct ints). key columns are biased to heavy duplication:
    a small pool of 2-4 mixed-type values, a narrow homogeneous universe (incl. int/float twins), or the whole universe S.
    """
    kind = draw(st.sampled_from(['pool', 'pool', 'homog', 'homog', 'free'] if key_like else ['pool', 'homog', 'free', 'free', 'unique', 'unique']))
    if kind == 'pool':
        return st.sampled_from(draw(st.lists(_S, min_size=2 if key_like else 1, max_size=4)))
    if kind == 'homog':
        return draw(st.sampled_from(_HOMOG))
    if kind == 'free':
        return _S
    return None


def _lottery(content, k):
    """
    a number in range(k) that depends only on the drawn content. Used to pick the rare large cases: hypothesis draws small
    integer ranges far from uniformly (measured: 0.3% to 3% for one value of 60), a checksum of the content is uniform.
    """
    import json
    import zlib
    return zlib.crc32(json.dumps(content, sort_keys=True).encode()) % k


_NUM_N = [200, 256, 300]
_NUM_UNIVERSE = {'ints': [-3, -1, 0, 1, 2, 3, 5, 6], 'floats': [-1.5, 0.0, 1.0, 2.0, 2.5], 'ints_and_floats': [0, 1, 2, 5, -1.5, 2.5, 0.5]}


def _numeric_key_pattern(draw):
    """a pattern column of 2-9 cells holding 2-5 distinct ints and/or floats (every value at least once), in drawn order"""
    kind = draw(st.sampled_from(['ints', 'floats', 'ints_and_floats']))
    vals = draw(st.lists(st.sampled_from(_NUM_UNIVERSE[kind]), min_size=2, max_size=5, unique=True))
    more = draw(st.lists(st.sampled_from(vals), max_size=9 - len(vals)))
    if kind == 'ints_and_floats':
        more = [float(v) if isinstance(v, int) and draw(st.booleans()) else v for v in more]     # the float spelling of an int key: same key
    return list(draw(st.permutations(vals + more)))


def _numeric200(draw, spec, key, pos_col):
    """turns a drawn case into the dedicated class: 200/256/300 rows, ONE purely numeric key column with 2-5 distinct values, a distinct int per row in pos_col"""
    pattern = _numeric_key_pattern(draw)
    m = len(pattern)
    old = spec['data']
    spec['data'] = {c: (pattern if c == key else [old[c][i % len(old[c])] for i in range(m)]) for c in spec['cols']}
    spec['tile'] = dict(n=draw(st.sampled_from(_NUM_N)), layout=draw(st.sampled_from(['tiled', 'tiled', 'blocks'])), pos=[pos_col])
    return spec


def _rows(draw, strategies, lo, top):
    """a list of rows (so that rows are what shrinks away), returned as columns; None strategy = distinct scrambled ints"""
    n_min = draw(st.sampled_from([3, 6, 2, lo]))          # hypothesis favours (and shrinks to) the first choice: make that a useful size
    rows = draw(st.lists(st.tuples(*[s if s is not None else st.none() for s in strategies]), min_size=n_min, max_size=top))
    columns = []
    for j, s in enumerate(strategies):
        if s is None:
            columns.append([(i * 7 + 3) % 17 for i in range(len(rows))])      # distinct for < 17 rows, not monotone
        else:
            columns.append([r[j] for r in rows])
    return columns


@st.composite
def _regroup_case(draw, tier, with_grp=False):
    big = tier == 'thorough'
    top = 14 if big else 9
    ncols = draw(st.integers(2, 5 if big else 4))
    cols = _col_names(draw, ncols)
    nby = draw(st.sampled_from([1, 1] + list(range(1, ncols))))
    by = list(draw(st.permutations(cols))[:nby])
    if with_grp and 'self' in by:
        # ungroup() hands the key cells over as keyword arguments: a KEY column named self cannot work there (recorded in ASSUMPTIONS)
        by = [c for c in by if c != 'self'] or [[c for c in cols if c != 'self'][0]]
    cols = list(draw(st.permutations(cols)))
    strategies = [_cells(draw, c in by) for c in cols]
    columns = _rows(draw, strategies, 0, top)
    spec = dict(cols=cols, data=dict(zip(cols, columns)), by=by, form=draw(st.sampled_from(['names', 'list'])))
    lot = _lottery(columns, 40) if len(columns[0]) >= 2 else -1
    if lot == 3:
        # a LARGE table with few distinct keys (big groups): the pattern drawn above blown up to 64..200 rows (see _expand)
        spec['tile'] = dict(n=draw(st.sampled_from(_LARGE_N)), layout=draw(st.sampled_from(['tiled', 'blocks'])),
                            pos=[c for c, s in zip(cols, strategies) if s is None] or [[c for c in cols if c not in by][0]])
    elif lot in (7, 27):
        # the dedicated class: >= 200 rows grouped on ONE purely numeric key column
        spec['by'] = by[:1]
        _numeric200(draw, spec, by[0], [c for c in cols if c not in by][0])
    if with_grp:
        spec['grp'] = 'g' if 'grp' in cols else draw(st.sampled_from(['grp', 'grp', 'g']))     # a column named grp needs a custom group column name
    return spec


def _shape_classes(spec, n, cols, by, data, ordered_groups):
    """class labels about size, layout and order; ordered_groups = the model groups in the order of the regrouped table"""
    cls = []
    if n == 1:
        cls.append('one_row')
    if n >= 64:
        cls += ['rows>=64', 'rows=%i' % n, 'large_' + spec['tile']['layout'], 'biggest_group>=%i' % (16 if max(len(g[1]) for g in ordered_groups) >= 16 else 2)]
    if n >= 200 and len(by) == 1 and all(_isnum(v) for v in data[by[0]]) and len(ordered_groups) >= 2:
        cls.append('rows>=200_single_numeric_key')
    if len(by) >= 2 and [c for c in cols if c in by] != list(by):
        cls.append('by_not_in_column_order')
    if ordered_groups and len(ordered_groups) >= 2:
        if len(ordered_groups[0][1]) >= 2:
            cls.append('dup_in_first_group')
        if len(ordered_groups[-1][1]) >= 2:
            cls.append('dup_in_last_group')
    rows = [tuple(token(data[c][i]) for c in cols) for i in range(min(n, 20))]
    if len(set(rows)) < len(rows):
        cls.append('identical_rows')
    return cls


# ----------------------------------------------------------------------------- listby / unlist

def run_listby(spec):
    from pyg_base import dictable
    d, cols, data, n = _build_table(spec)
    by = list(spec['by'])
    others = [c for c in cols if c not in by]
    args = by if spec['form'] == 'names' else [list(by)]
    desc = short({c: data[c] for c in cols}, 400)
    what = 'listby(%s)' % (', '.join(repr(a) for a in args))
    keys = [tuple(data[c][i] for c in by) for i in range(n)]
    groups = _groups(keys)
    snap = _snapshot(d)

    L = call(what, d.listby, *args)
    _check_unchanged(what, d, snap, desc)
    Lc, ln = _check_table('%s on %s' % (what, desc), L, cols, dictable)
    got_keys = [tuple(Lc[c][i] for c in by) for i in range(ln)]
    if n == 0:
        check(ln == 0, '%s of an empty table has %s rows', what, ln)
    else:
        idx = _match_groups(what, groups, got_keys, desc)
        for r, gi in enumerate(idx):
            pos = groups[gi][1]
            for c in others:
                cell = Lc[c][r]
                exp = [data[c][p] for p in pos]
                check(isinstance(cell, list) and len(cell) == len(exp) and all(_same(a, b) for a, b in zip(cell, exp)),
                      '%s on %s: key %s lists %s = %s, expected that key\'s values in original row order %s', what, desc, got_keys[r], c, cell, exp)

    U = call('%s.unlist()' % what, L.unlist)
    if n == 0:
        check(isinstance(U, dictable) and all(len(v) == 0 for v in _columns_of(U).values()),
              '%s.unlist() of an empty table is not empty: %s', what, U)
        return dict(nt=False, cls=['empty'])
    Uc, un = _check_table('%s.unlist() on %s' % (what, desc), U, cols, dictable)
    check(un == n, '%s.unlist() on %s has %s rows, the table has %s', what, desc, un, n)
    # expected: blocks of equal keys, each block = that key's rows in original order, blocks increasing by key
    r = 0
    seen = []
    prev_key = None
    while r < n:
        k = tuple(Uc[c][r] for c in by)
        hits = [gi for gi, g in enumerate(groups) if _keqt(g[0], k)]
        check(len(hits) == 1, '%s.unlist() on %s: row %s has key %s which is not a key of the table', what, desc, r, k)
        gi = hits[0]
        check(gi not in seen, '%s.unlist() on %s: rows of key %s are not contiguous (so it is not sorted by the keys)', what, desc, k)
        seen.append(gi)
        pos = groups[gi][1]
        check(r + len(pos) <= n, '%s.unlist() on %s: key %s has %s rows in the table but fewer in the result', what, desc, k, len(pos))
        for off, p in enumerate(pos):
            for c in cols:
                got, exp = Uc[c][r + off], data[c][p]
                ok = _keq(got, exp) if c in by else _same(got, exp)
                check(ok, '%s.unlist() on %s: result row %s should be original row %s (stable sort by the keys) but has %s = %s instead of %s',
                      what, desc, r + off, p, c, got, exp)
        if prev_key is not None:
            _key_order_ok('%s.unlist()' % what, prev_key, k, desc)
        prev_key = k
        r += len(pos)
    check(len(seen) == len(groups), '%s.unlist() on %s lost the keys %s', what, desc, [g[0] for gi, g in enumerate(groups) if gi not in seen])
    _check_again('%s.unlist() on %s' % (what, desc), U, call('%s.unlist() again' % what, L.unlist))
    _check_unchanged('%s.unlist()' % what, d, snap, desc)

    dup = any(len(g[1]) >= 2 for g in groups)
    kcls, mixed = _key_classes(spec, by)
    cls = ['form=' + spec['form'], 'nkeys=%i' % len(by)] + kcls + _name_classes(by, others)
    if dup:
        cls.append('dup_key')
    if len(groups) == n:
        cls.append('all_keys_unique')
    if len(groups) == 1:
        cls.append('one_key')
    if any(len(g[1]) >= 2 and any(not _same(data[c][g[1][0]], data[c][p]) for c in others for p in g[1][1:]) for g in groups):
        cls.append('order_visible')       # a reordering inside some group would change a listed cell
    if [p for gi in seen for p in groups[gi][1]] != list(range(n)):
        cls.append('reordered')
    elif dup and len(groups) >= 2:
        cls.append('already_sorted_with_dups')        # a cheap "is it sorted already" test must still group the duplicates
    cls += _shape_classes(spec, n, cols, by, data, [groups[gi] for gi in seen])
    nt = dup and len(groups) >= 2
    return dict(nt=nt, cls=cls)


# ----------------------------------------------------------------------------- groupby / ungroup

def run_groupby(spec):
    from pyg_base import dictable
    d, cols, data, n = _build_table(spec)
    by = list(spec['by'])
    gname = spec.get('grp', 'grp')
    others = [c for c in cols if c not in by]
    args = by if spec['form'] == 'names' else [list(by)]
    kw = {} if gname == 'grp' else {'grp': gname}
    desc = short({c: data[c] for c in cols}, 400)
    what = 'groupby(%s)' % (', '.join([repr(a) for a in args] + ['%s=%r' % i for i in kw.items()]))
    keys = [tuple(data[c][i] for c in by) for i in range(n)]
    groups = _groups(keys)

    snap = _snapshot(d)
    G = call(what, lambda: d.groupby(*args, **kw))
    _check_unchanged(what, d, snap, desc)
    ungroup_args = [] if gname == 'grp' else [gname]
    if n == 0:
        check(isinstance(G, dictable) and all(len(v) == 0 for v in _columns_of(G).values()), '%s of an empty table is not empty: %s', what, G)
        R = call('%s.ungroup()' % what, G.ungroup, *ungroup_args)
        check(isinstance(R, dictable) and all(len(v) == 0 for v in _columns_of(R).values()), '%s.ungroup() of an empty table is not empty: %s', what, R)
        return dict(nt=False, cls=['empty'])
    Gc, gn = _check_table('%s on %s' % (what, desc), G, by + [gname], dictable)
    got_keys = [tuple(Gc[c][i] for c in by) for i in range(gn)]
    idx = _match_groups(what, groups, got_keys, desc)
    total = 0
    for r, gi in enumerate(idx):
        pos = groups[gi][1]
        sub = Gc[gname][r]
        sc, sn = _check_table('%s on %s: sub-table of key %s' % (what, desc, got_keys[r]), sub, others, dictable)
        total += sn
        check(sn == len(pos), '%s on %s: sub-table of key %s has %s rows, the key has %s', what, desc, got_keys[r], sn, len(pos))
        for off, p in enumerate(pos):
            for c in others:
                check(_same(sc[c][off], data[c][p]), '%s on %s: sub-table of key %s row %s has %s = %s, expected %s (original row %s)',
                      what, desc, got_keys[r], off, c, sc[c][off], data[c][p], p)
    check(total == n, '%s on %s: sub-table sizes add up to %s, the table has %s rows', what, desc, total, n)

    R = call('%s.ungroup()' % what, G.ungroup, *ungroup_args)
    Rc, rn = _check_table('%s.ungroup() on %s' % (what, desc), R, cols, dictable)
    check(rn == n, '%s.ungroup() on %s has %s rows, the table has %s', what, desc, rn, n)

    def rowtok(colsd, i):
        return tuple((c, vtoken(colsd[c][i]) if c in by else token(colsd[c][i])) for c in sorted(cols))
    got = Counter(rowtok(Rc, i) for i in range(rn))
    exp = Counter(rowtok(data, i) for i in range(n))
    if got != exp:
        missing = list((exp - got).elements())[:3]
        extra = list((got - exp).elements())[:3]
        check(False, '%s.ungroup() on %s does not restore the multiset of rows: missing %s, extra %s', what, desc, missing, extra)
    _check_again('%s.ungroup() on %s' % (what, desc), R, call('%s.ungroup() again' % what, G.ungroup, *ungroup_args))
    _check_unchanged('%s.ungroup()' % what, d, snap, desc)

    dup = any(len(g[1]) >= 2 for g in groups)
    kcls, mixed = _key_classes(spec, by)
    cls = ['form=' + spec['form'], 'nkeys=%i' % len(by), 'grp=' + gname] + kcls + _name_classes(by, others)
    if dup:
        cls.append('dup_key')
    if len(groups) == n:
        cls.append('all_keys_unique')
    if any(len(g[1]) == 1 for g in groups) and dup:
        cls.append('single_and_multi_row_groups')
    cls += _shape_classes(spec, n, cols, by, data, [groups[gi] for gi in idx])
    nt = dup and len(groups) >= 2
    return dict(nt=nt, cls=cls)


# ----------------------------------------------------------------------------- pivot / unpivot

_Y_KINDS = {
    'str': S_STRS,
    'int': st.one_of(S_INTS, S_INTS, st.sampled_from([2 ** 53, 2 ** 53 + 1, -(2 ** 53) - 1])),
    'dt': s_dt(4),
    'float': S_FLOATS,
    'mixed': st.one_of(st.sampled_from(['a', 'b', '']), st.integers(0, 2), s_dt(2)),
}
_Z_ANY = s_scalar(none=False)
_Z_NUM = st.one_of(S_INTS, S_FLOATS)


def _spec_eq(a, b):
    """key equality on *specs* (used by the generator to build tables with unique (x, y) pairs)"""
    if isinstance(a, bool) or isinstance(b, bool):
        return a is b
    if isinstance(a, (int, float)) and isinstance(b, (int, float)):
        return a == b
    return type(a) is type(b) and a == b


@st.composite
def _pivot_case(draw, tier):
    big = tier == 'thorough'
    top = 14 if big else 9
    nx = draw(st.integers(1, 2))
    extra = draw(st.integers(0, 1))
    cols = _col_names(draw, nx + 2 + extra)
    cols = list(draw(st.permutations(cols)))
    x, y, z = cols[:nx], cols[nx], cols[nx + 1]
    agg = draw(st.sampled_from(['none', 'last', 'sum', 'len', 'tuple']))
    ykind = draw(st.sampled_from(['str', 'int', 'dt', 'float', 'mixed', 'mixed']))
    ypool = draw(st.lists(_Y_KINDS[ykind], min_size=draw(st.sampled_from([1, 2, 2])), max_size=4))
    strategies = [_cells(draw, True) for c in x] + [st.sampled_from(ypool), _Z_NUM if agg == 'sum' else st.one_of(_Z_ANY, _Z_NUM)] \
        + [_cells(draw, False) for c in cols[nx + 2:]]
    columns = _rows(draw, strategies, 1, top)
    data = dict(zip(cols, columns))
    n = len(columns[0])
    if draw(st.integers(0, 3)) == 0:
        # unique (x, y) pairs by construction: keep the first row of every pair
        keep = []
        for i in range(n):
            ki = [data[c][i] for c in x + [y]]
            if not any(all(_spec_eq(a, b) for a, b in zip(ki, [data[c][j] for c in x + [y]])) for j in keep):
                keep.append(i)
        data = {c: [data[c][i] for i in keep] for c in cols}
    order = list(draw(st.permutations(cols)))           # column order of the table is independent of the roles
    spec = dict(cols=order, data={c: data[c] for c in order}, x=x, xform=draw(st.sampled_from(['str', 'list'])) if nx == 1 else 'list',
                y=y, z=z, agg=agg, ykind=ykind, method=draw(st.sampled_from(['xyz', 'pivot'])),
                aggform=draw(st.sampled_from(['fn', 'fn', 'list1', 'list2'])))
    size = (_lottery(data, 40) if len(data[y]) >= 2 else -1) + 20
    if size in (27, 47):
        # the dedicated class: >= 200 rows, ONE purely numeric x column, the z column numbers the rows, the aggregator keeps the order visible
        spec['x'], spec['xform'] = x[:1], draw(st.sampled_from(['str', 'list']))
        if agg in ('sum', 'len'):
            spec['agg'] = draw(st.sampled_from(['none', 'tuple', 'last']))
        _numeric200(draw, spec, x[0], z)
    elif size in (23, 31, 51):
        # 23: a LARGE table (the pattern blown up, see _expand); 31: a WIDE one, whose y column cycles through 20-30 labels
        tile = dict(n=draw(st.sampled_from(_LARGE_N)), layout=draw(st.sampled_from(['tiled', 'blocks'])), pos=[] if agg == 'sum' else [z])
        if size in (31, 51):
            tile['n'] = draw(st.sampled_from(_WIDE_N))
            tile['wide'] = dict(col=y, labels=draw(st.integers(20, 30)), kind=draw(st.sampled_from(['int', 'str', 'mixed'])))
            spec['ykind'] = tile['wide']['kind']
        spec['tile'] = tile
    return spec


def _fold_sum(zs):
    acc = 0
    for v in zs:
        acc = acc + v
    return acc


def run_pivot(spec):
    from pyg_base import dictable, last
    d, cols, data, n = _build_table(spec)
    x, y, z = list(spec['x']), spec['y'], spec['z']
    aggs = {'none': (None, lambda zs: list(zs)), 'last': (last, lambda zs: zs[-1]), 'sum': (sum, _fold_sum), 'len': (len, lambda zs: len(zs)),
            'tuple': (tuple, lambda zs: tuple(zs))}
    agg, model_agg = aggs[spec['agg']]
    aggform = spec.get('aggform', 'fn')
    if aggform == 'list1':
        agg = [] if agg is None else [agg]                 # "agg: None/callable or list of callables"
    elif aggform == 'list2':
        agg = [list] if agg is None else [list, agg]       # applied one after the other: list(values) first changes nothing
    xarg = x[0] if spec['xform'] == 'str' else list(x)
    desc = short({c: data[c] for c in cols}, 400)
    what = '%s(%r, %r, %r, %s)' % (spec['method'], xarg, y, z, {'fn': '%s', 'list1': '[%s]', 'list2': '[list, %s]'}[aggform] % spec['agg'])

    xkeys = [tuple(data[c][i] for c in x) for i in range(n)]
    xgroups = _groups(xkeys)                                   # distinct x keys
    ygroups = _groups([(v,) for v in data[y]])                 # distinct y values
    cells = {}                                                 # (x group, y group) -> z values in row order
    for i in range(n):
        xi = [gi for gi, g in enumerate(xgroups) if i in g[1]][0]
        yi = [gi for gi, g in enumerate(ygroups) if i in g[1]][0]
        cells.setdefault((xi, yi), []).append(data[z][i])

    snap = _snapshot(d)
    P = call(what, getattr(d, spec['method']), xarg, y, z, agg)
    _check_unchanged(what, d, snap, desc)
    check(isinstance(P, dictable), '%s returned %s', what, type(P).__name__)
    Pc = _columns_of(P)
    for c in x:
        check(any(isinstance(k, str) and k == c for k in Pc), '%s on %s lost the x column %s: columns %s', what, desc, c, list(Pc))
    labels = [k for k in Pc if not (isinstance(k, str) and k in x)]
    lens_ = set(len(v) for v in Pc.values())
    check(len(lens_) == 1, '%s on %s is not rectangular: %s', what, desc, {repr(k): len(v) for k, v in Pc.items()})
    pn = lens_.pop()
    # labels <-> distinct y values, a bijection
    lab2y = {}
    for li, lab in enumerate(labels):
        hits = [yi for yi, g in enumerate(ygroups) if _label_of(lab, g[0][0])]
        check(len(hits) == 1, '%s on %s has a column labelled %s which renders %s of the y values %s', what, desc, lab,
              'none' if not hits else 'several', [g[0][0] for g in ygroups])
        check(hits[0] not in lab2y.values(), '%s on %s has two columns for the y value %s: columns %s', what, desc, ygroups[hits[0]][0][0], labels)
        lab2y[li] = hits[0]
    check(len(labels) == len(ygroups), '%s on %s has label columns %s but the y values are %s', what, desc, labels, [g[0][0] for g in ygroups])
    got_keys = [tuple(Pc[c][i] for c in x) for i in range(pn)]
    idx = _match_groups(what, xgroups, got_keys, desc)
    for r, xi in enumerate(idx):
        for li, lab in enumerate(labels):
            zs = cells.get((xi, lab2y[li]))
            exp = None if zs is None else model_agg(zs)
            got = Pc[lab][r]
            check(_same(got, exp), '%s on %s: cell (x = %s, column %s) is %s, expected %s (z values of these rows in order: %s)',
                  what, desc, got_keys[r], lab, got, exp, zs)

    # ---- unpivot, then drop the None cells
    ycol, zcol = 'Y', 'Z'
    uwhat = '%s.unpivot(%r, %r, %r)' % (what, xarg, ycol, zcol)
    U = call(uwhat, P.unpivot, xarg, ycol, zcol)
    Uc, un = _check_table('%s on %s' % (uwhat, desc), U, x + [ycol, zcol], dictable)
    got = Counter()
    for i in range(un):
        if Uc[zcol][i] is None:
            continue
        lab = Uc[ycol][i]
        hits = [yi for yi, g in enumerate(ygroups) if _label_of(lab, g[0][0])]
        check(len(hits) == 1, '%s on %s: row %s has y = %s which is not the label of a y value', uwhat, desc, i, lab)
        k = tuple(Uc[c][i] for c in x)
        xh = [gi for gi, g in enumerate(xgroups) if _keqt(g[0], k)]
        check(len(xh) == 1, '%s on %s: row %s has x key %s which is not a key of the table', uwhat, desc, i, k)
        got[(xh[0], hits[0], token(Uc[zcol][i]))] += 1
    exp = Counter((xi, yi, token(model_agg(zs))) for (xi, yi), zs in cells.items())
    if got != exp:
        def show(t):
            return (xgroups[t[0]][0], ygroups[t[1]][0][0], t[2])
        check(False, '%s on %s, None cells dropped, does not restore the (x, y, z) rows: missing %s, extra %s', uwhat, desc,
              [show(t) for t in (exp - got).elements()][:3], [show(t) for t in (got - exp).elements()][:3])
    _check_again('%s on %s' % (uwhat, desc), U, call(uwhat + ' again', P.unpivot, xarg, ycol, zcol))
    _check_unchanged(uwhat, d, snap, desc)

    dup_xy = any(len(zs) >= 2 for zs in cells.values())
    none_cell = len(cells) < len(xgroups) * len(ygroups)
    cls = ['agg=' + spec['agg'], 'y=' + spec['ykind'], 'nx=%i' % len(x), 'xform=' + spec['xform'], spec['method']] \
        + _name_classes(x, [c for c in cols if c not in x])
    if dup_xy:
        cls.append('dup_xy')
    else:
        cls.append('unique_xy')
    if none_cell:
        cls.append('none_cell')
    kcls, mixed = _key_classes(spec, x)
    cls += kcls
    if len(cols) > len(x) + 2:
        cls.append('extra_column')
    cls.append('aggform=' + aggform)
    if y in _CTOR_NAMES:
        cls.append('ctor_name_y')
        if y in ('columns', 'self'):
            cls.append('y_named_columns_or_self')
    vals = [model_agg(zs) for zs in cells.values()]
    if any(isinstance(v, (int, float, str, tuple)) and not v for v in vals):
        cls.append('falsy_cell')            # a cell holding 0, 0.0, '' or (): present, so it must not be confused with "no row"
    if len(ygroups) == 1:
        cls.append('one_label')
    if len(xgroups) == 1:
        cls.append('one_x_key')
    if len(xgroups) == 1 and len(ygroups) == 1:
        cls.append('pivot_1x1')
    if n == 1:
        cls.append('one_row')
    if n >= 64:
        cls += ['rows>=64', 'large_' + spec['tile']['layout']]
    if n >= 200 and len(x) == 1 and all(_isnum(v) for v in data[x[0]]) and len(xgroups) >= 2:
        cls.append('rows>=200_single_numeric_key')
    if len(ygroups) >= 20:
        cls.append('labels>=20')
    if [c for c in cols if c in x] != list(x):
        cls.append('x_not_in_column_order')
    nt = len(xgroups) >= 2 and len(ygroups) >= 2 and (dup_xy or none_cell)
    return dict(nt=nt, cls=cls)


def _label_of(lab, yv):
    """is `lab` an admissible rendering of the y value yv as a column label: the value itself or its str()"""
    if isinstance(lab, str) and not isinstance(yv, str):
        return lab == str(yv)
    return _keq(lab, yv) and type(lab) is type(yv)


# ----------------------------------------------------------------------------- registry

SUBS = [
    Sub('listby_unlist', lambda tier: _regroup_case(tier), run_listby, quick=4000, thorough=20000,
        rule='tables of 0-9 rows x 2-4 columns (thorough: 0-14 x 2-5), cells None/ints/floats/strings/datetimes with heavy duplication in key columns '
             '(small value pools, homogeneous and mixed-type, int/float twins); keys = a non-empty proper subset in any order, as *names or one list; column names nested in each other in half of the cases; about 1.5% large tables of 64/65/100/128/200 rows with few keys. '
             'oracle: nested-loop grouping of the spec; listby has exactly one row per distinct key, other cells list the key\'s values in row order; '
             'unlist = contiguous key blocks, each the key\'s rows in original order, blocks increasing under cmp (and natively where comparable). '
             'non-trivial = some key with >= 2 rows and >= 2 distinct keys',
        floor=0.2, class_floors={'mixed_type_key': 0.15, 'int_and_float_key': 0.03, 'order_visible': 0.2, 'reordered': 0.2, 'nkeys=2': 0.1, 'all_keys_unique': 0.05, 'empty': 0.005,
                                 'colname_substring_of_key': 0.08, 'colname_substring_of_single_key': 0.04, 'key_substring_of_colname': 0.08,
                                 'rows>=64': 0.005, 'biggest_group>=16': 0.004, 'rows>=200_single_numeric_key': 0.0034, 'bigint_key': 0.03, 'bigint_key_3_spellings': 0.005, 'inf_key': 0.02,
                                 'column_named_like_ctor_parameter': 0.08, 'ctor_name_nonkey': 0.05, 'ctor_name_key': 0.03, 'column_named_columns': 0.01, 'column_named_data': 0.01, 'already_sorted_with_dups': 0.02, 'falsy_key': 0.3, 'none_key': 0.15, 'one_row': 0.01,
                                 'by_not_in_column_order': 0.05, 'dup_in_first_group': 0.2, 'dup_in_last_group': 0.2, 'identical_rows': 0.1}),
    Sub('groupby_ungroup', lambda tier: _regroup_case(tier, with_grp=True), run_groupby, quick=4000, thorough=20000,
        rule='same tables and keys as listby_unlist, default and custom grp column name. oracle: one row per distinct key, each sub-table holds exactly '
             'the other columns of the key\'s rows in row order, sizes add up to len(d), ungroup() has the original columns and the original multiset '
             'of rows (key cells by ==, other cells by type and value). non-trivial = some key with >= 2 rows and >= 2 distinct keys',
        floor=0.2, class_floors={'mixed_type_key': 0.15, 'single_and_multi_row_groups': 0.15, 'grp=g': 0.1, 'all_keys_unique': 0.05, 'empty': 0.005,
                                 'colname_substring_of_key': 0.08, 'colname_substring_of_single_key': 0.04, 'key_substring_of_colname': 0.08,
                                 'rows>=64': 0.005, 'biggest_group>=16': 0.004, 'rows>=200_single_numeric_key': 0.0034, 'bigint_key': 0.03, 'bigint_key_3_spellings': 0.005, 'inf_key': 0.02,
                                 'column_named_like_ctor_parameter': 0.08, 'ctor_name_nonkey': 0.05, 'ctor_name_key': 0.03, 'column_named_columns': 0.01, 'column_named_data': 0.01, 'falsy_key': 0.3, 'none_key': 0.15, 'one_row': 0.01,
                                 'by_not_in_column_order': 0.05, 'dup_in_first_group': 0.2, 'dup_in_last_group': 0.2, 'identical_rows': 0.1}),
    Sub('pivot_unpivot', lambda tier: _pivot_case(tier), run_pivot, quick=4000, thorough=20000,
        rule='non-empty tables of 1-9 rows (thorough 1-14), x = 1-2 mixed-type key columns, y = strings | ints | floats | datetimes | a mix of strings, ints and datetimes, '
             'z non-None, optional bystander column, agg in None/last/sum/len/tuple spelled as a function, [function] or [list, function], nested column names in half of the cases, 1-3% large (64-200 rows) or wide (20-30 labels) tables, a quarter of the cases with unique (x, y) pairs by construction. '
             'oracle: nested-loop model {(x key, y value): z values in row order}; pivot rows <-> distinct x keys and label columns <-> distinct y values '
             'are bijections, every cell = agg(values) or None; unpivot minus None cells = one row per (x, y) with the aggregated z (multiset). '
             'non-trivial = >= 2 x keys and >= 2 y values and (an aggregated duplicate or a None cell)',
        floor=0.2, class_floors={'dup_xy': 0.2, 'unique_xy': 0.2, 'none_cell': 0.3, 'mixed_type_key': 0.15, 'nx=2': 0.2, 'agg=none': 0.1, 'agg=last': 0.1, 'agg=sum': 0.1, 'agg=len': 0.1, 'agg=tuple': 0.1,
                                 'colname_substring_of_key': 0.08, 'key_substring_of_colname': 0.08,
                                 'rows>=64': 0.004, 'labels>=20': 0.004, 'rows>=200_single_numeric_key': 0.0034, 'bigint_key': 0.03, 'inf_key': 0.02,
                                 'column_named_like_ctor_parameter': 0.08, 'ctor_name_nonkey': 0.05, 'ctor_name_key': 0.03, 'column_named_columns': 0.01, 'column_named_data': 0.01,
                                 'ctor_name_y': 0.02, 'y_named_columns_or_self': 0.005,
                                 'falsy_cell': 0.08, 'falsy_key': 0.3, 'pivot_1x1': 0.03, 'one_label': 0.1, 'one_x_key': 0.05,
                                 'one_row': 0.02, 'aggform=list1': 0.1, 'aggform=list2': 0.1, 'x_not_in_column_order': 0.1,
                                 'y=str': 0.05, 'y=int': 0.05, 'y=float': 0.05, 'y=dt': 0.05, 'y=mixed': 0.1}),
]
