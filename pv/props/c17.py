# -*- coding: utf-8 -*-
"""
C17 - bitemporal store: reading as of T sees exactly what had been published by T.

Stateful check: a history publishes versions (partial series over up to 40 observation dates) with non-decreasing stamps, re-merges
versions, and reads at instants before / on / between / after the stamps. The reference model is a per-date publication log.
"""
import datetime
import math

from hypothesis import strategies as st

from pv.core import MachineSub, Sub, Violation, call, check, short

ASSUMPTIONS = [
    'one series; observation dates are 40 consecutive days; values from {1.0, 2.0, 3.0, NaN}; stamps are whole days apart, probes sit 12h off or exactly on a stamp',
    'a date whose publications so far are all NaN is present with NaN (bi_read docstring: what=0 is the "first actual value that was observed, even if nan"); a NaN never overrides an earlier value',
    're-merging is claimed for the version merged last, or for a version whose stamp no other version shares: re-merging an older of two same-stamp versions makes it '
    '"the one merged last", where the two clauses of the statement disagree',
    'the order of the returned index is not asserted (only the date -> value mapping)',
]

BASE = datetime.datetime(2001, 1, 1)
BASE_FUTURE = datetime.datetime(2150, 1, 1)
OBS0 = datetime.datetime(2000, 1, 3)
NDATES = 40        # the machine's dates; the flat tie check uses up to 150
DAY = datetime.timedelta(1)
H12 = datetime.timedelta(hours=12)
MAXSTAMP = 5

_cell = st.tuples(st.integers(0, NDATES - 1), st.sampled_from([1.0, 2.0, 3.0, 1.0, 2.0, None])).map(list)     # None stands for NaN


class Store(object):
    """the real store + the publication log"""

    OPS = {
        'publish': dict(era=st.sampled_from([0, 1]), step=st.sampled_from([0, 0, 1, 1, 2]), cells=st.one_of(st.lists(_cell, min_size=1, max_size=6), st.lists(_cell, min_size=10, max_size=45)),
                        dense=st.sampled_from([False, False, True])),
        'publish_many': dict(k=st.integers(17, 26), d=st.integers(0, NDATES - 1), vals=st.lists(st.sampled_from([1.0, 2.0, 3.0, 1.0, 2.0, None]), min_size=26, max_size=26),
                             steps=st.lists(st.sampled_from([0, 0, 0, 1]), min_size=26, max_size=26), d2=st.integers(0, NDATES - 1)),
        'remerge': dict(k=st.integers(0, 20)),
        'read': dict(probe=st.integers(0, 2 * MAXSTAMP + 2), what=st.sampled_from([-1, -1, 0])),
        'read_all': dict(),
    }
    PRE = {'remerge': lambda m: len(m.versions) > 0, 'read': lambda m: m.store is not None, 'read_all': lambda m: m.store is not None}

    def __init__(self):
        self.base = BASE
        self.store = None
        self.stamp = 0
        self.versions = []        # (stamp index, {date idx: value or None})
        self.log = {}             # date idx -> list of (stamp idx, effective value) in merge order
        self.flags = set()
        self.reads = 0

    # ---- helpers
    def _series(self, cells):
        import pandas as pd
        idx = sorted(cells)
        return pd.Series([float('nan') if cells[i] is None else cells[i] for i in idx], index=[OBS0 + i * DAY for i in idx])

    def _merge(self, k, what):
        from pyg_base import bi_merge, Bi
        s, cells = self.versions[k]
        new = Bi(self._series(cells), self.base + s * DAY)
        self.store = call(what, bi_merge, self.store, new)

    def _expected(self, T, what):
        exp = {}
        for d, entries in self.log.items():
            by_stamp = {}
            for s, v in entries:          # merge order: the later one of a stamp wins
                by_stamp[s] = v
            vis = [(s, v) for s, v in sorted(by_stamp.items()) if self.base + s * DAY <= T]
            if vis:
                exp[d] = vis[-1][1] if what == -1 else vis[0][1]
        return exp

    def _probe(self, p):
        # p even -> 12h before stamp p/2 ; p odd -> exactly stamp (p-1)/2 ; the last one is after every stamp
        return self.base + (p // 2) * DAY - (H12 if p % 2 == 0 else datetime.timedelta(0))

    def _read_and_compare(self, p, what):
        from pyg_base import bi_read
        import pandas as pd
        T = self._probe(p)
        w = 'bi_read(store of %i rows, asof=%s, what=%i)' % (len(self.store), T, what)
        res = call(w, bi_read, self.store, T, what)
        check(isinstance(res, pd.Series), '%s returned %s', w, type(res).__name__)
        got = {}
        for t, v in res.items():
            i = (t - OBS0).days
            check(i not in got, '%s lists observation date %s twice', w, t)
            got[i] = v
        exp = self._expected(T, what)
        self.reads += 1
        if set(got) != set(exp):
            leak = sorted(set(got) - set(exp))
            lost = sorted(set(exp) - set(got))
            raise Violation('%s: %s; history %s' % (w, ('dates %s appear although first published after T (look-ahead)' % leak) if leak else ('dates %s published by T are missing' % lost), self._hist()))
        for i in exp:
            g, e = got[i], exp[i]
            if not (g == e or (e is None and g != g)):
                raise Violation('%s: observation %s reads %s, the publication log says %s; publications of that date (stamp, effective value) in merge order: %s'
                                % (w, OBS0 + i * DAY, g, e, self.log[i]))
        if any(self.base + s * DAY > T for s, _ in self.versions) and exp:
            self.flags.add('read_before_later_publication')
        if not exp:
            self.flags.add('read_before_everything')

    def _hist(self):
        return short([(s, {k: v for k, v in list(c.items())[:4]}) for s, c in self.versions], 300)

    # ---- operations
    def op_publish(self, step, cells, dense, era=0):
        if not self.versions and era:
            self.base = BASE_FUTURE          # stamps far in the future of any wall clock: an explicit stamp must be taken as given
            self.flags.add('future_stamps')
        self.stamp = min(self.stamp + (step if self.versions else 0), MAXSTAMP)
        c = {}
        for i, v in cells:
            c[i] = v
        if dense:
            for i in range(NDATES):
                c.setdefault(i, [1.0, 2.0, 3.0][(i + len(self.versions)) % 3])
        k = len(self.versions)
        self.versions.append((self.stamp, c))
        self._merge(k, 'bi_merge(store, version %i with stamp %i over %i dates)' % (k, self.stamp, len(c)))
        for i, v in c.items():
            entries = self.log.setdefault(i, [])
            eff = (entries[-1][1] if entries else None) if v is None else v      # None = NaN: nothing but NaN published so far
            if v is None and not entries:
                self.flags.add('first_publication_is_nan')
            if entries:
                if entries[-1][0] == self.stamp and entries[-1][1] != eff:
                    self.flags.add('same_stamp_different_value')
                if v is None:
                    self.flags.add('nan_after_value')
                if len(entries) >= 2 and entries[-2][1] == eff and entries[-1][1] != eff:
                    self.flags.add('reversion')
            entries.append((self.stamp, eff))
        if self.store is not None and len(self.store) > 16:
            self.flags.add('store>16_rows')

    def op_publish_many(self, k, d, vals, steps, d2):
        """k versions merged in ONE bi_merge call (a list of vintages), all touching observation date d: >= 17 rows of one date in one merge"""
        from pyg_base import bi_merge, Bi
        if not self.versions and d2 % 2:
            self.base = BASE_FUTURE
            self.flags.add('future_stamps')
        news = []
        for i in range(k):
            self.stamp = min(self.stamp + (steps[i] if (self.versions or i) else 0), MAXSTAMP)
            c = {d: vals[i]}
            if i % 5 == 0:
                c[d2] = vals[(i + 1) % 26]
            self.versions.append((self.stamp, c))
            news.append(Bi(self._series(c), self.base + self.stamp * DAY))
            for j, v in c.items():
                entries = self.log.setdefault(j, [])
                eff = (entries[-1][1] if entries else None) if v is None else v
                if entries and entries[-1][0] == self.stamp and entries[-1][1] != eff:
                    self.flags.add('same_stamp_different_value')
                entries.append((self.stamp, eff))
        self.store = call('bi_merge(store, list of %i versions)' % k, bi_merge, self.store, news)
        self.flags.add('many_versions_in_one_merge')
        if len(self.store) > 16:
            self.flags.add('store>16_rows')
        for p in (2 * self.stamp + 1, 2 * MAXSTAMP + 2):
            self._read_and_compare(p, -1)

    def op_remerge(self, k):
        k = k % len(self.versions)
        s = self.versions[k][0]
        if k != len(self.versions) - 1 and sum(1 for s2, _ in self.versions if s2 == s) > 1:
            k = len(self.versions) - 1           # see ASSUMPTIONS
        self._merge(k, 'bi_merge(store, version %i again)' % k)
        self.flags.add('remerge')
        for p in (1, 2 * self.stamp + 1, 2 * MAXSTAMP + 2):
            self._read_and_compare(p, -1)

    def op_read(self, probe, what):
        self._read_and_compare(probe, what)

    def op_read_all(self):
        for p in range(0, 2 * self.stamp + 3):
            for what in (-1, 0):
                self._read_and_compare(p, what)
        self.flags.add('read_all')

    def check(self):
        if self.store is not None:
            import pandas as pd
            check(isinstance(self.store, pd.DataFrame) and 'updated' in self.store.columns, 'the store is no longer a bitemporal frame: %s', type(self.store).__name__)

    def info(self):
        nt = bool(self.reads and ({'same_stamp_different_value', 'reversion', 'nan_after_value'} & self.flags))
        return dict(nt=nt, cls=sorted(self.flags) + ['versions=%i' % min(len(self.versions), 4), 'reads>0' if self.reads else 'no_reads'])


# a flat, cheaper form of the same check aimed at the tie-break among publications sharing a stamp in a large store
@st.composite
def _tie_case(draw):
    n = draw(st.one_of(st.integers(17, 40), st.integers(17, 40), st.integers(17, 40), st.sampled_from([64, 150])))
    nver = draw(st.integers(2, 5))
    versions = []
    for k in range(nver):
        vals = draw(st.lists(st.sampled_from([1.0, 2.0, 3.0]), min_size=n, max_size=n))
        versions.append(dict(stamp=0 if k < 2 else draw(st.integers(0, 1)), vals=vals))
    versions.sort(key=lambda v: v['stamp'])
    return dict(n=n, versions=versions)


def run_ties(spec):
    m = Store()
    for v in spec['versions']:
        m.stamp = v['stamp']
        m.op_publish(0, [[i, x] for i, x in enumerate(v['vals'])], False)
    m.op_read_all()
    return dict(nt='same_stamp_different_value' in m.flags, cls=sorted(m.flags))


SUBS = [
    MachineSub('history', Store, quick=(280, 12), thorough=(500, 16),
               rule='histories of publish (sparse or dense versions over 40 dates, stamps non-decreasing over <= 6 instants, ties frequent) / re-merge / read at a probe / read at every probe '
                    '(12h before, on, and after every stamp) with what in {-1, 0}; oracle: per-date publication log (NaN keeps the previous value, same stamp -> last merged, '
                    'first stamp > T -> absent). non-trivial = reads happened and some date has same-stamp publications with different values, a reversion, or a NaN after a value',
               floor=0.3, class_floors={'store>16_rows': 0.3, 'same_stamp_different_value': 0.2, 'read_before_later_publication': 0.2, 'future_stamps': 0.15, 'many_versions_in_one_merge': 0.1}),
    Sub('same_stamp_ties', lambda tier: _tie_case(), run_ties, quick=150, thorough=1500,
        rule='2-5 full versions over 17-40 dates, at least two sharing the first stamp, then every probe is read; the store always exceeds 16 rows, where an unstable sort by '
             'stamp reorders same-stamp publications. non-trivial = some date has same-stamp publications with different values',
        floor=0.5),
]
