# -*- coding: utf-8 -*-
"""
C07 - cmp is a total preorder over mixed types; sort / dictable.sort follow it stably.
"""
import itertools

from hypothesis import strategies as st

from pv.core import Sub, EnumSub, Violation, call, check, short
from pv.codec import build, Env, D0, is_nan_spec

ASSUMPTIONS = [
    'dict keys are strings; containers nest to depth 2',
    'sort() is claimed for None, ints, finite floats, NaN, strings, datetimes and equal-length tuples of them (no bools, no +-inf)',
    'value orders passed to dictable.sort(col=[...]) are duplicate-free and NaN-free',
    'cmp maps -inf, +inf and NaN to one rank (is_nan treats inf as NaN by design): only "NaN above every finite number" is asserted',
]

# ----------------------------------------------------------------------------- universe for the cmp laws

_num = st.one_of(st.integers(-2, 3), st.sampled_from([-1.5, 0.0, 1.0, 2.0, 2.5, 1e300]), st.sampled_from([2 ** 53, 2 ** 53 + 1, 2.0 ** 53, -(2 ** 53) - 1]))
_nan = st.integers(0, 1).map(lambda k: ['nan', k])
_inf = st.sampled_from([['inf', 1], ['inf', -1]])
_str = st.sampled_from(['', 'a', 'ab', 'b', 'A', '1'])
_dt = st.one_of(
    st.tuples(st.integers(D0, D0 + 3), st.sampled_from([0, 3600])).map(lambda t: ['dt', t[0], t[1]]),
    st.integers(D0, D0 + 3).map(lambda o: ['date', o]),
    st.tuples(st.integers(D0, D0 + 3), st.sampled_from([0, 3600])).map(lambda t: ['dt64', t[0], t[1], 's']),
)
_np = st.one_of(
    st.integers(-2, 3).map(lambda i: ['np', 'int64', i]),
    st.sampled_from([-1.5, 0.0, 1.0, 2.5]).map(lambda f: ['np', 'float64', f]),
    st.sampled_from([0.0, 1.0, 2.5]).map(lambda f: ['np', 'float32', f]),
    st.just(['np', 'float64', ['nan', 0]]),
    st.booleans().map(lambda b: ['np', 'bool_', b]),
    st.sampled_from(['a', 'b']).map(lambda s: ['np', 'str_', s]),
)
_scalar = st.one_of(st.none(), st.booleans(), _num, _nan, _inf, _str, _dt, _np)


def _containers(inner):
    keys = st.sampled_from(['a', 'b', 'c'])
    return st.one_of(
        st.lists(inner, max_size=3).map(lambda v: ['list', v]),
        st.lists(inner, max_size=3).map(lambda v: ['tuple', v]),
        st.lists(st.tuples(keys, inner), max_size=3, unique_by=lambda kv: kv[0]).map(lambda v: ['dict', v]),
    )


_value = st.one_of(_scalar, _containers(_scalar), _containers(st.one_of(_scalar, _containers(_scalar))))


def _mutations(v):
    """values close to v: these make cmp-equal / nearly-equal pairs frequent"""
    return st.one_of(st.just(v), _value)


_triple = st.one_of(
    st.tuples(_value, _value, _value),
    _value.flatmap(lambda v: st.tuples(st.just(v), _mutations(v), _mutations(v))),
    st.tuples(_scalar, _scalar, _scalar),
    # dicts over one key set, written in different insertion orders, with permuted values
    st.tuples(st.sampled_from([['a', 'b'], ['a', 'b', 'c'], ['b', 'c']]), st.lists(st.one_of(st.integers(0, 2), _nan, _str), min_size=3, max_size=3),
              st.permutations([0, 1, 2]), st.permutations([0, 1, 2]), st.permutations([0, 1, 2]), st.permutations([0, 1, 2])).map(
        lambda t: [['dict', [[t[0][i % len(t[0])], t[1][j]] for i, j in zip(ko[:len(t[0])], vo)]] for ko, vo in
                   (([0, 1, 2], [0, 1, 2]), (sorted(range(len(t[0])), key=lambda i: t[2][i]), t[3]), (sorted(range(len(t[0])), key=lambda i: t[4][i]), t[5]))]),
    # prefix-related sequences of different lengths: x = base + [a], y = base, z = base + [b]
    st.tuples(st.sampled_from(['list', 'tuple']), st.lists(_scalar, max_size=2), _scalar, _scalar, st.permutations([0, 1, 2])).map(
        lambda t: [[[t[0], t[1] + [t[2]]], [t[0], t[1]], [t[0], t[1] + [t[3]]]][i] for i in t[4]]),
    # same container type and length, so that comparison reaches the values
    st.integers(1, 3).flatmap(lambda n: st.sampled_from(['list', 'tuple']).flatmap(
        lambda tag: st.tuples(*[st.lists(_scalar, min_size=n, max_size=n).map(lambda v, tag=tag: [tag, v]) for _ in range(3)]))),
)


def _tclass(v):
    if v is None:
        return 'none'
    if isinstance(v, bool):
        return 'bool'
    if isinstance(v, (int, float)):
        return 'num'
    if isinstance(v, str):
        return 'str'
    t = v[0]
    if t in ('nan', 'inf'):
        return t
    if t in ('dt', 'date', 'dt64'):
        return 'date'
    if t == 'np':
        return 'np.' + v[1]
    return t


def _has_nan(v):
    if isinstance(v, list):
        if v and v[0] == 'nan':
            return True
        return any(_has_nan(i) for i in v)
    return False


def _is_finite_num(x):
    import numpy as np
    return isinstance(x, (int, float, np.integer, np.floating)) and not isinstance(x, (bool, np.bool_)) and x == x and abs(x) != float('inf')


def _is_true_nan(x):
    import numpy as np
    return isinstance(x, (float, np.floating)) and x != x


def _num_twin(v, how):
    """the same value with every small int / integral float leaf written as a numerically equal number of another type, at any depth"""
    if isinstance(v, bool) or v is None or isinstance(v, str):
        return v
    if isinstance(v, int):
        if abs(v) >= 2 ** 53:
            return v
        return float(v) if how == 0 else ['np', 'int64', v] if how == 1 else ['np', 'float64', float(v)]
    if isinstance(v, float):
        return int(v) if v == int(v) and abs(v) < 2 ** 53 and how != 2 else (['np', 'float64', v] if how == 2 and abs(v) < 1e200 else v)
    t = v[0]
    if t in ('list', 'tuple'):
        return [t, [_num_twin(x, how) for x in v[1]]]
    if t == 'dict':
        return [t, [[k, _num_twin(x, how)] for k, x in v[1]]]
    return v


def run_cmp_laws(spec):
    from pyg_base import cmp
    env = Env()
    x, y, z = [build(v, env) for v in spec]
    # numerically equal ints and floats compare 0 - also inside tuples, lists and dict values
    for how in (0, 1, 2):
        tw = _num_twin(spec[0], how)
        if tw != spec[0]:
            a, b = build(spec[0], Env()), build(tw, Env())
            r = call('cmp(%s, %s)' % (short(a, 80), short(b, 80)), cmp, a, b)
            check(r == 0, 'cmp(%s, %s) = %s although the two differ only in how numerically equal numbers are written (int / float / numpy scalar)', a, b, r)
    vals = [x, y, z]
    c = {}
    for i in range(3):
        for j in range(3):
            r = call('cmp(%s, %s)' % (short(vals[i], 80), short(vals[j], 80)), cmp, vals[i], vals[j])
            check(type(r) is int and r in (-1, 0, 1), 'cmp(%s, %s) returned %s, not one of -1/0/1', vals[i], vals[j], r)
            c[i, j] = r
    for i in range(3):
        check(c[i, i] == 0, 'cmp(x, x) = %s for x = %s', c[i, i], vals[i])
        for j in range(3):
            check(c[i, j] == -c[j, i], 'cmp not antisymmetric: cmp(%s, %s) = %s but reverse = %s', vals[i], vals[j], c[i, j], c[j, i])
    for i, j, k in itertools.permutations(range(3)):
        if c[i, j] <= 0 and c[j, k] <= 0:
            check(c[i, k] <= 0, 'cmp not transitive: %s <= %s <= %s but cmp(first, last) = %s', vals[i], vals[j], vals[k], c[i, k])
        if c[i, j] == 0 and c[j, k] == 0:
            check(c[i, k] == 0, 'cmp equivalence not transitive: %s ~ %s ~ %s but cmp(first, last) = %s', vals[i], vals[j], vals[k], c[i, k])
    for i in range(3):
        for j in range(3):
            a, b = vals[i], vals[j]
            if _is_finite_num(a) and _is_finite_num(b):
                exp = -1 if a < b else 1 if a > b else 0
                check(c[i, j] == exp, 'cmp(%s, %s) = %s, numeric order says %s', a, b, c[i, j], exp)
            if _is_true_nan(a) and _is_finite_num(b):
                check(c[i, j] == 1, 'cmp(NaN, %s) = %s: NaN must rank above every finite number', b, c[i, j])
            if _is_true_nan(a) and _is_true_nan(b):
                check(c[i, j] == 0, 'cmp(NaN, NaN) = %s for NaN objects %s', c[i, j], 'of the same identity' if a is b else 'of different identity')
    classes = sorted(set(_tclass(v) for v in spec))
    nt = len(classes) >= 2 or any(_has_nan(v) for v in spec)
    cls = ['n_classes=%i' % min(len(classes), 3)]
    if any(_has_nan(v) for v in spec):
        cls.append('nan')
    if any(isinstance(v, list) and v[0] in ('list', 'tuple', 'dict') for v in spec):
        cls.append('container')
    if len(set(c.values())) == 3:
        cls.append('all_three_outcomes')
    if c[0, 1] == 0 and spec[0] != spec[1]:
        cls.append('equivalent_not_identical')
    return dict(nt=nt, cls=cls)


# the fixed pool for the exhaustive cube
POOL = [
    None, True, False, 0, 1, 2, -1, 0.0, 1.0, 2.5, -1.5, 1e300, 2 ** 53, 2 ** 53 + 1, 2.0 ** 53, ['nan', 0], ['nan', 1], ['inf', 1], ['inf', -1],
    '', 'a', 'b', 'ab', 'A', '1',
    ['dt', D0, 0], ['dt', D0, 3600], ['dt', D0 + 1, 0], ['date', D0], ['date', D0 + 1], ['dt64', D0, 0, 's'], ['dt64', D0 + 1, 0, 'D'],
    ['np', 'int64', 1], ['np', 'int64', 2], ['np', 'float64', 1.0], ['np', 'float64', ['nan', 0]], ['np', 'float32', 2.5], ['np', 'bool_', True], ['np', 'str_', 'a'],
    ['list', []], ['tuple', []], ['dict', []],
    ['list', [1]], ['list', [1.0]], ['list', [2]], ['list', [None]], ['list', [['nan', 0]]], ['list', [1, 2]], ['list', [1, 'a']], ['list', [1, None]],
    ['tuple', [1]], ['tuple', [2]], ['tuple', [['nan', 1]]], ['tuple', [1, 2]], ['tuple', ['a', 1]], ['tuple', [None, 1]], ['tuple', [['nan', 0], 1]], ['tuple', [['nan', 1], 2]],
    ['dict', [['a', 1]]], ['dict', [['a', 1.0]]], ['dict', [['a', 2]]], ['dict', [['b', 1]]], ['dict', [['a', ['nan', 0]]]], ['dict', [['a', 1], ['b', 2]]], ['dict', [['b', 2], ['a', 1]]],
    ['list', [['list', [1]]]], ['list', [['tuple', [1]]]], ['tuple', [['dict', [['a', 1]]], 1]],
]


def enum_cube(tier):
    n = len(POOL)

    def chunker(i, nchunks):
        for a in range(i, n, nchunks):
            for b in range(n):
                for c in range(n):
                    yield [POOL[a], POOL[b], POOL[c]]
    return n ** 3, chunker


# ----------------------------------------------------------------------------- sort(list)

_sort_scalar = st.one_of(st.none(), st.integers(-2, 3), st.sampled_from([2 ** 53, 2 ** 53 + 1, 2.0 ** 53]), st.sampled_from([-1.5, 0.0, 1.0, 2.0, 2.5]), _nan, _str,
                         st.tuples(st.integers(D0, D0 + 3), st.sampled_from([0, 3600])).map(lambda t: ['dt', t[0], t[1]]),
                         # the same instants / numbers in their other types: datetime.date, numpy datetime64, numpy floats and ints
                         st.integers(D0, D0 + 3).map(lambda o: ['date', o]),
                         st.tuples(st.integers(D0, D0 + 3), st.sampled_from([0, 3600])).map(lambda t: ['dt64', t[0], t[1], 's']),
                         st.sampled_from([-1.5, 0.0, 1.0, 2.5]).map(lambda f: ['np', 'float64', f]), st.integers(-2, 3).map(lambda i: ['np', 'int64', i]))
_dates_mixed = st.one_of(st.tuples(st.integers(D0, D0 + 3), st.sampled_from([0, 3600])).map(lambda t: ['dt', t[0], t[1]]), st.integers(D0, D0 + 3).map(lambda o: ['date', o]),
                         st.tuples(st.integers(D0, D0 + 3), st.sampled_from([0, 3600])).map(lambda t: ['dt64', t[0], t[1], 's']))
_nums_mixed = st.one_of(st.integers(-2, 3), st.sampled_from([-1.5, 0.0, 1.0, 2.5]), st.sampled_from([-1.5, 0.0, 1.0, 2.5]).map(lambda f: ['np', 'float64', f]),
                        st.integers(-2, 3).map(lambda i: ['np', 'int64', i]))
_homog = [_dates_mixed, _nums_mixed, st.one_of(_dates_mixed, st.none()), st.one_of(_nums_mixed, st.none(), _str), st.integers(-2, 3), st.sampled_from([-1.5, 0.0, 1.0, 2.0, 2.5]), _str, st.one_of(st.integers(-2, 3), st.floats(-2, 3, allow_nan=False).map(lambda f: round(f, 1)), _nan)]

_sort_input = st.one_of(
    st.lists(_sort_scalar, max_size=10).map(lambda v: dict(kind='scalars', xs=v)),
    st.sampled_from(_homog).flatmap(lambda s: st.lists(st.one_of(s, _nan), max_size=10)).map(lambda v: dict(kind='scalars', xs=v)),
    st.integers(1, 3).flatmap(lambda n: st.lists(st.lists(_sort_scalar, min_size=n, max_size=n).map(lambda t: ['tuple', t]), max_size=8)).map(lambda v: dict(kind='tuples', xs=v)),
    # mostly-numeric tuples: native sorted() does not raise on these, which is where NaN used to slip through
    st.integers(1, 3).flatmap(lambda n: st.lists(st.lists(st.one_of(st.integers(0, 2), _nan), min_size=n, max_size=n).map(lambda t: ['tuple', t]), max_size=8)).map(lambda v: dict(kind='tuples', xs=v)),
)


_big_pool = st.sampled_from([
    [0, 1, 2, 3], [0.5, 1.5, 2.5], [0, 1.0, 2, ['nan', 0]], ['a', 'b', 'ab', ''], [None, 0, 'a', 1.5], [0, ['nan', 0], ['nan', 1], None, 'a', ['dt', D0, 0]]])
def _arrange(xs, pool, how):
    # 'asis' random order; 'pool' grouped in pool order (looks sorted for homogeneous pools); 'rev' the reverse; 'one_off' grouped with one element moved to the end
    if how == 'asis':
        return xs
    g = sorted(xs, key=lambda x: pool.index(x))
    if how == 'rev':
        return g[::-1]
    if how == 'one_off' and len(g) > 2:
        return g[1:] + g[:1]
    return g


_sort_input_large = st.tuples(_big_pool, st.sampled_from([40, 64, 100, 128, 200, 256]), st.booleans(), st.sampled_from(['asis', 'asis', 'pool', 'rev', 'one_off'])).flatmap(
    lambda t: st.lists(st.sampled_from(t[0]), min_size=t[1], max_size=t[1]).map(
        lambda xs, t=t: dict(kind='tuples' if t[2] else 'scalars', xs=[['tuple', [x, 0]] for x in _arrange(xs, t[0], t[3])] if t[2] else _arrange(xs, t[0], t[3]))))


def run_sort_list(spec):
    from pyg_base import sort, cmp
    env = Env()
    xs = [build(v, env) for v in spec['xs']]
    before = list(xs)
    out = call('sort(%s)' % short(xs, 120), sort, list(xs))
    check(isinstance(out, list), 'sort returned %s, not a list', type(out).__name__)
    check(len(out) == len(xs), 'sort(%s) has %s elements: %s', xs, len(out), out)
    # permutation by identity for containers / NaN objects, by token otherwise
    from pv.codec import token
    from collections import Counter
    check(Counter(token(v) for v in out) == Counter(token(v) for v in xs), 'sort(%s) = %s is not a permutation of its input', xs, out)
    check(all(a is b for a, b in zip(xs, before)), 'sort modified its input list')
    for a, b in zip(out[:-1], out[1:]):
        c = call('cmp', cmp, a, b)
        check(c <= 0, 'sort(%s) = %s is not non-decreasing under cmp: cmp(%s, %s) = 1', xs, out, a, b)
    classes = set(_tclass(v) if spec['kind'] == 'scalars' else tuple(_tclass(i) for i in v[1]) for v in spec['xs'])
    has_nan = any(_has_nan(v) for v in spec['xs'])
    nt = len(xs) >= 3 and (len(classes) >= 2 or has_nan)
    cls = [spec['kind'], 'len>=3' if len(xs) >= 3 else 'len<3']
    if has_nan:
        cls.append('nan')
    if len(classes) >= 2:
        cls.append('mixed_types')
    if has_nan and len(classes - {'nan'}) == 1 and spec['kind'] == 'scalars':
        cls.append('nan_among_one_type')
    flat = [i for v in spec['xs'] for i in ([v] if spec['kind'] == 'scalars' else v[1])]
    kinds = set(i[0] for i in flat if isinstance(i, list) and i[0] in ('dt', 'date', 'dt64'))
    if len(kinds) >= 2:
        cls.append('dates_of_several_types')
    if any(isinstance(i, list) and i[0] == 'np' for i in flat) and any(isinstance(i, (int, float)) and not isinstance(i, bool) for i in flat):
        cls.append('python_and_numpy_numbers')
    return dict(nt=nt, cls=cls)


# ----------------------------------------------------------------------------- dictable.sort

_cell = st.one_of(st.none(), st.integers(0, 3), st.sampled_from([0.0, 1.0, 2.5]), _nan, st.sampled_from(['a', 'b', 'ab']),
                  st.integers(D0, D0 + 2).map(lambda o: ['dt', o, 0]), st.integers(D0, D0 + 2).map(lambda o: ['date', o]))
_cell_homog = st.sampled_from([st.one_of(st.integers(D0, D0 + 2).map(lambda o: ['dt', o, 0]), st.integers(D0, D0 + 2).map(lambda o: ['date', o])), st.integers(0, 2), st.sampled_from(['a', 'b', 'c']), st.one_of(st.integers(0, 2), _nan), st.one_of(st.integers(0, 2), st.none())])
_COLS = ['k', 'j', 'a', 'z']


@st.composite
def _table_case(draw):
    n = draw(st.integers(0, 8))
    ncols = draw(st.integers(1, 4))
    cols = draw(st.permutations(_COLS))[:ncols]
    data = {}
    for c in cols:
        s = draw(st.one_of(_cell_homog, st.just(_cell)))
        data[c] = draw(st.lists(s, min_size=n, max_size=n))
    form = draw(st.sampled_from(['names', 'list', 'function', 'values', 'none']))
    nkeys = draw(st.integers(1, min(3, ncols)))
    keys = list(draw(st.permutations(cols))[:nkeys])
    spec = dict(cols=list(cols), data=data, form=form, keys=keys)
    if form == 'function':
        spec['fn'] = draw(st.sampled_from(['mod2', 'neg', 'pair', 'const']))
        spec['keys'] = keys[:1]
    if form == 'values':
        orders = {}
        for k in keys:
            present = []
            for v in data[k]:
                if not is_nan_spec(v) and v not in present and not any(_veq(v, p) for p in present):
                    present.append(v)
            extra = [x for x in [7, 'zz'] if x not in present]
            pool = present + extra
            chosen = draw(st.lists(st.sampled_from(pool), unique_by=lambda v: repr(_vkey(v)), max_size=len(pool))) if pool else []
            orders[k] = chosen
        spec['orders'] = orders
    return spec


@st.composite
def _big_table_case(draw):
    """tables of 30-160 rows with few distinct key values: size thresholds (fast paths) and heavy ties"""
    n = draw(st.sampled_from([30, 64, 99, 100, 101, 128, 160]))
    kind = draw(st.sampled_from(['int', 'float', 'str', 'mixed']))
    pool = {'int': [0, 1, 2], 'float': [0.5, 1.5, 2.5], 'str': ['a', 'b', 'c'], 'mixed': [0, 1.0, 'a', None]}[kind]
    k = draw(st.lists(st.sampled_from(pool), min_size=n, max_size=n))
    j = draw(st.lists(st.integers(0, 1), min_size=n, max_size=n))
    form = draw(st.sampled_from(['names', 'names', 'list', 'function', 'values']))
    keys = draw(st.sampled_from([['k'], ['k'], ['k', 'j'], ['j', 'k']]))
    spec = dict(cols=['k', 'j'], data={'k': k, 'j': j}, form=form, keys=keys)
    if form == 'function':
        spec['fn'] = draw(st.sampled_from(['neg', 'const', 'pair']))
        spec['keys'] = keys[:1]
    if form == 'values':
        spec['orders'] = {c: draw(st.permutations(pool if c == 'k' else [0, 1]))[:draw(st.integers(1, 3))] for c in keys}
        spec['orders'] = {c: [v for v in vs if v is not None] for c, vs in spec['orders'].items()}
    return spec


def _vkey(v):
    # hash-equality class used by a python dict: 1 == 1.0 == True
    if isinstance(v, (bool, int, float)):
        return ('num', float(v))
    return ('o', repr(v))


def _veq(a, b):
    return _vkey(a) == _vkey(b)


_FNS = {
    'mod2': lambda v: (v % 2) if isinstance(v, int) and not isinstance(v, bool) else v,
    'neg': lambda v: -v if isinstance(v, (int, float)) and not isinstance(v, bool) else v,
    'pair': lambda v: (0, v),
    'const': lambda v: 0,
}


def run_table_sort(spec):
    from pyg_base import dictable, cmp
    env = Env()
    cols = spec['cols']
    data = {c: [build(v, env) for v in spec['data'][c]] for c in cols}
    n = len(data[cols[0]])
    data['_pos'] = list(range(n))
    d = dictable(data)
    before = {c: list(v) for c, v in dict(d).items()}
    keys = spec['keys']
    form = spec['form']
    if form == 'names':
        what = 'dictable.sort(*%s)' % (keys,)
        res = call(what, d.sort, *keys)
        keyf = lambda row: tuple(row[k] for k in keys)
    elif form == 'list':
        what = 'dictable.sort(%s)' % (keys,)
        res = call(what, d.sort, list(keys))
        keyf = lambda row: tuple(row[k] for k in keys)
    elif form == 'function':
        k = keys[0]
        fn = _FNS[spec['fn']]
        f = eval('lambda %s: fn(%s)' % (k, k), {'fn': fn})
        what = 'dictable.sort(lambda %s: %s(%s))' % (k, spec['fn'], k)
        res = call(what, d.sort, f)
        keyf = lambda row: (fn(row[k]),)
    elif form == 'values':
        orders = {k: [build(v, env) for v in spec['orders'][k]] for k in keys}
        what = 'dictable.sort(**%s)' % (orders,)
        res = call(what, lambda: d.sort(**orders))

        def rank(k, v):
            if v != v:
                return len(orders[k])
            for i, o in enumerate(orders[k]):
                if type(o) is type(v) and o == v or (isinstance(o, (int, float)) and isinstance(v, (int, float)) and o == v):
                    return i
            return len(orders[k])
        keyf = lambda row: tuple(rank(k, row[k]) for k in keys)
    else:
        what = 'dictable.sort()'
        res = call(what, d.sort)
        keyf = None
    check(isinstance(res, dictable), '%s returned %s', what, type(res).__name__)
    check(sorted(res.keys()) == sorted(d.keys()), '%s changed the columns: %s', what, list(res.keys()))
    check(len(res) == n and all(len(v) == n for v in dict(res).values()), '%s: result is not %s rows in every column: %s', what, n, dict(res))
    pos = list(res['_pos']) if n else []
    check(sorted(pos) == list(range(n)), '%s is not a permutation of the rows: original positions %s', what, pos)
    for c in cols:
        for i, p in enumerate(pos):
            got, exp = res[c][i], data[c][p]
            check(got is exp or got == exp, '%s: row that was at %s has %s = %s instead of %s', what, p, c, got, exp)
    # operand untouched
    after = dict(d)
    check(sorted(after) == sorted(before) and all(len(after[c]) == len(before[c]) and all(a is b for a, b in zip(after[c], before[c])) for c in before),
          '%s modified the table it was called on', what)
    dup = False
    if keyf is None:
        check(pos == list(range(n)), 'dictable.sort() with no key reordered the rows: %s', pos)
    else:
        rows = [{c: data[c][p] for c in cols} for p in pos]
        ks = [keyf(r) for r in rows]
        for i in range(n - 1):
            c = call('cmp', cmp, ks[i], ks[i + 1])
            check(c <= 0, '%s on %s: keys not non-decreasing under cmp: %s then %s (original rows %s)', what, {k: data[k] for k in cols}, ks[i], ks[i + 1], pos)
            if c == 0:
                dup = True
                check(pos[i] < pos[i + 1], '%s on %s is not stable: equal keys %s but original positions %s before %s', what, {k: data[k] for k in cols}, ks[i], pos[i], pos[i + 1])
        # idempotent
        if form == 'names':
            res2 = call(what + ' twice', res.sort, *keys)
        elif form == 'list':
            res2 = call(what + ' twice', res.sort, list(keys))
        elif form == 'function':
            res2 = call(what + ' twice', res.sort, f)
        else:
            res2 = call(what + ' twice', lambda: res.sort(**orders))
        check(list(res2['_pos']) == pos if n else len(res2) == 0, '%s is not idempotent: %s then %s', what, pos, list(res2['_pos']) if n else None)
    cls = ['form=' + form, 'nkeys=%i' % len(keys)]
    if dup:
        cls.append('ties')
    if n == 0:
        cls.append('empty')
    if any(_has_nan(v) for k in keys for v in spec['data'][k]):
        cls.append('nan_key')
    if form in ('names', 'list') and len(keys) >= 2 and keys != sorted(keys):
        cls.append('multi_key_not_alphabetical')
    unlisted = form == 'values' and any(keyf(r)[i] == len(spec['orders'][k]) for r in rows for i, k in enumerate(keys)) if n and keyf else False
    if unlisted:
        cls.append('unlisted_values')
    nt = n >= 3 and (dup or 'nan_key' in cls) and form != 'none'
    return dict(nt=nt, cls=cls)


SUBS = [
    Sub('cmp_laws', lambda tier: _triple, run_cmp_laws, quick=4000, thorough=20000,
        rule='triples (x,y,z) from the mixed universe (None, bools, ints, floats, NaN objects 0/1, +-inf, strings, date/datetime/datetime64, numpy scalars, '
             'lists/tuples/dicts to depth 2); all 9 cmp values checked for range, antisymmetry, transitivity, numeric agreement, NaN rank. '
             'non-trivial = at least two type classes or a NaN; distinct = distinct spec',
        floor=0.3),
    EnumSub('cmp_cube', enum_cube, run_cmp_laws, thorough_only=True, chunks=len(POOL),
            rule='every ordered triple of a fixed %i-element pool (all %i); same oracle as cmp_laws' % (len(POOL), len(POOL) ** 3)),
    Sub('sort_list', lambda tier: _sort_input, run_sort_list, quick=4000, thorough=15000,
        rule='lists (<=10) of None/ints/finite floats/NaN/strings/datetimes (datetime, date and numpy datetime64 spellings; numpy float64/int64 beside python numbers) and of equal-length (1-3) tuples of them; oracle: permutation, '
             'non-decreasing under cmp, input untouched. non-trivial = length >= 3 and (>= 2 type classes or a NaN)',
        floor=0.2, class_floors={'nan_among_one_type': 0.03, 'dates_of_several_types': 0.08, 'python_and_numpy_numbers': 0.1}),
    Sub('sort_list_large', lambda tier: _sort_input_large, run_sort_list, quick=150, thorough=1000,
        rule='lists of 40-256 scalars (or 2-tuples) drawn from pools of 3-6 values incl. NaN objects, None, strings, datetimes, in random / grouped (looks sorted) / reversed / one-off order: size-dependent paths of sort(); same oracle as sort_list',
        floor=0.2),
    Sub('table_sort', lambda tier: _table_case(), run_table_sort, quick=1500, thorough=6000,
        rule='tables of 0-8 rows x 1-4 columns with a hidden position column; keys as *names, as one list, as a function, as value orders, or none; '
             'oracle: permutation of rows, keys non-decreasing under cmp, ties keep original order, idempotent, unlisted values last, operand untouched. '
             'non-trivial = >= 3 rows and (tied keys or NaN key)',
        floor=0.2, class_floors={'multi_key_not_alphabetical': 0.02, 'ties': 0.2}),
    Sub('table_sort_large', lambda tier: _big_table_case(), run_table_sort, quick=250, thorough=1500,
        rule='tables of 30-160 rows (incl. 99/100/101/128) whose key column has 3-4 distinct values, sorted by one or two columns, a function or value orders; same oracle as table_sort '
             '(stability among the many ties is what matters here: size-dependent fast paths). non-trivial = ties present',
        floor=0.5),
]
