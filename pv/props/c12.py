# -*- coding: utf-8 -*-
"""
C12 - df_fillna / nona fill or drop exactly the missing cells, arrays and pandas alike.

Spec format (plain JSON):
    cols    : 1-3 columns of equal length; a cell is None (= NaN), a finite float, or 'inf' / '-inf'
    dim     : 1 -> the vector cols[0];  2 -> the frame with len(cols) columns
    methods : list of 'ffill' | 'bfill' | 'nona' | 'fnna' | 'ffill_na' | 'ffill_0' | number
    bare    : pass a one-element list as the bare method (and [] as None)
    limit   : None | 1 | 2 | 3
    kinds   : which objects the case is run on: 'arr' numpy array, 'range' Series/DataFrame with the default RangeIndex,
              'dt' Series/DataFrame with a daily DatetimeIndex (and columns 'a','b','c')

Oracle: a scalar NaN-run walker per column over (original position, cells) rows, written from the statement; it never
calls pandas fill functions. Every kind is compared cell by cell with the model (NaN positions exactly, other cells
bit-exactly), pandas results also by index labels / columns, the array result with the `.values` of the pandas
results, and every input object with a snapshot taken before the call.
"""
import struct

from hypothesis import strategies as st

from pv.core import Sub, EnumSub, Violation, call, check, short
from pv.codec import D0, mkdt

ASSUMPTIONS = [
    'cells are float64: NaN, finite floats (incl. -0.0, 1e300) and +-inf (inf is a value here: np.isnan / pandas treat it as present)',
    'axis is not passed (axis=1 is swallowed by the loops decorator and the statement does not mention it, DESIGN section 4)',
    'a numeric method is only combined with limit=None (fillna(value, limit=k) fills the first k NaN overall; DESIGN section 4: not treated as a defect)',
    "'ffill_na' / 'ffill_0' stand alone or first in a list (later in a list they read the last valid index of the ORIGINAL input; DESIGN section 4)",
    "'ffill_na' / 'ffill_0' on a column without any valid observation: the column may stay NaN or (ffill_0) become all 0 - the statement does not say",
    'pandas inputs have a strictly increasing unique index: the default RangeIndex (from 0) or a daily DatetimeIndex; frames have unique column labels',
    'on frames every fill works column by column; rows are dropped only when the whole row is NaN',
    'interpolation methods, pad/backfill spellings, date methods and list/dict containers of timeseries are outside the statement and not generated',
    'nona(): value is the default NaN; the edge option (docstring: 1 = cut only the latest all-NaN rows, -1 = only the historic ones) is checked on pandas inputs',
    'formerly excluded, FIXED in /repo and searched again (class labels K1_class / K2_class / K3_class, regression inputs in replays/C12): '
    "K1 'fnna' after an earlier row drop on an integer-labelled object; K2 'nona' on a frame without rows; K3 a list headed by ffill_na/ffill_0 on a frame",
    'GENUINE DEFECT excluded by construction (K4): nona(ndarray, edge=+-1) ignores edge (drops every all-NaN row); edge is generated for pandas inputs only',
]

# the known-defect classes the generators avoid; remove a name once /repo carries the fix and the class is searched again
EXCLUDED = {'K4'}

NAN = float('nan')
FILLS = ('ffill', 'bfill')
DROPS = ('nona', 'fnna')
TAILS = ('ffill_na', 'ffill_0')
COLNAMES = ['a', 'b', 'c']


# ----------------------------------------------------------------------------- cells

def _cell(v):
    if v is None:
        return NAN
    if v == 'inf':
        return float('inf')
    if v == '-inf':
        return float('-inf')
    return float(v)


def _isnan(x):
    return x != x


def _same_cell(a, b):
    if _isnan(a) or _isnan(b):
        return _isnan(a) and _isnan(b)
    return struct.pack('<d', a) == struct.pack('<d', b)


def _is_num(m):
    return isinstance(m, (int, float)) and not isinstance(m, bool)


# ----------------------------------------------------------------------------- reference model

def _ffill(col, limit):
    out = list(col)
    have = False
    last = NAN
    run = 0
    for i, v in enumerate(col):
        if _isnan(v):
            run += 1
            if have and (limit is None or run <= limit):
                out[i] = last
        else:
            have, last, run = True, v, 0
    return out


def _bfill(col, limit):
    return _ffill(col[::-1], limit)[::-1]


def _model(cols, methods, limit, zero_allnan=False):
    """
    returns (pos, cols, flags): pos = original positions of the surviving rows, cols = their cells column by column,
    flags = known-defect classes this case runs into: ('K1', step) / ('K2', step), and 'ambiguous' when ffill_0 met an all-NaN column
    """
    n = len(cols[0])
    pos = list(range(n))
    cur = [list(c) for c in cols]
    flags = set()
    for step, m in enumerate(methods):
        if _is_num(m):
            cur = [[float(m) if _isnan(v) else v for v in c] for c in cur]
        elif m == 'ffill':
            cur = [_ffill(c, limit) for c in cur]
        elif m == 'bfill':
            cur = [_bfill(c, limit) for c in cur]
        elif m in TAILS:
            new = []
            for c in cur:
                valid = [i for i, v in enumerate(c) if not _isnan(v)]
                if not valid:
                    if m == 'ffill_0' and len(c):
                        flags.add('ambiguous')
                        new.append([0.0] * len(c) if zero_allnan else list(c))
                    else:
                        new.append(list(c))
                else:
                    p = valid[-1]
                    new.append(_ffill(c, limit)[:p + 1] + [NAN if m == 'ffill_na' else 0.0] * (len(c) - p - 1))
            cur = new
        elif m in DROPS:
            rowvalid = [any(not _isnan(c[i]) for c in cur) for i in range(len(pos))]
            if m == 'nona':
                if not pos:
                    flags.add(('K2', step))
                keep = [i for i, ok in enumerate(rowvalid) if ok]
            else:
                if True in rowvalid:
                    first = rowvalid.index(True)
                    if pos[first] != first:
                        flags.add(('K1', step))
                    keep = list(range(first, len(pos)))
                else:
                    keep = []
            pos = [pos[i] for i in keep]
            cur = [[c[i] for i in keep] for c in cur]
        else:
            raise ValueError('model does not know method %r' % (m,))
    return pos, cur, flags


def _flags(spec):
    cols = [[_cell(v) for v in c] for c in spec['cols']]
    if spec['dim'] == 1:
        cols = cols[:1]
    _, _, flags = _model(cols, spec['methods'], spec['limit'])
    return flags


def _k1(spec):
    return any(isinstance(f, tuple) and f[0] == 'K1' for f in _flags(spec))


def _k2(spec):
    return spec['dim'] == 2 and any(isinstance(f, tuple) and f[0] == 'K2' for f in _flags(spec))


def _k2_fn(spec):
    return spec['dim'] == 2 and len(spec['cols'][0]) == 0 and bool(set(spec['kinds']) & {'range', 'dt'})


def _k3(spec):
    return spec['dim'] == 2 and len(spec['methods']) > 1 and spec['methods'][0] in TAILS


KNOWN = {
    # sub-checks fillna / vec_enum
    'fnna_slices_by_position_on_int_index': lambda spec: 'methods' in spec and _k1(spec) and bool(set(spec['kinds']) & {'arr', 'range'}),
    'nona_on_zero_row_frame_drops_columns': lambda spec: _k2(spec) if 'methods' in spec else _k2_fn(spec),
    'tail_fill_list_on_frame_reapplies_list': lambda spec: 'methods' in spec and _k3(spec),
    # sub-check nona_fn
    'nona_edge_ignored_on_array': lambda spec: 'edge' in spec and spec['edge'] is not None and 'arr' in spec['kinds'],
}


# canonical failing spec per signature: (sub-check, spec, what) - material for known_findings.json; each raises Violation on the tree as of d325e52
_ALL = ['arr', 'range', 'dt']
KNOWN_SPECS = {
    'fnna_slices_by_position_on_int_index': (
        'fillna', dict(cols=[[None, 1.0, None, 2.0]], dim=1, methods=['nona', 'fnna'], bare=False, limit=None, kinds=_ALL),
        "df_fillna(np.array([nan,1,nan,2]), ['nona','fnna']) returns [2.] (also ['fnna','fnna']; 'fnna' on any integer index not starting at 0): "
        "res[nonan.index[0]:] is a positional slice on integer labels"),
    'nona_on_zero_row_frame_drops_columns': (
        'fillna', dict(cols=[[], []], dim=2, methods=['nona'], bare=True, limit=None, kinds=_ALL),
        "df_fillna(np.zeros((0,2)), 'nona') has shape (0,0) (also an all-NaN frame under ['fnna','nona'], and nona(DataFrame without rows)): "
        "max/min(axis=1) of an empty bool frame is float64, so res[mask] selects columns"),
    'tail_fill_list_on_frame_reapplies_list': (
        'fillna', dict(cols=[[1.0, None, None, None, None, 5.0]] * 2, dim=2, methods=['ffill_na', 'ffill'], bare=False, limit=1, kinds=_ALL),
        "on a 2-d input ['ffill_na'|'ffill_0', more...] passes the whole list (not the one method) to every column: later methods run twice "
        "(limit=1 fills two cells; a following 'fnna' drops valid rows)"),
    'nona_edge_ignored_on_array': (
        'nona_fn', dict(cols=[[1.0, None, 2.0, 3.0]], dim=1, edge=1, bare=False, kinds=_ALL),
        'nona(np.array([1,nan,2,3]), edge=1) drops the interior NaN (docstring example asserts it is kept): edge is ignored for ndarrays'),
}


def _repair(spec):
    """moves a generated case out of the excluded known-defect classes, changing as little as possible"""
    if 'K2' in EXCLUDED and spec['dim'] == 2:
        for _ in range(len(spec['methods'])):
            steps = sorted(f[1] for f in _flags(spec) if isinstance(f, tuple) and f[0] == 'K2')
            if not steps:
                break
            spec['methods'][steps[0]] = 'fnna'      # on a frame without rows both are "drop nothing"
    if 'K1' in EXCLUDED and _k1(spec):
        spec['kinds'] = ['dt']
    return spec


# ----------------------------------------------------------------------------- builders / observers

def _build(cols, dim, kind):
    import numpy as np
    import pandas as pd
    n = len(cols[0])
    if dim == 1:
        a = np.array(cols[0], dtype='float64')
    else:
        a = np.empty((n, len(cols)), dtype='float64')
        for j, c in enumerate(cols):
            a[:, j] = c
    if kind == 'arr':
        return a
    index = None if kind == 'range' else pd.DatetimeIndex([mkdt(D0 + i) for i in range(n)])
    if dim == 1:
        return pd.Series(a, index=index, dtype='float64')
    return pd.DataFrame(a, index=index, columns=None if kind == 'range' else COLNAMES[:len(cols)])


def _labels(kind, n):
    import pandas as pd
    return list(range(n)) if kind == 'range' else [pd.Timestamp(mkdt(D0 + i)) for i in range(n)]


def _snap(x):
    import numpy as np
    if isinstance(x, np.ndarray):
        return ('arr', x.shape, x.dtype.str, x.tobytes())
    v = np.ascontiguousarray(x.values)
    cols = list(x.columns) if hasattr(x, 'columns') else [x.name]
    return (type(x).__name__, v.shape, v.dtype.str, v.tobytes(), list(x.index), cols)


def _columns_of(what, res, dim, ncols):
    """result values column by column as python floats"""
    import numpy as np
    v = res if isinstance(res, np.ndarray) else res.values
    check(v.dtype == np.float64, '%s: result has dtype %s, not float64', what, str(v.dtype))
    if dim == 1:
        check(v.ndim == 1, '%s: result of a vector has shape %s', what, v.shape)
        return [[float(i) for i in v]]
    check(v.ndim == 2 and v.shape[1] == ncols, '%s: result of a frame with %s column(s) has shape %s', what, ncols, v.shape)
    return [[float(i) for i in v[:, j]] for j in range(ncols)]


def _diff(got, exp):
    """None when equal, else text"""
    if len(got[0]) != len(exp[0]):
        return '%i rows instead of %i' % (len(got[0]), len(exp[0]))
    for j, (g, e) in enumerate(zip(got, exp)):
        for i, (a, b) in enumerate(zip(g, e)):
            if not _same_cell(a, b):
                return 'row %i column %i is %r instead of %r' % (i, j, a, b)
    return None


def _check_object(what, x, kind, res, dim, ncols, variants, n):
    """res = result for the object x of `kind`; variants = acceptable (pos, cols) model results"""
    import numpy as np
    import pandas as pd
    if kind == 'arr':
        check(isinstance(res, np.ndarray), '%s: an ndarray went in, %s came out', what, type(res).__name__)
    elif dim == 1:
        check(isinstance(res, pd.Series), '%s: a Series went in, %s came out', what, type(res).__name__)
    else:
        check(isinstance(res, pd.DataFrame), '%s: a DataFrame went in, %s came out', what, type(res).__name__)
    got = _columns_of(what, res, dim, ncols)
    diffs = [_diff(got, cols) for pos, cols in variants]
    if all(d is not None for d in diffs):
        raise Violation('%s: %s; result %s, reference %s' % (what, diffs[0], short(got, 260), short(variants[0][1], 260)))
    pos = variants[[d is None for d in diffs].index(True)][0]
    if kind != 'arr':
        lab = _labels(kind, n)
        exp_index = [lab[p] for p in pos]
        check(list(res.index) == exp_index, '%s: surviving rows carry index %s instead of their own labels %s', what, list(res.index), exp_index)
        if dim == 2:
            check(list(res.columns) == list(x.columns), '%s: columns changed from %s to %s', what, list(x.columns), list(res.columns))
    return got


def _what(fname, x, args):
    import numpy as np
    if isinstance(x, np.ndarray):
        xs = 'np.array(%s)' % short(x.tolist(), 200) if x.size else 'np.zeros(%s)' % (x.shape,)
    else:
        xs = '%s(%s, index=%s)' % (type(x).__name__, short(x.values.tolist(), 200) if x.size else 'np.zeros(%s)' % (x.shape,), type(x.index).__name__)
    return '%s(%s, %s)' % (fname, xs, args)


# ----------------------------------------------------------------------------- pattern classes

def _runs(col):
    """list of (is_nan, length)"""
    out = []
    for v in col:
        isn = _isnan(v)
        if out and out[-1][0] == isn:
            out[-1][1] += 1
        else:
            out.append([isn, 1])
    return out


def _pattern_classes(cols, dim):
    cls = []
    n = len(cols[0])
    if n == 0:
        return ['empty'], dict(maxrun=0, trailing=False, allnan_row=False)
    if all(_isnan(v) for c in cols for v in c):
        cls.append('all_nan')
    maxrun, trailing = 0, False
    for c in cols:
        r = _runs(c)
        nanruns = [l for isn, l in r if isn]
        maxrun = max([maxrun] + nanruns)
        anyvalid = any(not isn for isn, _ in r)
        if r[0][0] and anyvalid:
            cls.append('leading_run')
        if r[-1][0] and anyvalid:
            cls.append('trailing_run')
            trailing = True
        if any(isn for isn, _ in r[1:-1]):
            cls.append('interior_run')
    allnan_row = any(all(_isnan(c[i]) for c in cols) for i in range(n))
    if dim == 2:
        if allnan_row:
            cls.append('allnan_row_2d')
        if any(0 < sum(_isnan(c[i]) for c in cols) < len(cols) for i in range(n)):
            cls.append('partial_nan_row_2d')
    return sorted(set(cls)), dict(maxrun=maxrun, trailing=trailing, allnan_row=allnan_row)


# ----------------------------------------------------------------------------- sub-check fillna

def run_fillna(spec):
    import numpy as np
    from pyg_base import df_fillna
    dim, methods, limit = spec['dim'], spec['methods'], spec['limit']
    cols = [[_cell(v) for v in c] for c in spec['cols']]
    if dim == 1:
        cols = cols[:1]
    ncols = len(cols)
    n = len(cols[0])
    if any(len(c) != n for c in cols):
        raise ValueError('ragged spec')
    pos, exp, flags = _model(cols, methods, limit)
    variants = [(pos, exp)]
    if 'ambiguous' in flags:
        p2, e2, _ = _model(cols, methods, limit, zero_allnan=True)
        variants.append((p2, e2))
    if spec.get('bare') and len(methods) <= 1:
        method = methods[0] if methods else None
    else:
        method = list(methods)
    args = '%r, limit=%r' % (method, limit)
    results = {}
    for kind in spec['kinds']:
        x = _build(cols, dim, kind)
        before = _snap(x)
        what = _what('df_fillna', x, args)
        res = call(what, df_fillna, x, method, limit=limit)
        results[kind] = _check_object(what, x, kind, res, dim, ncols, variants, n)
        check(_snap(x) == before, '%s modified its argument: now %s', what, x.tolist() if isinstance(x, np.ndarray) else x.values.tolist())
    if 'arr' in results:
        for kind in results:
            if kind != 'arr':
                d = _diff(results['arr'], results[kind])
                check(d is None, 'df_fillna(%s): array result differs from the .values of the %s-indexed pandas result: %s', args, kind, d)

    # ---- classes / non-trivial rule
    pcls, info = _pattern_classes(cols, dim)
    cls = ['dim=%i' % dim, 'limit=%s' % limit, 'nmethods=%i' % min(len(methods), 3)] + pcls
    if dim == 2:
        cls.append('ncols=%i' % ncols)
    for m in methods:
        cls.append('m=const' if _is_num(m) else 'm=' + m)
    fills = [m for m in methods if m in FILLS or m in TAILS]
    run_gt_limit = limit is not None and bool(fills) and info['maxrun'] > limit
    tail = bool(methods) and methods[0] in TAILS and info['trailing']
    rowdrop = dim == 2 and info['allnan_row'] and any(m in DROPS for m in methods)
    if run_gt_limit:
        cls.append('run_longer_than_limit')
    if tail:
        cls.append('tail_fill_with_trailing_run')
    if rowdrop:
        cls.append('allnan_row_dropped_2d')
    if len(pos) < n:
        cls.append('rows_dropped')
    if spec['kinds'] == ['dt']:
        cls.append('dt_only(K1 class)')
    elif any(isinstance(f, tuple) and f[0] == 'K1' for f in flags):
        cls.append('K1_class')
    if dim == 2 and any(isinstance(f, tuple) and f[0] == 'K2' for f in flags):
        cls.append('K2_class')
    if dim == 2 and len(methods) > 1 and methods[0] in TAILS:
        cls.append('K3_class')
    if 'ambiguous' in flags:
        cls.append('ffill_0_allnan_column')
    nt = bool(methods) and (run_gt_limit or tail or (dim == 2 and info['allnan_row']) or 'empty' in pcls or 'all_nan' in pcls)
    return dict(nt=nt, cls=cls)


# ----------------------------------------------------------------------------- sub-check nona_fn

def run_nona(spec):
    import numpy as np
    from pyg_base import nona
    dim, edge = spec['dim'], spec['edge']
    cols = [[_cell(v) for v in c] for c in spec['cols']]
    if dim == 1:
        cols = cols[:1]
    ncols = len(cols)
    n = len(cols[0])
    rowvalid = [any(not _isnan(c[i]) for c in cols) for i in range(n)]
    if True not in rowvalid:
        keep = []
    elif edge is None:
        keep = [i for i in range(n) if rowvalid[i]]
    elif edge == 1:
        keep = list(range(0, n - rowvalid[::-1].index(True)))
    elif edge == -1:
        keep = list(range(rowvalid.index(True), n))
    else:
        raise ValueError('edge %r' % (edge,))
    exp = [[c[i] for i in keep] for c in cols]
    variants = [(keep, exp)]
    results = {}
    for kind in spec['kinds']:
        x = _build(cols, dim, kind)
        before = _snap(x)
        if edge is None and spec.get('bare'):
            what = _what('nona', x, '')
            res = call(what, nona, x)
        else:
            what = _what('nona', x, 'edge=%r' % (edge,))
            res = call(what, nona, x, edge=edge)
        results[kind] = _check_object(what, x, kind, res, dim, ncols, variants, n)
        check(_snap(x) == before, '%s modified its argument: now %s', what, x.tolist() if isinstance(x, np.ndarray) else x.values.tolist())
    if 'arr' in results:
        for kind in results:
            if kind != 'arr':
                d = _diff(results['arr'], results[kind])
                check(d is None, 'nona(edge=%s): array result differs from the .values of the %s-indexed pandas result: %s', edge, kind, d)
    pcls, info = _pattern_classes(cols, dim)
    cls = ['dim=%i' % dim, 'edge=%s' % edge] + pcls
    edge_keeps_interior = edge is not None and len(keep) > sum(rowvalid)
    if edge_keeps_interior:
        cls.append('edge_keeps_allnan_rows')
    if len(keep) < n:
        cls.append('rows_dropped')
    nt = info['allnan_row'] or n == 0
    return dict(nt=bool(nt), cls=cls)


# ----------------------------------------------------------------------------- generators

_VAL = st.sampled_from([float(i) for i in range(1, 10)] * 2 + [0.0, -0.0, -1.5, 2.5, 1e300, 'inf', '-inf'])
_CONST = st.sampled_from([0, 1, -2, 0.0, 2.5, 7.0])
_STEP = st.sampled_from(['ffill', 'bfill', 'nona', 'fnna'])


@st.composite
def _vector(draw, max_runs):
    """NaN-run grammar: alternating runs of NaN / values, each of length 0-4"""
    nruns = draw(st.sampled_from([0, 1, 2, 2] + list(range(3, max_runs + 1)) * 3))
    isn = draw(st.booleans())
    lens = draw(st.lists(st.sampled_from([0, 1, 1, 2, 2, 3, 4]), min_size=nruns, max_size=nruns))
    nvals = sum(ln for k, ln in enumerate(lens) if (k % 2 == 0) != isn)
    vals = draw(st.lists(_VAL, min_size=nvals, max_size=nvals))
    out = []
    for ln in lens:
        for _ in range(ln):
            out.append(None if isn else vals.pop())
        isn = not isn
    return out[:20]


@st.composite
def _columns(draw, dim, max_runs):
    first = draw(_vector(max_runs))
    if dim == 1:
        return [first]
    n = len(first)
    cols = [first]
    for _ in range(draw(st.integers(0, 2))):
        mode = draw(st.sampled_from(['same_mask', 'grammar', 'grammar', 'all_nan']))
        if mode == 'same_mask':
            vals = draw(st.lists(_VAL, min_size=n, max_size=n))
            c = [None if v is None else w for v, w in zip(first, vals)]
        elif mode == 'all_nan':
            c = [None] * n
        else:
            c = draw(_vector(max_runs))[:n]
            if len(c) < n:
                c = c + (draw(st.lists(_VAL, min_size=n - len(c), max_size=n - len(c))) if draw(st.booleans()) else [None] * (n - len(c)))
        cols.append(c)
    return cols


@st.composite
def _fillna_case(draw, tier):
    max_runs = 5 if tier == 'quick' else 7
    dim = draw(st.sampled_from([1, 1, 2, 2, 2]))
    cols = draw(_columns(dim, max_runs))
    limit = draw(st.sampled_from([None, None, 1, 2, 3]))
    step = _STEP if limit is not None else st.one_of(_STEP, _STEP, _CONST)
    shape = draw(st.sampled_from(['single'] * 4 + ['list'] * 4 + ['tail_list'] * 2 + ['none']))
    bare = draw(st.booleans())
    if shape == 'none':
        methods = []
    elif shape == 'single':
        methods = [draw(st.one_of(step, st.sampled_from(TAILS)))]
    elif shape == 'list' or (dim == 2 and 'K3' in EXCLUDED):
        methods = draw(st.lists(step, min_size=2, max_size=3))
    else:
        methods = [draw(st.sampled_from(TAILS))] + draw(st.lists(step, min_size=1, max_size=2))
    spec = dict(cols=cols, dim=dim, methods=methods, bare=bare, limit=limit, kinds=['arr', 'range', 'dt'])
    return _repair(spec)


@st.composite
def _nona_case(draw, tier):
    max_runs = 5 if tier == 'quick' else 7
    dim = draw(st.sampled_from([1, 2, 2]))
    cols = draw(_columns(dim, max_runs))
    edge = draw(st.sampled_from([None, None, 1, -1]))
    kinds = ['arr', 'range', 'dt']
    if edge is not None and 'K4' in EXCLUDED:
        kinds = ['range', 'dt']
    if dim == 2 and not cols[0] and 'K2' in EXCLUDED:
        edge, kinds = None, ['arr']
    return dict(cols=cols, dim=dim, edge=edge, bare=draw(st.booleans()), kinds=kinds)


# ----------------------------------------------------------------------------- exhaustive vectors (thorough tier)

def _programs():
    base = ['ffill', 'bfill', 9.5, 'nona', 'fnna']
    progs = [[m] for m in base + list(TAILS)]
    progs += [[a, b] for a in base for b in base]
    progs += [[t, b] for t in TAILS for b in base]
    out = []
    for p in progs:
        for limit in (None, 1, 2, 3):
            if limit is not None and any(_is_num(m) for m in p):
                continue
            out.append((p, limit))
    return out


ENUM_MAXLEN = 9


def enum_vectors(tier):
    progs = _programs()
    masks = [(n, bits) for n in range(ENUM_MAXLEN + 1) for bits in range(2 ** n)]

    def chunker(i, nchunks):
        for k in range(i, len(masks), nchunks):
            n, bits = masks[k]
            col = [None if (bits >> j) & 1 else float(j + 1) for j in range(n)]
            for p, limit in progs:
                yield _repair(dict(cols=[list(col)], dim=1, methods=list(p), bare=len(p) == 1, limit=limit, kinds=['arr', 'range', 'dt']))
    return len(masks) * len(progs), chunker


SUBS = [
    Sub('fillna', _fillna_case, run_fillna, quick=8000, thorough=15000,
        rule='vectors and 1-3 column frames from a NaN-run grammar (alternating NaN/value runs of length 0-4, <= 20 rows; further '
             'columns share the mask, follow their own grammar or are all-NaN); method = None, one of ffill/bfill/constant/nona/fnna/ffill_na/ffill_0, '
             'a list of 2-3 of ffill/bfill/constant/nona/fnna, or (vectors) ffill_na/ffill_0 followed by 1-2 of them; limit None/1/2/3; each case on the '
             'ndarray, the RangeIndex and the DatetimeIndex Series/DataFrame. Oracle: NaN-run walker per column (fill iff a source lies within limit, '
             'nothing else changes), all-NaN-row dropping with index labels, array == .values of pandas result, arguments bit-identical afterwards. '
             'non-trivial = a NaN run longer than limit under a fill, or a trailing run under ffill_na/ffill_0, or an all-NaN row in a frame, or '
             'empty / all-NaN input; distinct = distinct spec',
        floor=0.3, class_floors={'run_longer_than_limit': 0.06, 'tail_fill_with_trailing_run': 0.02, 'allnan_row_2d': 0.1, 'empty': 0.02,
                                 'all_nan': 0.02, 'rows_dropped': 0.08, 'm=ffill_0': 0.03, 'm=ffill_na': 0.03, 'm=const': 0.08,
                                 'interior_run': 0.2, 'partial_nan_row_2d': 0.08}),
    Sub('nona_fn', _nona_case, run_nona, quick=2000, thorough=4000,
        rule='the same vectors / frames through nona(x) (edge None on ndarray + both pandas objects; edge 1 / -1 on the pandas objects). Oracle: exactly '
             'the all-NaN rows go (edge 1: only those after the last valid row, edge -1: only those before the first), labels kept, array == .values, '
             'argument unchanged. non-trivial = the input has an all-NaN row or is empty',
        floor=0.3, class_floors={'edge_keeps_allnan_rows': 0.05, 'allnan_row_2d': 0.1, 'rows_dropped': 0.3}),
    EnumSub('vec_enum', enum_vectors, run_fillna, thorough_only=True, chunks=64,
            rule='every NaN pattern of every vector length 0-%i (position-coded values) x every program: 7 single methods, 25 ordered pairs of '
                 'ffill/bfill/constant/nona/fnna, 10 pairs headed by ffill_na/ffill_0, x limit None/1/2/3 (constant only with None); same oracle as fillna'
                 % ENUM_MAXLEN),
]
