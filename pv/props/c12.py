# -*- coding: utf-8 -*-
"""
C12 - df_fillna / nona fill or drop exactly the missing cells, arrays and pandas alike.

Spec format (plain JSON):
    cols    : 1-3 columns of equal length; a column is a list of cells - None (= NaN), a finite float, 'inf' / '-inf' - or, for long
              inputs, {'rle': [[length, None | start], ...]}: a NaN run, or a run of the values start, start+1, ...
    dim     : 1 -> the vector cols[0];  2 -> the frame with len(cols) columns
    methods : list of 'ffill' | 'bfill' | 'nona' | 'fnna' | 'ffill_na' | 'ffill_0' | number
    bare    : pass a one-element list as the bare method (and [] as None)
    limit   : None | positive int
    kinds   : which objects the case is run on: 'arr' numpy array, 'range' Series/DataFrame with the default RangeIndex,
              'dt' Series/DataFrame with a daily DatetimeIndex (and columns 'a','b','c'), 'ix' the index described by `ix`
    ix      : (optional) {'type': 'int' | 'dt', 'base': b, 'pattern': [steps >= 0]}: labels b, b+p0, b+p0+p1, ... (pattern repeats; a 0 step
              repeats the label); 'dt' counts days from 2000-01-03
    colnames: (optional) column labels of the 'dt' / 'ix' frames (unsorted, prefixes of one another, duplicated, integers)
    axis0   : (optional) pass axis=0 and limit positionally
    raw     : (optional) list parallel to methods: the raw type a numeric method is passed in - None (as written) | 'f64' | 'f32' | 'i64' | 'i32' | 'float' | 'int'
              (numpy scalars / the other python type for the same number; an integer type is used only for integral constants)
    limraw  : (optional) 'i64' | 'i32': the limit is passed as that numpy integer
    container: (optional) 'tuple': the method list is passed as a tuple
    style   : (optional) call style. df_fillna: 'kw' = df_fillna(df=x, method=m, axis=0, limit=l), 'plain' = df_fillna(x, m) (limit None only);
              nona: 'value_pos' = nona(x, float('nan'), edge), 'value_kw' = nona(a=x, value=np.nan, edge=edge), 'value_f64' = nona(x, value=np.float64('nan'), edge=edge)
    view    : (optional) how the input objects sit in memory: 'strided' (array = every second element / column of a larger array; pandas object = column(s) cut
              out of a wider frame, sharing its index object), 'fortran' (array = transposed / row view of a parent, pandas built on it without a copy),
              'readonly' (array not writeable, pandas built on it without a copy). The objects they were cut from are snapshotted and compared as well.
    ix      : further fields: type 'float' (labels = value / 4), 'unit' 'h' | 's' | 'us' and 'tod' (seconds of the day of the first label) for 'dt';
              negative steps give a decreasing / unsorted index; 'tz' (type 'dt'): the same wall-clock readings localised in that zone (constant non-zero UTC offset)

Sub-check session: {cols, dim, ix, colnames, view, kinds, calls: [...]}: every kind's object is built ONCE and the calls are made on it one after the other;
a call is {fn: 'fillna', methods, raw, bare, container, limit, limraw, axis0, style, share} or {fn: 'nona', edge, bare, style}, optionally with its own 'kinds';
share = j passes the very container object that call j passed (equal content by construction). order: 'by_object' = all calls on one object, then
all calls on the next; 'by_call' = every call on all objects before the next call. Between two calls {fn: 'edit', row, col, value}: the caller writes that cell
of every operand object in place (operands that are not views); the later calls are judged by the edited cells. twin: 'after' | 'before' (view 'strided' / 'fortran'):
every call on the array is also made on a second view of the same parent buffer - same start address, shape and dtype, other strides, hence other cells.

Oracle: a scalar NaN-run walker per column over (original position, cells) rows, written from the statement; it never
calls pandas fill functions. Every kind is compared cell by cell with the model (NaN positions exactly, other cells
bit-exactly), pandas results also by index labels / columns, the array result with the `.values` of the pandas
results, and every input object with a snapshot taken before the call.
"""
import math
import datetime

from hypothesis import strategies as st

from pv.core import Sub, EnumSub, Violation, call, check, short
from pv.codec import D0, mkdt

ASSUMPTIONS = [
    'cells are float64: NaN, finite floats (incl. -0.0, 1e300) and +-inf (inf is a value here: np.isnan / pandas treat it as present)',
    'axis is not passed or passed as 0 (axis=1 is swallowed by the loops decorator and the statement does not mention it, DESIGN section 4)',
    'sub-checks fillna / vec_enum combine a numeric method only with limit=None: WHICH NaN a constant fills under a limit is not claimed (fillna(value, limit=k) '
    'fills the first k NaN of a column; DESIGN section 4). Sub-check const_limit covers constants with limit 1/2/3 and asserts only the unconditional clauses: '
    'array result == .values of every pandas result, non-NaN cells unchanged, every filled cell equals a constant of the list (or, after ffill/bfill in the '
    'list, a value of its column), shape kept, arguments unmodified',
    "'ffill_na' / 'ffill_0' stand alone, first in a list, or after row drops only (nona / fnna); after a FILL method they read the last valid index of the ORIGINAL input, which differs from 'in sequence' (DESIGN section 4): not generated",
    "'ffill_na' / 'ffill_0' on a column without any valid observation: the column may stay NaN or (ffill_0) become all 0 - the statement does not say",
    'pandas inputs: the default RangeIndex, a daily DatetimeIndex, integer labels not starting at 0 (also beyond 2**53), float labels, dates with gaps, dates starting on '
    'month / year ends, timestamps hours / seconds / microseconds apart, and (with the two restrictions below) repeated labels; column labels may be unsorted, prefixes '
    'of one another, duplicated, integers (also beyond 2**53) or floats. Decreasing / zig-zag indexes are generated for ffill / bfill / constants / nona / fnna only '
    '(restriction lifted in the generalisation pass: these work by position); with ffill_na / ffill_0 and edge the index is increasing, because they compare labels '
    '("up to the last valid observation" presumes an ordered time axis)',
    'column labels of mixed python int / float type (an object Index such as [2**53+1, 2**53, 0.5]) are not generated: the per-column path of ffill_na / ffill_0 rebuilds '
    'the frame with pd.concat, which re-infers the labels as float64 (9007199254740993 -> 9007199254740992.0); the statement says nothing about column labels',
    'spelling of a call (classes 13 / 17 / 18): a numeric method may be a python int / float or a numpy int32 / int64 / float32 / float64 of the same value (bool is not a '
    'number here: fillna(True) gives an object column), limit a python or numpy integer, the method list a list or a tuple (as_list turns a tuple into the list of its '
    'elements; nested containers are not generated), the default arguments axis=0 / value=nan may be written out. None of this changes the expected result',
    'views (class 14): operands may be strided / transposed / read-only arrays and Series / frames cut out of a wider frame or built on such an array without a copy; '
    '"the input object is not modified" is then also demanded of the object the operand shares its memory with',
    'sub-check session: a result handed out by an earlier call must keep its values while later calls run on the same operand (it is the value the caller holds; '
    'a result that is the operand itself or a view of it stays put because the operand does). Results are NOT written to by the check (df_fillna(arr, "fnna") may '
    'legitimately be a view of arr)',
    'zone-aware labels (class 21): the fourth object may carry a DatetimeIndex localised in Asia/Tokyo, Etc/GMT+5 or Asia/Kolkata (constant offsets: no wall-clock reading is '
    'missing or doubled); surviving rows must carry their own labels AND the index of the result must still have the dtype of the operand\'s index (same zone)',
    'values closer than the tolerances of np.isclose (class 27): one vector in eight draws its values from {1, 1+1e-9, 1-1e-9, 1+1e-7}, {100.25, 100.2500001, 100.25000001} or '
    '{1e-9, -1e-9, 2e-9}; the oracle compares bit for bit as before ("never changes a non-NaN cell")',
    'sub-check session, in-place edits (class 28): between two calls the CALLER may write one cell of each operand (only operands that are not views of something else: writing '
    'through a column cut out of a frame is a question about pandas, not about df_fillna); the calls after the edit are judged by the edited content; results handed out before '
    'the edit are compared with their snapshots just before it and are then let go (method None returns the operand itself, fnna a view of it: they rightly show the write)',
    'sub-check session, twin views (class 25): in view cases the array calls are also made on a second view of the same parent that starts at the same address with the same '
    'shape and dtype but other strides; it is judged by the cells it holds (read off the view before the calls), and the shared parent must stay bit-identical',
    'class 22 (answers outside the domain), 23 (simultaneous substitutions), 24 (compiled patterns / partials) do not apply: df_fillna / nona tabulate nothing, take no '
    'mappings and no callables; class 26 (explicit defaults) is covered by the labels explicit_defaults / style=* / nmethods=0 of the earlier pass',
    'identity of the result is not asserted: df_fillna returns the argument itself for method None / [] (documented) and for ffill_na / ffill_0 on a series '
    'without a valid observation; only "values as specified, argument unchanged by the call" is demanded (no-op inputs carry the labels no_nan / noop_with_method)',
    'domain restriction (K5): edge=-1 is generated for RangeIndex / DatetimeIndex objects only. edge is documented in the nona docstring, not in the statement, and on an '
    'integer index that does not start at 0 it slices by position with a label: nona(pd.Series([nan,1,nan,2,nan], [10,11,12,13,14]), edge=-1) is empty (_df_slice: df[lb:ub])',
    'domain restriction (K6): ffill_na / ffill_0 and edge=+-1 are generated with unique index labels only. Repeated labels are outside "float vectors and 2-d frames"; '
    'there the rows sharing the boundary label count as one: df_fillna(pd.Series([1,2,nan], [d0,d1,d1]), "ffill_na") gives [1,2,2] (res.index > last_valid compares labels)',
    'zero-COLUMN frames are not generated (the statement speaks of frames of any length; ffill_0 and nona() raise on an n x 0 array)',
    'on frames every fill works column by column; rows are dropped only when the whole row is NaN',
    'interpolation methods, pad/backfill spellings, date methods and list/dict containers of timeseries are outside the statement and not generated',
    'nona(): value is the default NaN; the edge option (docstring: 1 = cut only the latest all-NaN rows, -1 = only the historic ones) is checked on pandas inputs',
    'formerly excluded, FIXED in /repo and searched again (class labels K1_class / K2_class / K3_class, regression inputs in replays/C12): '
    "K1 'fnna' after an earlier row drop on an integer-labelled object; K2 'nona' on a frame without rows; K3 a list headed by ffill_na/ffill_0 on a frame",
    'GENUINE DEFECT excluded by construction (K4): nona(ndarray, edge=+-1) ignores edge (drops every all-NaN row); edge is generated for pandas inputs only',
]

# input classes the generators avoid: K4 a known defect (remove the name once /repo carries the fix), K5 / K6 domain restrictions (see ASSUMPTIONS)
EXCLUDED = {'K4', 'K5', 'K6'}

NAN = float('nan')
FILLS = ('ffill', 'bfill')
DROPS = ('nona', 'fnna')
TAILS = ('ffill_na', 'ffill_0')
COLNAMES = ['a', 'b', 'c']


# ----------------------------------------------------------------------------- cells

def _cell(v):
    if v is None:
        return NAN
    if v == 'inf':
        return float('inf')
    if v == '-inf':
        return float('-inf')
    return float(v)


def _expand(c):
    if isinstance(c, dict):
        out = []
        for ln, v in c['rle']:
            if v is None:
                out.extend([NAN] * ln)
            else:
                v = _cell(v)
                out.extend([v + i for i in range(ln)])
        return out
    return [_cell(v) for v in c]


def _spec_cols(spec):
    cols = [_expand(c) for c in spec['cols']]
    return cols[:1] if spec['dim'] == 1 else cols


def _isnan(x):
    return x != x


def _same_cell(a, b):
    """NaN matches NaN, everything else bit for bit (so -0.0 is not 0.0)"""
    if a == b:
        return a != 0 or math.copysign(1.0, a) == math.copysign(1.0, b)
    return a != a and b != b


def _is_num(m):
    return isinstance(m, (int, float)) and not isinstance(m, bool)


def _close(a, b):
    """np.isclose with its default tolerances, for two finite floats (symmetrised: either one as the reference)"""
    return abs(a - b) <= 1e-8 + 1e-5 * min(abs(a), abs(b))


# ----------------------------------------------------------------------------- reference model

def _ffill(col, limit):
    out = list(col)
    have = False
    last = NAN
    run = 0
    for i, v in enumerate(col):
        if _isnan(v):
            run += 1
            if have and (limit is None or run <= limit):
                out[i] = last
        else:
            have, last, run = True, v, 0
    return out


def _bfill(col, limit):
    return _ffill(col[::-1], limit)[::-1]


def _model(cols, methods, limit, zero_allnan=False):
    """
    returns (pos, cols, flags): pos = original positions of the surviving rows, cols = their cells column by column,
    flags = known-defect classes this case runs into: ('K1', step) / ('K2', step), and 'ambiguous' when ffill_0 met an all-NaN column
    """
    n = len(cols[0])
    pos = list(range(n))
    cur = [list(c) for c in cols]
    flags = set()
    for step, m in enumerate(methods):
        if _is_num(m):
            cur = [[float(m) if _isnan(v) else v for v in c] for c in cur]
        elif m == 'ffill':
            cur = [_ffill(c, limit) for c in cur]
        elif m == 'bfill':
            cur = [_bfill(c, limit) for c in cur]
        elif m in TAILS:
            new = []
            for c in cur:
                valid = [i for i, v in enumerate(c) if not _isnan(v)]
                if not valid:
                    if m == 'ffill_0' and len(c):
                        flags.add('ambiguous')
                        new.append([0.0] * len(c) if zero_allnan else list(c))
                    else:
                        new.append(list(c))
                else:
                    p = valid[-1]
                    new.append(_ffill(c, limit)[:p + 1] + [NAN if m == 'ffill_na' else 0.0] * (len(c) - p - 1))
            cur = new
        elif m in DROPS:
            rowvalid = [any(not _isnan(c[i]) for c in cur) for i in range(len(pos))]
            if m == 'nona':
                if not pos:
                    flags.add(('K2', step))
                keep = [i for i, ok in enumerate(rowvalid) if ok]
            else:
                if True in rowvalid:
                    first = rowvalid.index(True)
                    if pos[first] != first:
                        flags.add(('K1', step))
                    keep = list(range(first, len(pos)))
                else:
                    keep = []
            pos = [pos[i] for i in keep]
            cur = [[c[i] for i in keep] for c in cur]
        else:
            raise ValueError('model does not know method %r' % (m,))
    return pos, cur, flags


def _flags(spec):
    _, _, flags = _model(_spec_cols(spec), spec['methods'], spec['limit'])
    return flags


def _k1(spec):
    return any(isinstance(f, tuple) and f[0] == 'K1' for f in _flags(spec))


def _k2(spec):
    return spec['dim'] == 2 and any(isinstance(f, tuple) and f[0] == 'K2' for f in _flags(spec))


def _k2_fn(spec):
    return spec['dim'] == 2 and len(_spec_cols(spec)[0]) == 0 and bool(set(spec['kinds']) & {'range', 'dt', 'ix'})


def _k3(spec):
    return spec['dim'] == 2 and len(spec['methods']) > 1 and spec['methods'][0] in TAILS


KNOWN = {
    # sub-checks fillna / vec_enum
    'fnna_slices_by_position_on_int_index': lambda spec: 'methods' in spec and _k1(spec) and bool(set(spec['kinds']) & {'arr', 'range'}),
    'nona_on_zero_row_frame_drops_columns': lambda spec: _k2(spec) if 'methods' in spec else _k2_fn(spec),
    'tail_fill_list_on_frame_reapplies_list': lambda spec: 'methods' in spec and _k3(spec),
    # sub-check nona_fn
    'nona_edge_ignored_on_array': lambda spec: 'edge' in spec and spec['edge'] is not None and 'arr' in spec['kinds'],
    'nona_edge_minus1_positional_on_int_index': lambda spec: spec.get('edge') == -1 and 'ix' in spec['kinds'] and spec['ix']['type'] == 'int',
    # both
    'boundary_label_repeated': lambda spec: 'ix' in spec['kinds'] and _ix_dup(spec) and (
        spec.get('edge') is not None or any(m in TAILS for m in spec.get('methods', ()))),
}


# canonical failing spec per signature: (sub-check, spec, what) - material for known_findings.json; each raises Violation on the tree as of d325e52
_ALL = ['arr', 'range', 'dt']
KNOWN_SPECS = {
    'fnna_slices_by_position_on_int_index': (
        'fillna', dict(cols=[[None, 1.0, None, 2.0]], dim=1, methods=['nona', 'fnna'], bare=False, limit=None, kinds=_ALL),
        "df_fillna(np.array([nan,1,nan,2]), ['nona','fnna']) returns [2.] (also ['fnna','fnna']; 'fnna' on any integer index not starting at 0): "
        "res[nonan.index[0]:] is a positional slice on integer labels"),
    'nona_on_zero_row_frame_drops_columns': (
        'fillna', dict(cols=[[], []], dim=2, methods=['nona'], bare=True, limit=None, kinds=_ALL),
        "df_fillna(np.zeros((0,2)), 'nona') has shape (0,0) (also an all-NaN frame under ['fnna','nona'], and nona(DataFrame without rows)): "
        "max/min(axis=1) of an empty bool frame is float64, so res[mask] selects columns"),
    'tail_fill_list_on_frame_reapplies_list': (
        'fillna', dict(cols=[[1.0, None, None, None, None, 5.0]] * 2, dim=2, methods=['ffill_na', 'ffill'], bare=False, limit=1, kinds=_ALL),
        "on a 2-d input ['ffill_na'|'ffill_0', more...] passes the whole list (not the one method) to every column: later methods run twice "
        "(limit=1 fills two cells; a following 'fnna' drops valid rows)"),
    'nona_edge_ignored_on_array': (
        'nona_fn', dict(cols=[[1.0, None, 2.0, 3.0]], dim=1, edge=1, bare=False, kinds=_ALL),
        'nona(np.array([1,nan,2,3]), edge=1) drops the interior NaN (docstring example asserts it is kept): edge is ignored for ndarrays'),
    'nona_edge_minus1_positional_on_int_index': (
        'nona_fn', dict(cols=[[None, 1.0, None, 2.0, None]], dim=1, edge=-1, bare=False, kinds=['ix'], ix=dict(type='int', base=10, pattern=[1])),
        'nona(pd.Series([nan,1,nan,2,nan], [10,11,12,13,14]), edge=-1) is empty (expected the rows 11..14): _df_slice does df[11:None], a positional slice'),
    'boundary_label_repeated': (
        'fillna', dict(cols=[[1.0, 2.0, None]], dim=1, methods=['ffill_na'], bare=True, limit=None, kinds=['ix'], ix=dict(type='dt', base=0, pattern=[1, 0])),
        "df_fillna(pd.Series([1,2,nan], [d0,d1,d1]), 'ffill_na') fills the last row with 2 (it lies after the last valid observation): res.index > last_valid compares labels"),
}


def _repair(spec):
    """moves a generated case out of the excluded known-defect classes, changing as little as possible"""
    if 'K2' in EXCLUDED and spec['dim'] == 2:
        for _ in range(len(spec['methods'])):
            steps = sorted(f[1] for f in _flags(spec) if isinstance(f, tuple) and f[0] == 'K2')
            if not steps:
                break
            spec['methods'][steps[0]] = 'fnna'      # on a frame without rows both are "drop nothing"
    if 'K1' in EXCLUDED and _k1(spec):
        spec['kinds'] = ['dt']
    return spec


# ----------------------------------------------------------------------------- builders / observers

def _ix_values(ix, n):
    pat = ix['pattern']
    out, cur = [], ix['base']
    for i in range(n):
        out.append(cur)
        cur += pat[i % len(pat)]
    return out


def _ix_dup(spec):
    n = len(_spec_cols(spec)[0])
    v = _ix_values(spec['ix'], n)
    return len(set(v)) < len(v)


def _colnames(spec, kind, ncols):
    if kind == 'range':
        return None
    return list(spec.get('colnames') or COLNAMES)[:ncols]


def _array(cols, dim, view=None):
    """(array, [objects it is a view of])"""
    import numpy as np
    n, ncols = len(cols[0]), len(cols)
    if view == 'strided':
        if dim == 1:
            parent = np.full(2 * n + 1, -7.0)
            a = parent[1::2]
            a[:] = cols[0]
        else:
            parent = np.full((n, 2 * ncols + 1), -7.0)
            a = parent[:, 1::2]
            for j, c in enumerate(cols):
                a[:, j] = c
        return a, [parent]
    if view == 'fortran':
        parent = np.full((ncols + 1, n), -7.0)
        for j, c in enumerate(cols):
            parent[j] = c
        return (parent[0] if dim == 1 else parent[:ncols].T), [parent]
    if dim == 1:
        a = np.array(cols[0], dtype='float64')
    else:
        a = np.empty((n, ncols), dtype='float64')
        for j, c in enumerate(cols):
            a[:, j] = c
    if view == 'readonly':
        a.flags.writeable = False
    elif view is not None:
        raise ValueError('view %r' % (view,))
    return a, []


def _index(kind, n, spec):
    import pandas as pd
    if kind == 'range':
        return None
    if kind == 'dt' or spec['ix']['type'] == 'dt':
        return pd.DatetimeIndex(_labels(kind, n, spec))
    return pd.Index(_labels(kind, n, spec), dtype='float64' if spec['ix']['type'] == 'float' else 'int64')


def _build2(cols, dim, kind, spec=None):
    """(object of `kind`, [objects it shares memory with])"""
    import numpy as np
    import pandas as pd
    spec = spec or {}
    view = spec.get('view')
    n, ncols = len(cols[0]), len(cols)
    if kind == 'arr':
        return _array(cols, dim, view)
    index = _index(kind, n, spec)
    names = _colnames(spec, kind, ncols)
    if view == 'strided':
        # the object is cut out of a wider frame: it shares the frame's index object (and, lazily, its memory)
        wide = np.full((n, ncols + 2), -7.0)
        wide[:, -1] = NAN
        for j, c in enumerate(cols):
            wide[:, j + 1] = c
        wider = pd.DataFrame(wide, index=index, columns=['__pre'] + (list(range(ncols)) if names is None else names) + ['__post'])
        return (wider.iloc[:, 1] if dim == 1 else wider.iloc[:, 1:1 + ncols]), [wider]
    a, parents = _array(cols, dim, view)
    copy = None if view is None else False
    if dim == 1:
        return pd.Series(a, index=index, dtype='float64', copy=copy), parents + ([a] if view else [])
    return pd.DataFrame(a, index=index, columns=names, copy=copy), parents + ([a] if view else [])


def _build(cols, dim, kind, spec=None):
    return _build2(cols, dim, kind, spec)[0]


_LABELS = {}
_ZONES = ('Asia/Tokyo', 'Etc/GMT+5', 'Asia/Kolkata')           # +09:00, -05:00, +05:30, none of them with daylight saving
_UNIT = {'D': 86400 * 10 ** 6, 'h': 3600 * 10 ** 6, 's': 10 ** 6, 'us': 1}


def _labels(kind, n, spec=None):
    import pandas as pd
    if kind == 'range':
        return list(range(n))
    ix = None if kind == 'dt' else spec['ix']
    key = (kind, n) if kind == 'dt' else (ix['type'], ix['base'], tuple(ix['pattern']), ix.get('unit'), ix.get('tod'), ix.get('tz'), n)
    if key not in _LABELS:
        if len(_LABELS) > 500:
            _LABELS.clear()
        if kind == 'dt':
            _LABELS[key] = [pd.Timestamp(mkdt(D0 + i)) for i in range(n)]
        elif ix['type'] == 'int':
            _LABELS[key] = _ix_values(ix, n)
        elif ix['type'] == 'float':
            _LABELS[key] = [v / 4.0 for v in _ix_values(ix, n)]
        elif ix.get('unit', 'D') == 'D' and not ix.get('tod'):
            _LABELS[key] = [pd.Timestamp(mkdt(D0 + i)) for i in _ix_values(ix, n)]
        else:
            t0 = mkdt(D0 + ix['base'], sec=ix.get('tod') or 0)
            us = _UNIT[ix.get('unit', 'D')]
            _LABELS[key] = [pd.Timestamp(t0 + datetime.timedelta(microseconds=v * us)) for v in _ix_values(dict(ix, base=0), n)]
        if ix is not None and ix.get('tz'):
            if ix['type'] != 'dt' or ix['tz'] not in _ZONES:
                raise ValueError('tz %r' % (ix['tz'],))
            # the same wall-clock readings in a zone with a constant non-zero UTC offset (no DST: every reading exists exactly once)
            _LABELS[key] = [t.tz_localize(ix['tz']) for t in _LABELS[key]]
    return list(_LABELS[key])


_RAW = ('f64', 'f32', 'i64', 'i32', 'float', 'int')


def _raw_num(m, tag):
    """the number m in the raw type `tag` (the same value: integer types only for integral m, float32 only when exact)"""
    import numpy as np
    if tag is None:
        return m
    f = float(m)
    integral = f == int(f) and not (f == 0 and math.copysign(1.0, f) < 0)
    if tag in ('i64', 'i32', 'int') and integral:
        return {'i64': np.int64, 'i32': np.int32, 'int': int}[tag](int(f))
    if tag == 'f32' and float(np.float32(f)) == f:
        return np.float32(f)
    if tag in ('float', 'int'):
        return f
    if tag in _RAW:
        return np.float64(f)
    raise ValueError('raw type %r' % (tag,))


def _method_arg(c):
    """the method argument of the call described by c (a fillna spec or a session call)"""
    raw = c.get('raw') or []
    ms = [_raw_num(m, raw[i] if i < len(raw) else None) if _is_num(m) else m for i, m in enumerate(c['methods'])]
    if c.get('bare') and len(ms) <= 1:
        return ms[0] if ms else None
    return tuple(ms) if c.get('container') == 'tuple' else ms


def _limit_arg(c):
    import numpy as np
    if c['limit'] is None or not c.get('limraw'):
        return c['limit']
    return {'i64': np.int64, 'i32': np.int32}[c['limraw']](c['limit'])


def _fillna_args(c, method, limit):
    style = 'axis0' if c.get('axis0') else c.get('style')
    if style == 'plain' and c['limit'] is not None:
        raise ValueError("style 'plain' needs limit None")
    return {'axis0': '%r, 0, %r', 'kw': 'df=, method=%r, axis=0, limit=%r', 'plain': '%r', None: '%r, limit=%r'}[style] % ((method, limit) if style != 'plain' else (method,))


def _call_fillna(what, c, x, method, limit):
    from pyg_base import df_fillna
    if c.get('axis0'):
        return call(what, df_fillna, x, method, 0, limit)
    style = c.get('style')
    if style == 'kw':
        return call(what, df_fillna, df=x, method=method, axis=0, limit=limit)
    if style == 'plain':
        return call(what, df_fillna, x, method)
    if style is not None:
        raise ValueError('style %r' % (style,))
    return call(what, df_fillna, x, method, limit=limit)


def _call_nona(c, x):
    """(what, result)"""
    import numpy as np
    from pyg_base import nona
    edge, style = c['edge'], c.get('style')
    if style == 'value_pos':
        what = _what('nona', x, "float('nan'), %r" % (edge,))
        return what, call(what, nona, x, float('nan'), edge)
    if style == 'value_kw':
        what = _what('nona', x, 'a=, value=np.nan, edge=%r' % (edge,))
        return what, call(what, nona, a=x, value=np.nan, edge=edge)
    if style == 'value_f64':
        what = _what('nona', x, "value=np.float64('nan'), edge=%r" % (edge,))
        return what, call(what, nona, x, value=np.float64('nan'), edge=edge)
    if style is not None:
        raise ValueError('style %r' % (style,))
    if edge is None and c.get('bare'):
        what = _what('nona', x, '')
        return what, call(what, nona, x)
    what = _what('nona', x, 'edge=%r' % (edge,))
    return what, call(what, nona, x, edge=edge)


def _snap(x):
    import numpy as np
    if isinstance(x, np.ndarray):
        return ('arr', x.shape, x.dtype.str, x.tobytes())
    v = np.ascontiguousarray(x.values)
    cols = list(x.columns) if hasattr(x, 'columns') else [x.name]
    return (type(x).__name__, v.shape, v.dtype.str, v.tobytes(), list(x.index), cols)


def _columns_of(what, res, dim, ncols):
    """result values column by column as python floats"""
    import numpy as np
    v = res if isinstance(res, np.ndarray) else res.values
    check(v.dtype == np.float64, '%s: result has dtype %s, not float64', what, str(v.dtype))
    if dim == 1:
        check(v.ndim == 1, '%s: result of a vector has shape %s', what, v.shape)
        return [[float(i) for i in v]]
    check(v.ndim == 2 and v.shape[1] == ncols, '%s: result of a frame with %s column(s) has shape %s', what, ncols, v.shape)
    return [[float(i) for i in v[:, j]] for j in range(ncols)]


def _diff(got, exp):
    """None when equal, else text"""
    if len(got[0]) != len(exp[0]):
        return '%i rows instead of %i' % (len(got[0]), len(exp[0]))
    for j, (g, e) in enumerate(zip(got, exp)):
        for i, (a, b) in enumerate(zip(g, e)):
            if not _same_cell(a, b):
                return 'row %i column %i is %r instead of %r' % (i, j, a, b)
    return None


def _check_object(what, x, kind, res, dim, ncols, variants, n, spec=None):
    """res = result for the object x of `kind`; variants = acceptable (pos, cols) model results"""
    import numpy as np
    import pandas as pd
    if kind == 'arr':
        check(isinstance(res, np.ndarray), '%s: an ndarray went in, %s came out', what, type(res).__name__)
    elif dim == 1:
        check(isinstance(res, pd.Series), '%s: a Series went in, %s came out', what, type(res).__name__)
    else:
        check(isinstance(res, pd.DataFrame), '%s: a DataFrame went in, %s came out', what, type(res).__name__)
    got = _columns_of(what, res, dim, ncols)
    diffs = [_diff(got, cols) for pos, cols in variants]
    if all(d is not None for d in diffs):
        raise Violation('%s: %s; result %s, reference %s' % (what, diffs[0], short(got, 260), short(variants[0][1], 260)))
    pos = variants[[d is None for d in diffs].index(True)][0]
    if kind != 'arr':
        lab = _labels(kind, n, spec)
        exp_index = [lab[p] for p in pos]
        check(list(res.index) == exp_index, '%s: surviving rows carry index %s instead of their own labels %s', what, list(res.index), exp_index)
        _check_zone(what, x, res)
        if dim == 2:
            check(list(res.columns) == list(x.columns), '%s: columns changed from %s to %s', what, list(x.columns), list(res.columns))
    return got


def _check_zone(what, x, res):
    """class 21: the labels of a zone-aware index are instants IN a zone; the result must still carry that zone (equal instants alone compare equal above)"""
    if getattr(x.index, 'tz', None) is not None:
        check(res.index.dtype == x.index.dtype, '%s: the operand has a zone-aware index (%s), the index of the result is %s', what, x.index.dtype, res.index.dtype)


class _Lazy(object):
    """description of a call, rendered only when a message is needed"""

    def __init__(self, *a):
        self.a = a

    def __str__(self):
        return _render(*self.a)

    __repr__ = __str__


def _what(fname, x, args):
    return _Lazy(fname, x, args)


def _render(fname, x, args):
    import numpy as np
    if isinstance(x, np.ndarray):
        xs = 'np.array(%s)' % short(x.tolist(), 200) if x.size else 'np.zeros(%s)' % (x.shape,)
        if x.base is not None or not x.flags.writeable:
            xs += '[a view with strides %s of an array of shape %s]' % (x.strides, x.base.shape) if x.base is not None else '[read-only]'
    else:
        ix = type(x.index).__name__ if type(x.index).__name__ == 'RangeIndex' else '[%s]' % short(', '.join(str(i)[:10] for i in x.index), 120)
        xs = '%s(%s, index=%s%s)' % (type(x).__name__, short(x.values.tolist(), 200) if x.size else 'np.zeros(%s)' % (x.shape,), ix,
                                     ', columns=%s' % list(x.columns) if hasattr(x, 'columns') else '')
    return '%s(%s, %s)' % (fname, xs, args)


# ----------------------------------------------------------------------------- pattern classes

def _runs(col):
    """list of (is_nan, length)"""
    out = []
    for v in col:
        isn = _isnan(v)
        if out and out[-1][0] == isn:
            out[-1][1] += 1
        else:
            out.append([isn, 1])
    return out


def _nan_run_lengths(cols):
    return sorted(set(l for c in cols for isn, l in _runs(c) if isn))


def _pattern_classes(cols, dim):
    cls = []
    n = len(cols[0])
    if n == 0:
        return ['empty'], dict(maxrun=0, trailing=False, allnan_row=False, trailing_run=0)
    if all(_isnan(v) for c in cols for v in c):
        cls.append('all_nan')
    if not any(_isnan(v) for c in cols for v in c):
        cls.append('no_nan')                                  # fingerprint: nothing to do
    maxrun, trailing, trailing_run = 0, False, 0
    for c in cols:
        r = _runs(c)
        nanruns = [l for isn, l in r if isn]
        maxrun = max([maxrun] + nanruns)
        anyvalid = any(not isn for isn, _ in r)
        if r[0][0] and anyvalid:
            cls.append('leading_run')
        if r[-1][0] and anyvalid:
            cls.append('trailing_run')
            trailing = True
            trailing_run = max(trailing_run, r[-1][1])
        if any(isn for isn, _ in r[1:-1]):
            cls.append('interior_run')
            if not r[0][0] and not r[-1][0]:
                cls.append('ends_valid_interior_nan')         # fingerprint: first and last cell valid, yet work to do
        if not anyvalid and len(cols) > 1:
            cls.append('allnan_column_in_frame')
        if any(v == 0 for v in c):
            cls.append('zero_cell')
    allnan_row = any(all(_isnan(c[i]) for c in cols) for i in range(n))
    if dim == 2:
        if allnan_row:
            cls.append('allnan_row_2d')
        if any(0 < sum(_isnan(c[i]) for c in cols) < len(cols) for i in range(n)):
            cls.append('partial_nan_row_2d')
    if n < 64:                                                # (long columns hold start, start+1, ...: never close)
        for c in cols:
            vals = sorted(set(v for v in c if not _isnan(v) and abs(v) != float('inf')))
            if len(vals) >= 2 and _close(vals[0], vals[-1]):
                cls.append('near_equal_column')               # class 27: >= 2 distinct values, all of them equal to a "robust" comparison
                if any(_isnan(v) for v in c):
                    cls.append('near_equal_column_with_nan')
    if n == 1:
        cls.append('rows=1')
    if n >= 64:
        cls.append('rows>=64')
    if n in (64, 65, 100, 128):
        cls.append('rows=64|65|100|128')
    if n >= 200:
        cls.append('rows>=200')
    if maxrun >= 32:
        cls.append('nan_run>=32')
    return sorted(set(cls)), dict(maxrun=maxrun, trailing=trailing, allnan_row=allnan_row, trailing_run=trailing_run)


def _object_classes(spec, dim):
    cls = []
    if 'ix' in spec['kinds'] or any('ix' in (c.get('kinds') or ()) for c in spec.get('calls', ())):
        ix = spec['ix']
        n = len(_spec_cols(spec)[0])
        v = _ix_values(ix, n)
        dup = len(set(v)) < len(v)
        unsorted = any(a > b for a, b in zip(v, v[1:]))
        cls.append('ix=%s_%s' % (ix['type'], 'dup' if dup else 'unique'))
        if dup:
            cls.append('ix_duplicate_labels')
        if unsorted:
            cls.append('ix_unsorted')                         # decreasing or zig-zag labels
            if all(a > b for a, b in zip(v, v[1:])):
                cls.append('ix_decreasing')
        if ix['type'] == 'float':
            cls.append('ix_float')
        if ix['type'] == 'int' and v and max(abs(i) for i in v) > 2 ** 53:
            cls.append('ix_int>2**53')
        if ix['type'] == 'dt':
            if ix.get('unit', 'D') != 'D' or ix.get('tod'):
                cls.append('ix_intraday')                     # labels not a whole number of days apart / not at midnight
                if ix.get('unit') == 'us':
                    cls.append('ix_microseconds')
            if ix['base'] in _BOUNDARY_DAYS and n:
                cls.append('ix_starts_on_boundary_day')       # 28 / 29 Feb, 30 / 31st, 31 Dec, 1 Jan
            if ix.get('tz'):
                cls.append('ix_zone_aware')                   # class 21: every label in one zone with a non-zero UTC offset
    if spec.get('view'):
        cls.append('view_input')
        cls.append('view=' + spec['view'])
    names = spec.get('colnames')
    if dim == 2 and names and (set(spec['kinds']) & {'dt', 'ix'} or 'calls' in spec):
        names = names[:len(spec['cols'])]
        if len(set(map(str, names))) < len(names) or len(set(names)) < len(names):
            cls.append('cols_duplicated')
        if all(isinstance(c, int) for c in names):
            cls.append('cols_int')
        elif all(isinstance(c, (int, float)) for c in names):
            cls.append('cols_float')
        elif any(a != b and str(a) in str(b) for a in names for b in names):
            cls.append('cols_prefix')
        if all(isinstance(c, (int, float)) for c in names):
            cls.append('cols_numbers_only')
            if any(abs(c) > 2 ** 53 for c in names):
                cls.append('cols_number>2**53')
        if [str(c) for c in names] != sorted(str(c) for c in names):
            cls.append('cols_unsorted')
    return cls


# ----------------------------------------------------------------------------- sub-check fillna

class _Ctx(object):
    """the operand of a case: cells, shape and (sub-check session) the objects built for it"""

    def __init__(self, spec, keep=False, cols=None, objs=None):
        self.spec = spec
        self.dim = spec['dim']
        self.cols = _spec_cols(spec) if cols is None else cols
        self.ncols = len(self.cols)
        self.n = len(self.cols[0])
        if any(len(c) != self.n for c in self.cols):
            raise ValueError('ragged spec')
        self.objs = objs if objs is not None else {} if keep else None

    def obj(self, kind):
        """(object, objects it shares memory with): built once per session, once per call otherwise"""
        if self.objs is None:
            return _build2(self.cols, self.dim, kind, self.spec)
        if kind not in self.objs:
            self.objs[kind] = _build2(self.cols, self.dim, kind, self.spec)
        return self.objs[kind]


def _values_text(x):
    import numpy as np
    return short(x.tolist() if isinstance(x, np.ndarray) else x.values.tolist(), 300)


def _unchanged(what, x, before, parents, pbefore):
    check(_snap(x) == before, '%s modified its argument: now %s', what, _Lazy2(_values_text, x))
    for p, b in zip(parents, pbefore):
        check(_snap(p) == b, '%s modified the object its argument is a view of / was cut from: now %s', what, _Lazy2(_values_text, p))


class _Lazy2(object):
    def __init__(self, f, *a):
        self.f, self.a = f, a

    def __str__(self):
        return self.f(*self.a)

    __repr__ = __str__


def _prep_fillna(ctx, c, method):
    """reference result of one df_fillna call (c: methods, limit, raw, bare, container, axis0, style); method = the argument object that is passed"""
    methods, limit = c['methods'], c['limit']
    pos, exp, flags = _model(ctx.cols, methods, limit)
    variants = [(pos, exp)]
    if 'ambiguous' in flags:
        p2, e2, _ = _model(ctx.cols, methods, limit, zero_allnan=True)
        variants.append((p2, e2))
    limit_arg = _limit_arg(c)
    return dict(pos=pos, exp=exp, flags=flags, variants=variants, method=method, limit_arg=limit_arg, args=_fillna_args(c, method, limit_arg),
                results={}, aliased=False, fn='df_fillna')


def _one_fillna(ctx, c, r, kind, kept=None):
    """the call on the object of one kind"""
    x, parents = ctx.obj(kind)
    before = _snap(x)
    pbefore = [_snap(p) for p in parents]
    what = _what('df_fillna', x, r['args'])
    res = _call_fillna(what, c, x, r['method'], r['limit_arg'])
    r['results'][kind] = _check_object(what, x, kind, res, ctx.dim, ctx.ncols, r['variants'], ctx.n, ctx.spec)
    _unchanged(what, x, before, parents, pbefore)
    if res is x and c['methods']:
        r['aliased'] = True
    if kept is not None:
        kept.append((what, res, _snap(res)))


def _cross(r):
    """array result == .values of the pandas results"""
    results = r['results']
    if 'arr' in results:
        for kind in results:
            if kind != 'arr':
                d = _diff(results['arr'], results[kind])
                check(d is None, '%s: array result differs from the .values of the %s-indexed pandas result: %s', _Lazy2(str, '%s(%s)' % (r['fn'], r['args'])), kind, d)


def _do_fillna(ctx, c, kinds, method, kept=None):
    r = _prep_fillna(ctx, c, method)
    for kind in kinds:
        _one_fillna(ctx, c, r, kind, kept)
    _cross(r)
    return r


def _call_classes(c):
    """classes of the way a call is written (raw types, container, style)"""
    cls = []
    raw = c.get('raw') or []
    tags = [raw[i] for i, m in enumerate(c.get('methods', ())) if _is_num(m) and i < len(raw) and raw[i]]
    if tags:
        cls.append('const_raw_type')
        if any(t in ('f64', 'f32', 'i64', 'i32') for t in tags):
            cls.append('const_raw_numpy')
        if any(t in ('i64', 'i32') and float(m) == int(m) for t, m in zip(raw, c['methods']) if _is_num(m) and t):
            cls.append('const_raw_numpy_int')
        nums = [(float(m), raw[i] if i < len(raw) else None) for i, m in enumerate(c['methods']) if _is_num(m)]
        if any(v == w and s != t for k, (v, s) in enumerate(nums) for (w, t) in nums[k + 1:]):
            cls.append('one_constant_two_raw_types')
    if c.get('limraw') and c.get('limit') is not None:
        cls.append('limit_raw_numpy')
    if c.get('container') == 'tuple' and not (c.get('bare') and len(c['methods']) <= 1):
        cls.append('methods_tuple')
        if len(c['methods']) <= 1:
            cls.append('methods_tuple_len<=1')
    if c.get('style') and not c.get('axis0'):
        cls.append('style=%s' % c['style'])
        cls.append('explicit_defaults')
    return cls


def _fillna_classes(ctx, c, r):
    """(nt, cls) of one df_fillna call by the rule of sub-check fillna"""
    dim, cols, n, ncols = ctx.dim, ctx.cols, ctx.n, ctx.ncols
    methods, limit = c['methods'], c['limit']
    pos, exp, flags, aliased = r['pos'], r['exp'], r['flags'], r['aliased']
    axis0 = bool(c.get('axis0'))
    pcls, info = _pattern_classes(cols, dim)
    cls = ['dim=%i' % dim, 'limit=%s' % (limit if limit is None or limit <= 3 else '>3'), 'nmethods=%i' % min(len(methods), 3)] + pcls
    if dim == 2:
        cls.append('ncols=%i' % ncols)
    for m in methods:
        cls.append('m=const' if _is_num(m) else 'm=' + m)
        if _is_num(m) and m == 0:
            cls.append('m=const_zero')                        # falsy method
    fills = [m for m in methods if m in FILLS or m in TAILS]
    run_gt_limit = limit is not None and bool(fills) and info['maxrun'] > limit
    tail = bool(methods) and (methods[0] in TAILS or (any(m in TAILS for m in methods) and all(m in DROPS for m in methods[:[m in TAILS for m in methods].index(True)]))) and info['trailing']
    if any(m in TAILS for m in methods) and methods[0] in DROPS:
        cls.append('tail_fill_after_row_drop')
        if info['trailing']:
            cls.append('tail_fill_after_row_drop:trailing_nan')
    rowdrop = dim == 2 and info['allnan_row'] and any(m in DROPS for m in methods)
    if run_gt_limit:
        cls.append('run_longer_than_limit')
    if limit is not None and fills:
        runs = _nan_run_lengths(cols)
        if limit in runs:
            cls.append('limit==run_length')
        if limit + 1 in runs:
            cls.append('limit==run_length-1')
        if limit >= 32 and info['maxrun'] > limit:
            cls.append('limit>=32_and_longer_run')
    if limit is not None and any(m in DROPS for m in methods):
        cls.append('limit_with_drop')                         # cooperating parameters
    first_drop = min([i for i, m in enumerate(methods) if m in DROPS] + [len(methods)])
    if any(m in FILLS or m in TAILS for m in methods[first_drop + 1:]):
        cls.append('drop_before_fill')                        # order of steps: the fill works on what the drop left
        if dim == 2 and limit is not None and info['allnan_row'] and info['maxrun'] > limit:
            cls.append('drop_before_limited_fill:rows_dropped')   # dropping the all-NaN rows shortens the runs the limit is counted on
    if tail:
        cls.append('tail_fill_with_trailing_run')
        if limit is not None and info['trailing_run'] > limit:
            cls.append('tail_fill_trailing_run>limit')
    if methods and methods[0] in TAILS and 'ends_valid_interior_nan' in pcls:
        cls.append('tail_fill_ends_valid')
    if tail:
        # class 29: the label of the last valid observation is 0 (falsy) on one of the objects - the only valid row of a column is the first one of
        # an array / RangeIndex object, or the integer / float label there is 0
        kinds = c.get('kinds') or ctx.spec.get('kinds') or ()
        lab = _labels('ix', n, ctx.spec) if 'ix' in kinds and ctx.spec['ix']['type'] != 'dt' else None
        for col in cols:
            valid = [i for i, v in enumerate(col) if not _isnan(v)]
            if valid and valid[-1] < n - 1 and ((valid[-1] == 0 and set(kinds) & {'arr', 'range'}) or (lab is not None and lab[valid[-1]] == 0)):
                cls.append('last_valid_label_0')
                if 'ffill_0' in methods:
                    cls.append('last_valid_label_0:ffill_0')
                break
    if rowdrop:
        cls.append('allnan_row_dropped_2d')
    if len(pos) < n:
        cls.append('rows_dropped')
    if methods and len(pos) == 0 and n > 0 and methods[-1] not in DROPS:
        cls.append('emptied_before_last_method')              # degenerate shape in the middle of the list
    if axis0:
        cls.append('axis0_positional')
    if aliased:
        cls.append('result_is_argument')                      # observed only: no-op tail fill returns the operand, as method None does by design
    if methods and exp == cols and len(pos) == n:
        cls.append('noop_with_method')
    if dim == 2 and any(isinstance(f, tuple) and f[0] == 'K2' for f in flags):
        cls.append('K2_class')
    if dim == 2 and len(methods) > 1 and methods[0] in TAILS:
        cls.append('K3_class')
    if 'ambiguous' in flags:
        cls.append('ffill_0_allnan_column')
    cls += _call_classes(c)
    nt = bool(methods) and (run_gt_limit or tail or (dim == 2 and info['allnan_row']) or 'empty' in pcls or 'all_nan' in pcls)
    return nt, cls


def run_fillna(spec):
    ctx = _Ctx(spec)
    r = _do_fillna(ctx, spec, spec['kinds'], _method_arg(spec))      # ONE method container for the calls on all kinds of object
    nt, cls = _fillna_classes(ctx, spec, r)
    cls += _object_classes(spec, ctx.dim)
    if spec['kinds'] == ['dt']:
        cls.append('dt_only(K1 class)')
    elif any(isinstance(f, tuple) and f[0] == 'K1' for f in r['flags']):
        cls.append('K1_class')
    if len(spec['kinds']) > 1 and not (spec.get('bare') and len(spec['methods']) <= 1):
        cls.append('one_container_several_calls')
    return dict(nt=nt, cls=cls)


# ----------------------------------------------------------------------------- sub-check nona_fn

def _prep_nona(ctx, c):
    """reference result of one nona call (c: edge, bare, style)"""
    cols, n, edge = ctx.cols, ctx.n, c['edge']
    rowvalid = [any(not _isnan(col[i]) for col in cols) for i in range(n)]
    if True not in rowvalid:
        keep = []
    elif edge is None:
        keep = [i for i in range(n) if rowvalid[i]]
    elif edge == 1:
        keep = list(range(0, n - rowvalid[::-1].index(True)))
    elif edge == -1:
        keep = list(range(rowvalid.index(True), n))
    else:
        raise ValueError('edge %r' % (edge,))
    exp = [[col[i] for i in keep] for col in cols]
    return dict(keep=keep, rowvalid=rowvalid, variants=[(keep, exp)], results={}, fn='nona', args='edge=%s' % (edge,))


def _one_nona(ctx, c, r, kind, kept=None):
    x, parents = ctx.obj(kind)
    before = _snap(x)
    pbefore = [_snap(p) for p in parents]
    what, res = _call_nona(c, x)
    r['results'][kind] = _check_object(what, x, kind, res, ctx.dim, ctx.ncols, r['variants'], ctx.n, ctx.spec)
    _unchanged(what, x, before, parents, pbefore)
    if kept is not None:
        kept.append((what, res, _snap(res)))


def _do_nona(ctx, c, kinds, kept=None):
    r = _prep_nona(ctx, c)
    for kind in kinds:
        _one_nona(ctx, c, r, kind, kept)
    _cross(r)
    return r


def run_nona(spec):
    ctx = _Ctx(spec)
    dim, edge, n = ctx.dim, spec['edge'], ctx.n
    r = _do_nona(ctx, spec, spec['kinds'])
    keep, rowvalid = r['keep'], r['rowvalid']
    pcls, info = _pattern_classes(ctx.cols, dim)
    cls = ['dim=%i' % dim, 'edge=%s' % edge] + pcls + _object_classes(spec, dim) + _call_classes(spec)
    edge_keeps_interior = edge is not None and len(keep) > sum(rowvalid)
    if edge_keeps_interior:
        cls.append('edge_keeps_allnan_rows')
    if len(keep) < n:
        cls.append('rows_dropped')
    if len(keep) == n and n:
        cls.append('nothing_to_drop')                         # no-op: still a new object
    nt = info['allnan_row'] or n == 0
    return dict(nt=bool(nt), cls=cls)


# ----------------------------------------------------------------------------- sub-check session

def _twin_of(ctx):
    """
    class 25: a second array that starts at the same address as the 'arr' operand of a view case, with the same dtype and shape, but walks the shared
    parent with other strides (a[1::2] vs a[1:1+n]; a block vs the transpose of the block) - so it holds OTHER cells. Returns (twin, its cells column by column)
    """
    a, parents = ctx.obj('arr')
    parent, n, ncols, view = parents[0], ctx.n, ctx.ncols, ctx.spec.get('view')
    if view == 'strided':
        t = parent[1:1 + n] if ctx.dim == 1 else parent[:, 1:1 + ncols]
    elif view == 'fortran':
        t = parent.reshape(-1)[::2][:n] if ctx.dim == 1 else parent.reshape(-1)[:n * ncols].reshape(n, ncols)
    else:
        raise ValueError('a twin needs a strided / fortran view')
    if t.shape != a.shape or t.dtype != a.dtype or (a.size and (t.__array_interface__['data'][0] != a.__array_interface__['data'][0] or t.base is None)):
        raise RuntimeError('twin view not built as intended')
    cells = [[float(v) for v in t]] if ctx.dim == 1 else [[float(v) for v in t[:, j]] for j in range(ncols)]
    return t, parent, cells


def _edited(cols, e):
    out = [list(c) for c in cols]
    out[e['col']][e['row']] = _cell(e['value'])
    return out


def _apply_edit(x, e, dim):
    """the caller writes ONE cell of its own operand, in place"""
    import numpy as np
    v = _cell(e['value'])
    if isinstance(x, np.ndarray):
        if dim == 1:
            x[e['row']] = v
        else:
            x[e['row'], e['col']] = v
    elif dim == 1:
        x.iloc[e['row']] = v
    else:
        x.iloc[e['row'], e['col']] = v


def run_session(spec):
    """
    2-4 calls on ONE set of operand objects (state carried between calls must not show), method containers shared between calls where the spec says so;
    order 'by_object' (default): all calls on the first object, then all calls on the second ... (consecutive calls on one object: one-slot caches);
    order 'by_call': the first call on every object, then the second call on every object ... (state keyed by something weaker than the object).
    Every call is judged by the single-call oracle from the spec's own (original) content, and at the end every result still holds what it held when returned.
    {fn: 'edit', row, col, value} between two calls (class 28): the caller writes that cell of every operand object in place; the calls after it are judged by
    the edited content. twin (class 25, view cases): every call on the array is also made on a second view of the same buffer that starts at the same address
    with the same shape and dtype but other strides ('after' / 'before' the call on the array), judged by the cells that view holds
    """
    ctx = _Ctx(spec, keep=True)
    calls = spec['calls']
    ncalls = sum(1 for c in calls if c['fn'] != 'edit')
    if not 2 <= ncalls <= 6:
        raise ValueError('a session has 2-6 calls')
    order = spec.get('order', 'by_object')
    if order not in ('by_object', 'by_call'):
        raise ValueError('order %r' % (order,))
    twin = spec.get('twin')
    if twin not in (None, 'after', 'before'):
        raise ValueError('twin %r' % (twin,))
    edits = [c for c in calls if c['fn'] == 'edit']
    if edits and (spec.get('view') or calls[0]['fn'] == 'edit' or calls[-1]['fn'] == 'edit'):
        raise ValueError('edits come between two calls, on operands that are not views')
    ctx_t = None
    if twin:
        t, parent, tcells = _twin_of(ctx)
        ctx_t = _Ctx(spec, cols=tcells, objs={'arr': (t, [parent])})
    # ---- the argument containers (one object per group of sharing calls) and the reference results (by the content at the time of the call)
    preps, preps_t, version = [], [], []
    cur = ctx.cols
    for ci, c in enumerate(calls):
        if c['fn'] == 'edit':
            cur = _edited(cur, c)
        version.append(cur)
        ctx.cols = cur
        if c['fn'] == 'edit':
            preps.append(None)
            preps_t.append(None)
            continue
        if c['fn'] == 'nona':
            preps.append(_prep_nona(ctx, c))
            preps_t.append(_prep_nona(ctx_t, c) if twin else None)
            continue
        if c['fn'] != 'fillna':
            raise ValueError('fn %r' % (c['fn'],))
        share = c.get('share')
        if share is not None:
            o = calls[share]
            if share >= ci or o['fn'] != 'fillna' or any(o.get(k) != c.get(k) for k in ('methods', 'raw', 'bare', 'container')):
                raise ValueError('call %i cannot share the container of call %i' % (ci, share))
            method = preps[share]['method']
        else:
            method = _method_arg(c)
        preps.append(_prep_fillna(ctx, c, method))
        preps_t.append(_prep_fillna(ctx_t, c, method) if twin else None)
    ctx.cols = version[0]
    # ---- the calls
    kept = dict((kind, []) for kind in list(spec['kinds']) + ['twin'])
    kinds_of = [spec['kinds'] if c['fn'] == 'edit' else c.get('kinds') or spec['kinds'] for c in calls]
    if order == 'by_call':
        seq = [(ci, kind) for ci in range(len(calls)) for kind in kinds_of[ci]]
    else:
        seq = [(ci, kind) for kind in spec['kinds'] for ci in range(len(calls)) if kind in kinds_of[ci]]

    def still(kind):
        for what, res, snap in kept[kind]:
            check(_snap(res) == snap, '%s: the result it returned changed while later calls ran on the same argument: now %s', what, _Lazy2(_values_text, res))

    for ci, kind in seq:
        c = calls[ci]
        if c['fn'] == 'edit':
            # results handed out so far are checked now: a result that is the operand or a view of it legitimately shows the caller's own write
            still(kind)
            kept[kind] = []
            x = ctx.obj(kind)[0]
            _apply_edit(x, c, ctx.dim)
            now = [[float(v) for v in col] for col in ([x] if ctx.dim == 1 else [x[:, j] for j in range(ctx.ncols)])] if kind == 'arr' else \
                  [[float(v) for v in x.values]] if ctx.dim == 1 else [[float(v) for v in x.values[:, j]] for j in range(ctx.ncols)]
            if _diff(now, version[ci]) is not None:
                raise RuntimeError('harness: the in-place edit did not arrive in the %s operand' % kind)
            continue
        one = _one_nona if c['fn'] == 'nona' else _one_fillna
        if twin == 'before' and kind == 'arr':
            one(ctx_t, c, preps_t[ci], 'arr', kept['twin'])
        one(ctx, c, preps[ci], kind, kept[kind])
        if twin == 'after' and kind == 'arr':
            one(ctx_t, c, preps_t[ci], 'arr', kept['twin'])
    for r in preps:
        if r is not None:
            _cross(r)
    for kind in kept:
        still(kind)
    # ---- classes
    nts, cls = [], ['calls=%i' % ncalls, 'dim=%i' % ctx.dim, 'order=' + order] + _object_classes(spec, ctx.dim)
    pcls, info = _pattern_classes(ctx.cols, ctx.dim)
    cls += [k for k in pcls if k in ('empty', 'all_nan', 'no_nan', 'rows>=64', 'allnan_row_2d', 'near_equal_column')]
    if twin:
        cls += ['twin_view', 'twin_view=' + spec['view']]
        if _diff(ctx_t.cols, ctx.cols) is not None:
            cls.append('twin_view_other_cells')               # what an (address, shape, dtype)-keyed memo would get wrong
    prev = None
    limits = set()
    edited = False
    for ci, c in enumerate(calls):
        ctx.cols = version[ci]
        if c['fn'] == 'edit':
            edited = True
            cls.append('edit_between_calls')
            before, after = version[ci - 1][c['col']], version[ci][c['col']]
            lv = [max([i for i, v in enumerate(col) if not _isnan(v)] + [-1]) for col in (before, after)]
            if _same_cell(before[c['row']], after[c['row']]):
                cls.append('edit_writes_same_value')
            if lv[0] != lv[1]:
                cls.append('edit_moves_last_valid')
                if any(k['fn'] == 'fillna' and any(m in TAILS for m in k['methods']) for k in calls[ci + 1:]):
                    cls.append('edit_moves_last_valid:tail_fill_after')
                    if ctx.dim == 1:
                        cls.append('edit_moves_last_valid:tail_fill_after:dim=1')
            cls.append('edit_value_to_nan' if _isnan(after[c['row']]) else 'edit_nan_to_value' if _isnan(before[c['row']]) else 'edit_value_to_value')
            sig = lambda k: (k['fn'], k.get('methods'), k.get('limit'), k.get('edge'))
            if any(sig(k) == sig(o) for k in calls[ci + 1:] for o in calls[:ci]):
                cls.append('edit_then_same_call_again')
            continue
        if c['fn'] == 'nona':
            cls += ['fn=nona', 'edge=%s' % c['edge']] + _call_classes(c)
            nts.append(_pattern_classes(ctx.cols, ctx.dim)[1]['allnan_row'] if edited else info['allnan_row'] or ctx.n == 0)
            continue
        if c.get('share') is not None:
            cls.append('same_container_again')
            if calls[c['share']]['limit'] != c['limit']:
                cls.append('same_container_other_limit')
                if c['limit'] is None:
                    cls.append('same_container_first_with_limit_then_without')
        nt, ccls = _fillna_classes(ctx, c, preps[ci])
        nts.append(nt)
        cls += ['fn=fillna'] + [k for k in ccls if k.startswith(('m=', 'limit=', 'nmethods=')) or k in (
            'run_longer_than_limit', 'tail_fill_with_trailing_run', 'rows_dropped', 'result_is_argument', 'noop_with_method', 'drop_before_fill',
            'const_raw_numpy', 'methods_tuple', 'explicit_defaults', 'limit_raw_numpy', 'axis0_positional', 'last_valid_label_0')]
        limits.add(c['limit'])
        m = c['methods']
        if prev is not None:
            if m == prev:
                cls.append('rel=same_methods')
            elif m == prev[:len(m)]:
                cls.append('rel=prefix')
            elif prev == m[:len(prev)]:
                cls.append('rel=extension')
            elif sorted(map(repr, m)) == sorted(map(repr, prev)):
                cls.append('rel=permutation')
            else:
                cls.append('rel=other')
        prev = m
    ctx.cols = version[0]
    fns = set(c['fn'] for c in calls if c['fn'] != 'edit')
    if len(fns) > 1:
        cls.append('fillna_and_nona_on_one_object')
    if len(limits) == 1:
        cls.append('one_limit')
    elif len(limits) > 1:
        cls.append('several_limits')
    return dict(nt=sum(bool(x) for x in nts) >= 1 and ncalls >= 2, cls=sorted(set(cls)))


# ----------------------------------------------------------------------------- sub-check const_limit

def run_const_limit(spec):
    """constants under a limit: only the unconditional clauses (see ASSUMPTIONS); methods are constants, 'ffill', 'bfill' - no row drops"""
    import numpy as np
    from pyg_base import df_fillna
    dim, methods, limit = spec['dim'], spec['methods'], spec['limit']
    if limit is None or not any(_is_num(m) for m in methods) or any(not _is_num(m) and m not in FILLS for m in methods):
        raise ValueError('const_limit spec needs a limit, a constant and only constants / ffill / bfill')
    cols = _spec_cols(spec)
    ncols, n = len(cols), len(cols[0])
    consts = [float(m) for m in methods if _is_num(m)]
    copies = any(m in FILLS for m in methods)
    method = _method_arg(spec)
    limit_arg = _limit_arg(spec)
    args = _fillna_args(spec, method, limit_arg)
    results = {}
    filled = 0
    for kind in spec['kinds']:
        x, parents = _build2(cols, dim, kind, spec)
        before = _snap(x)
        pbefore = [_snap(p) for p in parents]
        what = _what('df_fillna', x, args)
        res = _call_fillna(what, spec, x, method, limit_arg)
        if kind == 'arr':
            check(isinstance(res, np.ndarray), '%s: an ndarray went in, %s came out', what, type(res).__name__)
        else:
            check(type(res) is type(x), '%s: a %s went in, %s came out', what, type(x).__name__, type(res).__name__)
        got = _columns_of(what, res, dim, ncols)
        check(len(got[0]) == n, '%s: %s rows went in, %s came out', what, n, len(got[0]))
        for j, (g, c) in enumerate(zip(got, cols)):
            allowed = consts + ([v for v in c if not _isnan(v)] if copies else [])
            for i, (a, b) in enumerate(zip(g, c)):
                if not _isnan(b):
                    check(_same_cell(a, b), '%s: the non-NaN cell at row %s column %s changed from %s to %s', what, i, j, b, a)
                elif not _isnan(a):
                    filled += 1
                    check(any(_same_cell(a, v) for v in allowed), '%s: the NaN at row %s column %s was filled with %s, which is neither the constant nor a value of the column',
                          what, i, j, a)
        if kind != 'arr':
            check(list(res.index) == _labels(kind, n, spec), '%s: index changed to %s', what, list(res.index))
            _check_zone(what, x, res)
            if dim == 2:
                check(list(res.columns) == list(x.columns), '%s: columns changed from %s to %s', what, list(x.columns), list(res.columns))
        _unchanged(what, x, before, parents, pbefore)
        results[kind] = got
    ref = 'arr' if 'arr' in results else spec['kinds'][0]
    for kind in results:
        if kind != ref:
            d = _diff(results[ref], results[kind])
            if d is not None:
                raise Violation('df_fillna(np.array(%s), %s): the %s result differs from the .values of the %s-indexed pandas result: %s; %s vs %s'
                                % (short(_build(cols, dim, 'arr').tolist(), 200), args, 'array' if ref == 'arr' else ref, kind, d,
                                   short(results[ref], 200), short(results[kind], 200)))
    pcls, info = _pattern_classes(cols, dim)
    nnan = sum(1 for c in cols for v in c if _isnan(v))
    left = sum(1 for c in results[ref] for v in c if _isnan(v))
    cls = ['dim=%i' % dim, 'limit=%s' % limit, 'nmethods=%i' % len(methods)] + [k for k in pcls if k in ('empty', 'all_nan', 'no_nan', 'rows>=64', 'allnan_row_2d', 'near_equal_column')]
    cls += _object_classes(spec, dim) + _call_classes(spec)
    if len(methods) == 1:
        cls.append('single_constant_bare' if spec.get('bare') else 'single_constant_in_list')
    if copies:
        cls.append('constant_with_ffill_or_bfill')
    if any(m == 0 for m in consts):
        cls.append('m=const_zero')
    if left:
        cls.append('limit_left_nan_unfilled')                 # the limit mattered: this is where a limit-blind path differs
    if dim == 2 and ncols > 1:
        cls.append('ncols>1')
    nt = nnan > limit
    if nt:
        cls.append('more_nan_than_limit')
    return dict(nt=nt, cls=cls)


# ----------------------------------------------------------------------------- generators

_VAL = st.sampled_from([float(i) for i in range(1, 10)] * 2 + [0.0, -0.0, -1.5, 2.5, 1e300, 5e-324, 9007199254740993.0, 'inf', '-inf'])
_CONST = st.sampled_from([0, 1, -2, 0.0, 2.5, 7.0])
# class 27: values that differ by less than rtol 1e-5 (a level moving by a fraction of a tick) / all within atol 1e-8 of one another and of 0 (weights of order 1e-9)
_NEAR = {'unit': [1.0, 1.000000001, 0.999999999, 1.0000001], 'tick': [100.25, 100.2500001, 100.25000001], 'tiny': [1e-9, -1e-9, 2e-9, 1e-9]}
_FAMILY = st.sampled_from([None] * 21 + ['unit', 'tick', 'tiny'])
_STEP = st.sampled_from(['ffill', 'bfill', 'nona', 'fnna'])
LONG_SIZES = [64, 65, 100, 128, 200, 257]
_LONG_RUNS = [1, 2, 3, 5, 16, 31, 32, 33, 63, 64, 65, 100, 130]
_COLNAMES = [None, None, ['c', 'a', 'b'], ['a', 'ab', 'abc'], ['b', 'ab', 'a'], ['x', 'x', 'y'], [2, 0, 1], [0, 0, 1],
             [1.5, 0.5, -0.0], [2 ** 53 + 1, 2 ** 53, 0]]


def _day(y, m, d):
    return datetime.date(y, m, d).toordinal() - D0


# month ends / year ends as the FIRST label: 28 Feb of a non-leap year, 29 Feb, the 30th / 31st, 31 Dec, 1 Jan
_BOUNDARY_DAYS = [_day(2001, 2, 28), _day(2000, 2, 29), _day(2000, 2, 28), _day(2000, 4, 30), _day(2000, 1, 31), _day(2000, 12, 31), _day(2001, 1, 1)]
_IX_SORTED = [dict(type='int', base=10, pattern=[1]), dict(type='int', base=-5, pattern=[1, 3]), dict(type='int', base=1, pattern=[2]),
              dict(type='dt', base=2, pattern=[1, 3, 7]), dict(type='dt', base=0, pattern=[31]),
              dict(type='int', base=5, pattern=[0, 2]), dict(type='int', base=0, pattern=[1, 0, 0]), dict(type='int', base=7, pattern=[0]),
              dict(type='dt', base=0, pattern=[1, 0]), dict(type='dt', base=3, pattern=[0, 0, 1])]
# classes 15 / 19: float labels, integer labels beyond 2**53 (neighbours collide as floats), boundary days as start, labels a fraction of a day apart
_IX_NUM = [dict(type='float', base=2, pattern=[1]), dict(type='float', base=-3, pattern=[1, 0, 2]), dict(type='int', base=2 ** 53, pattern=[1]),
           dict(type='int', base=2 ** 53 - 2, pattern=[1, 2, 0])]
_IX_CAL = [dict(type='dt', base=_BOUNDARY_DAYS[0], pattern=[1]), dict(type='dt', base=_BOUNDARY_DAYS[1], pattern=[1, 30]),
           dict(type='dt', base=_BOUNDARY_DAYS[5], pattern=[1]), dict(type='dt', base=_BOUNDARY_DAYS[3], pattern=[31, 30]),
           dict(type='dt', base=_BOUNDARY_DAYS[0], pattern=[12], unit='h', tod=43200), dict(type='dt', base=_BOUNDARY_DAYS[5], pattern=[7, 0, 5], unit='h', tod=64800),
           dict(type='dt', base=_BOUNDARY_DAYS[2], pattern=[1], unit='us', tod=86399), dict(type='dt', base=_BOUNDARY_DAYS[4], pattern=[999998, 1, 1], unit='us', tod=86399),
           dict(type='dt', base=_BOUNDARY_DAYS[6], pattern=[1, 86399], unit='s', tod=0)]
# decreasing / zig-zag labels: only for calls that do not compare labels (no ffill_na / ffill_0, no edge), see ASSUMPTIONS
_IX_UNSORTED = [dict(type='int', base=10, pattern=[-1]), dict(type='int', base=3, pattern=[-2, 3, -3, 4]), dict(type='dt', base=40, pattern=[-1]),
                dict(type='dt', base=5, pattern=[2, -1]), dict(type='float', base=9, pattern=[-1, 0])]
# class 21: zone-aware stamps (appended to the pool: the session generator slices the pool by position)
_IX_TZ = [dict(type='dt', base=2, pattern=[1, 3, 7], tz='Asia/Tokyo'), dict(type='dt', base=_BOUNDARY_DAYS[5], pattern=[1], tz='Etc/GMT+5'),
          dict(type='dt', base=_BOUNDARY_DAYS[0], pattern=[7, 0, 5], unit='h', tod=64800, tz='Asia/Kolkata'), dict(type='dt', base=40, pattern=[-1], tz='Asia/Tokyo')]
_IX = _IX_SORTED                                              # (name kept: the pool of the first version)
_IX_POOL = _IX_SORTED * 2 + _IX_NUM + _IX_CAL + _IX_UNSORTED + _IX_TZ
_VIEWS = [None] * 8 + ['strided', 'strided', 'fortran', 'readonly']
_RAWTAG = st.sampled_from(['i64', 'f64', 'i32', 'f32', 'float', 'int', None])
_ONE_IN_6 = st.sampled_from([False] * 5 + [True])         # (hypothesis favours the first element: the plain spelling comes first)
_ONE_IN_4 = st.sampled_from([False] * 3 + [True])


@st.composite
def _vector(draw, max_runs):
    """NaN-run grammar: alternating runs of NaN / values, each of length 0-4"""
    nruns = draw(st.sampled_from([0, 1, 2, 2] + list(range(3, max_runs + 1)) * 3))
    isn = draw(st.booleans())
    lens = draw(st.lists(st.sampled_from([0, 1, 1, 2, 2, 3, 4]), min_size=nruns, max_size=nruns))
    nvals = sum(ln for k, ln in enumerate(lens) if (k % 2 == 0) != isn)
    family = draw(_FAMILY)                                   # class 27: one vector in eight holds values that np.isclose takes for equal
    vals = draw(st.lists(_VAL if family is None else st.sampled_from(_NEAR[family]), min_size=nvals, max_size=nvals))
    out = []
    for ln in lens:
        for _ in range(ln):
            out.append(None if isn else vals.pop())
        isn = not isn
    return out[:20]


def _cut_rle(rle, n, pad_nan):
    out, total = [], 0
    for ln, v in rle:
        if total >= n:
            break
        ln = min(ln, n - total)
        if ln:
            out.append([ln, v])
            total += ln
    if total < n:
        out.append([n - total, None if pad_nan else 1.0])
    return out


@st.composite
def _long_column(draw, n):
    """run-length coded column of exactly n rows: alternating NaN / value runs with lengths around the powers of two"""
    isn = draw(st.booleans())
    lens = draw(st.lists(st.sampled_from(_LONG_RUNS), min_size=1, max_size=8))
    starts = draw(st.lists(st.integers(1, 9), min_size=len(lens), max_size=len(lens)))
    rle = []
    for ln, v in zip(lens, starts):
        rle.append([ln, None if isn else float(v)])
        isn = not isn
    return dict(rle=_cut_rle(rle, n, isn))


@st.composite
def _columns(draw, dim, max_runs, long=False):
    if long:
        n = draw(st.sampled_from(LONG_SIZES))
        first = draw(_long_column(n))
        cols = [first]
        for _ in range(draw(st.integers(0, 2)) if dim == 2 else 0):
            mode = draw(st.sampled_from(['same_mask', 'shifted', 'own', 'all_nan']))
            if mode == 'same_mask':
                c = dict(rle=[[ln, None if v is None else v + 10.0] for ln, v in first['rle']])
            elif mode == 'shifted':
                k = draw(st.sampled_from([1, 2, 31, 32]))
                c = dict(rle=_cut_rle([[k, None if draw(st.booleans()) else 3.0]] + [list(r) for r in first['rle']], n, True))
            elif mode == 'all_nan':
                c = dict(rle=[[n, None]])
            else:
                c = draw(_long_column(n))
            cols.append(c)
        return cols
    first = draw(_vector(max_runs))
    if dim == 1:
        return [first]
    n = len(first)
    cols = [first]
    for _ in range(draw(st.integers(0, 2))):
        mode = draw(st.sampled_from(['same_mask', 'grammar', 'grammar', 'all_nan']))
        if mode == 'same_mask':
            vals = draw(st.lists(_VAL, min_size=n, max_size=n))
            c = [None if v is None else w for v, w in zip(first, vals)]
        elif mode == 'all_nan':
            c = [None] * n
        else:
            c = draw(_vector(max_runs))[:n]
            if len(c) < n:
                c = c + (draw(st.lists(_VAL, min_size=n - len(c), max_size=n - len(c))) if draw(st.booleans()) else [None] * (n - len(c)))
        cols.append(c)
    if draw(st.integers(0, 3)) == 0:
        cols = cols[::-1]                                     # the all-NaN / derived column also comes first
    return cols


def _unique_ix(ix):
    """the same labels without repeats and in increasing order"""
    return dict(ix, pattern=[abs(p) or 1 for p in ix['pattern']])


def _sorted_ix(ix):
    return dict(ix, pattern=[abs(p) for p in ix['pattern']])


def _label_ix(ix):
    """index for a call that compares labels (ffill_na / ffill_0, edge): increasing, and unique while K6 is excluded"""
    return _unique_ix(ix) if 'K6' in EXCLUDED else _sorted_ix(ix)


@st.composite
def _spelling(draw, spec, raw_share=(True, True, False)):
    """classes 13 / 17 / 18 on a df_fillna call description (spec or session call): raw types of constants and limit, tuple container, call style"""
    methods = spec['methods']
    nums = [i for i, m in enumerate(methods) if _is_num(m)]
    if nums and draw(st.sampled_from(raw_share)):
        if len(methods) >= 2 and len(methods) < 4 and draw(_ONE_IN_4):
            # one number twice in the list, in two raw types (the second constant finds nothing left to fill)
            methods.insert(nums[0] + 1, methods[nums[0]])
            spec['raw'] = [None] * len(methods)
            spec['raw'][nums[0]], spec['raw'][nums[0] + 1] = draw(st.sampled_from([('i64', 'float'), ('f64', 'int'), ('int', 'f32'), ('float', 'i32'), (None, 'f64')]))
        else:
            spec['raw'] = [draw(_RAWTAG) if _is_num(m) else None for m in methods]
    if spec['limit'] is not None and draw(_ONE_IN_6):
        spec['limraw'] = draw(st.sampled_from(['i64', 'i32']))
    if draw(_ONE_IN_6):
        spec['container'] = 'tuple'
    if not spec.get('axis0') and draw(_ONE_IN_6):
        spec['style'] = draw(st.sampled_from(['plain', 'kw'] if spec['limit'] is None else ['kw']))
    return spec


@st.composite
def _fillna_case(draw, tier):
    max_runs = 5 if tier == 'quick' else 7
    dim = draw(st.sampled_from([1, 1, 2, 2, 2]))
    long = draw(st.integers(0, 6)) == 0
    cols = draw(_columns(dim, max_runs, long))
    runs = _nan_run_lengths([_expand(c) for c in cols])
    near = sorted(set(l + d for l in runs for d in (-1, 0, 1) if l + d >= 1))
    limit = draw(st.sampled_from(([None, None, 1, 2] + near[-8:]) if long else ([None, None, None, 1, 2, 3] + near[:4] + near[-4:])))
    step = _STEP if limit is not None else st.one_of(_STEP, _STEP, _CONST)
    shape = draw(st.sampled_from(['single'] * 4 + ['list'] * 4 + ['tail_list'] * 2 + ['drop_then_tail'] * 2 + ['none']))
    bare = draw(st.booleans())
    if shape == 'none':
        methods = []
    elif shape == 'single':
        methods = [draw(st.one_of(step, st.sampled_from(TAILS)))]
    elif shape == 'drop_then_tail':
        # a tail fill after row drops only: rows are removed, no cell is filled, so 'the last valid observation' is the same row whether it is
        # read off the input or off the intermediate result (after a FILL the two readings differ: not generated, see ASSUMPTIONS)
        methods = draw(st.lists(st.sampled_from(DROPS), min_size=1, max_size=2)) + [draw(st.sampled_from(TAILS))] + draw(st.lists(step, max_size=1))
    elif shape == 'list' or (dim == 2 and 'K3' in EXCLUDED):
        methods = draw(st.lists(step, min_size=2, max_size=3))
    else:
        methods = [draw(st.sampled_from(TAILS))] + draw(st.lists(step, min_size=1, max_size=2))
    ix = dict(draw(st.sampled_from(_IX_POOL)))
    if any(m in TAILS for m in methods):
        ix = _label_ix(ix)
        if not long and draw(_ONE_IN_6):
            # class 29: the last valid observation of the first column is its FIRST row (label 0 on the array and the RangeIndex object), NaN after it
            first = _expand(cols[0])
            k = max(len(first), 2)
            cols = [[draw(_VAL)] + [None] * (k - 1)] + [([c[0]] if len(c) else [None]) + ([None] * (k - 1) if draw(st.booleans()) else (list(c[1:]) + [None] * k)[:k - 1]) for c in cols[1:]]
    spec = dict(cols=cols, dim=dim, methods=methods, bare=bare, limit=limit, kinds=['arr', 'range', 'dt', 'ix'], ix=ix)
    if dim == 2:
        names = draw(st.sampled_from(_COLNAMES))
        if names:
            spec['colnames'] = names
    if draw(st.integers(0, 3)) == 0:
        spec['axis0'] = True
    view = draw(st.sampled_from(_VIEWS))
    if view:
        spec['view'] = view
    draw(_spelling(spec))
    return _repair(spec)


@st.composite
def _nona_case(draw, tier):
    max_runs = 5 if tier == 'quick' else 7
    dim = draw(st.sampled_from([1, 2, 2]))
    long = draw(st.integers(0, 6)) == 0
    cols = draw(_columns(dim, max_runs, long))
    edge = draw(st.sampled_from([None, None, 1, -1]))
    ix = dict(draw(st.sampled_from(_IX_POOL)))
    if edge is not None:
        ix = _label_ix(ix)
    kinds = ['arr', 'range', 'dt', 'ix']
    if edge is not None and 'K4' in EXCLUDED:
        kinds.remove('arr')
    if edge == -1 and ix['type'] == 'int' and 'K5' in EXCLUDED:
        kinds.remove('ix')
    if dim == 2 and not _expand(cols[0]) and 'K2' in EXCLUDED:
        edge, kinds = None, ['arr']
    spec = dict(cols=cols, dim=dim, edge=edge, bare=draw(st.booleans()), kinds=kinds, ix=ix)
    if dim == 2:
        names = draw(st.sampled_from(_COLNAMES))
        if names:
            spec['colnames'] = names
    view = draw(st.sampled_from(_VIEWS))
    if view:
        spec['view'] = view
    if draw(_ONE_IN_4):
        spec['style'] = draw(st.sampled_from(['value_pos', 'value_kw', 'value_f64']))
    return spec


@st.composite
def _const_limit_case(draw, tier):
    max_runs = 5 if tier == 'quick' else 7
    dim = draw(st.sampled_from([1, 1, 2, 2]))
    cols = draw(_columns(dim, max_runs, draw(st.integers(0, 9)) == 0))
    limit = draw(st.sampled_from([1, 1, 2, 3]))
    shape = draw(st.sampled_from(['list', 'single', 'single', 'list']))
    if shape == 'single':
        methods = [draw(_CONST)]
    else:
        methods = draw(st.lists(st.one_of(_CONST, st.sampled_from(FILLS)), min_size=2, max_size=3))
        if not any(_is_num(m) for m in methods):
            methods[draw(st.integers(0, len(methods) - 1))] = draw(_CONST)
    spec = dict(cols=cols, dim=dim, methods=methods, bare=draw(st.booleans()), limit=limit, kinds=['arr', 'range', 'dt', 'ix'],
                ix=dict(draw(st.sampled_from(_IX_POOL))))
    if dim == 2:
        names = draw(st.sampled_from(_COLNAMES))
        if names:
            spec['colnames'] = names
    view = draw(st.sampled_from(_VIEWS))
    if view:
        spec['view'] = view
    draw(_spelling(spec, (False, False, True)))
    return spec


def _valid_methods(ms):
    """the method lists the oracle covers: at most one ffill_na / ffill_0, preceded by row drops only (see ASSUMPTIONS)"""
    t = [i for i, m in enumerate(ms) if m in TAILS]
    return len(t) <= 1 and all(m in DROPS for m in ms[:t[0] if t else 0])


@st.composite
def _session_case(draw, tier):
    """one operand, 2-4 calls on the same objects: method lists that are prefixes / extensions / permutations of the previous one or the same container again"""
    max_runs = 5 if tier == 'quick' else 7
    dim = draw(st.sampled_from([1, 1, 2, 2, 2]))
    long = draw(st.integers(0, 9)) == 0
    cols = draw(_columns(dim, max_runs, long))
    runs = _nan_run_lengths([_expand(c) for c in cols])
    near = sorted(set(l + d for l in runs for d in (-1, 0, 1) if l + d >= 1))
    nolimit = draw(st.integers(0, 2)) == 0
    if nolimit:
        main, alt = None, [None]
        step = st.one_of(_STEP, _STEP, _CONST)
    else:
        main = draw(st.sampled_from([1, 1, 2, 3] + near[:3] + near[-3:]))
        alt = [None, None, 1, 2, main + 1]
        step = _STEP
    shape = draw(st.sampled_from(['list'] * 4 + ['tail_list'] * 2 + ['drop_then_tail'] * 2 + ['single']))
    if shape == 'single':
        base = [draw(st.one_of(step, st.sampled_from(TAILS)))]
    elif shape == 'list':
        base = draw(st.lists(step, min_size=2, max_size=3))
    elif shape == 'tail_list':
        base = [draw(st.sampled_from(TAILS))] + draw(st.lists(step, min_size=1, max_size=2))
    else:
        base = draw(st.lists(st.sampled_from(DROPS), min_size=1, max_size=2)) + [draw(st.sampled_from(TAILS))] + draw(st.lists(step, max_size=1))

    def fill_call(methods, limit, share=None):
        c = dict(fn='fillna', methods=list(methods), bare=draw(st.integers(0, 3)) == 0, limit=limit)
        if share is not None:
            o = calls[share]
            c.update(bare=o['bare'], share=share, **{k: o[k] for k in ('raw', 'container') if k in o})
            if draw(st.integers(0, 3)) == 0:
                c['axis0'] = True
            elif limit is None and draw(st.booleans()):
                c['style'] = 'plain'                          # "then on its own"
            return c
        if draw(st.integers(0, 3)) == 0:
            c['axis0'] = True
        return draw(_spelling(c))

    calls = [fill_call(base, main if draw(st.integers(0, 3)) else draw(st.sampled_from(alt)))]
    last = 0
    for _ in range(draw(st.sampled_from([1, 2, 2, 3]))):
        rel = draw(st.sampled_from(['prefix', 'extension', 'permutation', 'same', 'same', 'nona']))
        prev = calls[last]['methods']
        limit = main if draw(st.integers(0, 3)) else draw(st.sampled_from(alt))
        if rel == 'nona':
            c = dict(fn='nona', edge=draw(st.sampled_from([None, None, 1, -1])), bare=draw(st.booleans()))
            if draw(_ONE_IN_4):
                c['style'] = draw(st.sampled_from(['value_pos', 'value_kw', 'value_f64']))
            calls.append(c)
            continue
        if rel == 'prefix' and prev:
            c = fill_call(prev[:draw(st.integers(0, len(prev) - 1))], limit)
        elif rel == 'extension' and len(prev) < 4:
            c = fill_call(prev + [draw(step)], limit)
        elif rel == 'permutation' and len(prev) > 1:
            ms = prev[::-1] if draw(st.booleans()) else prev[1:] + prev[:1]
            if not _valid_methods(ms):
                ms = [m for m in prev if m in TAILS] + [m for m in prev[::-1] if m not in TAILS]
            c = fill_call(ms, limit)
        else:
            # the same container object again: under the other limit ("first with extra keywords, then on its own") in half of the cases
            c = fill_call(prev, limit if draw(st.booleans()) else draw(st.sampled_from([l for l in alt + [main] if l != calls[last]['limit']] or [limit])), share=last)
        calls.append(c)
        last = len(calls) - 1
    labels = any(c['fn'] == 'nona' and c['edge'] is not None or c['fn'] == 'fillna' and any(m in TAILS for m in c['methods']) for c in calls)
    ix = dict(draw(st.sampled_from(_IX_POOL[:12] + _IX_UNSORTED + _IX_POOL[12:])))
    if labels:
        ix = _label_ix(ix)
    kinds = ['arr', 'range', 'dt', 'ix']
    spec = dict(cols=cols, dim=dim, kinds=kinds, ix=ix, calls=calls, order=draw(st.sampled_from(['by_object', 'by_call', 'by_object'])))
    if dim == 2:
        names = draw(st.sampled_from(_COLNAMES))
        if names:
            spec['colnames'] = names
    view = draw(st.sampled_from(_VIEWS))
    if view:
        spec['view'] = view
    ecols = [_expand(c) for c in cols][:1 if dim == 1 else None]
    n = len(ecols[0])
    if view in ('strided', 'fortran'):
        if draw(st.booleans()):
            spec['twin'] = draw(st.sampled_from(['after', 'before']))     # class 25
    elif view is None and n and draw(st.booleans() if dim == 1 and labels else _ONE_IN_4):
        # class 28: the caller writes one cell of its operands in place, then makes one of the earlier calls again (the same container for df_fillna)
        j = draw(st.integers(0, len(ecols) - 1))
        col = ecols[j]
        valid = [i for i, v in enumerate(col) if not _isnan(v)]
        tails = [i for i, c in enumerate(calls) if c['fn'] == 'fillna' and any(m in TAILS for m in c['methods'])]
        k = draw(st.sampled_from(tails * 3 + list(range(len(calls)))))           # a call that reads "the last valid observation" is made again more often
        mode = draw(st.sampled_from(['last_valid_to_nan', 'trailing_nan_to_value'] * (3 if k in tails else 1) + ['any', 'any']))
        if mode == 'last_valid_to_nan' and valid:
            row, value = valid[-1], None
        elif mode == 'trailing_nan_to_value' and (not valid or valid[-1] < n - 1):
            row, value = draw(st.integers(valid[-1] + 1 if valid else 0, n - 1)), draw(_VAL)
        else:
            row = draw(st.integers(0, n - 1))
            value = None if not _isnan(col[row]) and draw(st.booleans()) else draw(_VAL)
        again = dict(calls[k]) if calls[k]['fn'] == 'nona' else fill_call(calls[k]['methods'], calls[k]['limit'], share=k)
        calls.append(dict(fn='edit', row=row, col=j, value=value))
        calls.append(again)
    for c in calls:
        if c['fn'] == 'edit':
            continue
        if c['fn'] == 'nona':
            k = list(kinds)
            if c['edge'] is not None and 'K4' in EXCLUDED:
                k.remove('arr')
            if c['edge'] == -1 and ix['type'] == 'int' and 'K5' in EXCLUDED:
                k.remove('ix')
            if dim == 2 and not _expand(cols[0]) and 'K2' in EXCLUDED:
                c['edge'], k = None, ['arr']
            if k != kinds:
                c['kinds'] = k
        else:
            tmp = _repair(dict(cols=cols, dim=dim, methods=c['methods'], limit=c['limit'], kinds=list(kinds)))
            if tmp['kinds'] != kinds:
                c['kinds'] = tmp['kinds']
    return spec


# ----------------------------------------------------------------------------- exhaustive vectors (thorough tier)

def _programs():
    base = ['ffill', 'bfill', 9.5, 'nona', 'fnna']
    progs = [[m] for m in base + list(TAILS)]
    progs += [[a, b] for a in base for b in base]
    progs += [[t, b] for t in TAILS for b in base]
    out = []
    for p in progs:
        for limit in (None, 1, 2, 3):
            if limit is not None and any(_is_num(m) for m in p):
                continue
            out.append((p, limit))
    return out


ENUM_MAXLEN = 9


def enum_vectors(tier):
    progs = _programs()
    masks = [(n, bits) for n in range(ENUM_MAXLEN + 1) for bits in range(2 ** n)]

    def chunker(i, nchunks):
        for k in range(i, len(masks), nchunks):
            n, bits = masks[k]
            col = [None if (bits >> j) & 1 else float(j + 1) for j in range(n)]
            for p, limit in progs:
                yield _repair(dict(cols=[list(col)], dim=1, methods=list(p), bare=len(p) == 1, limit=limit, kinds=['arr', 'range', 'dt']))
    return len(masks) * len(progs), chunker


SUBS = [
    Sub('fillna', _fillna_case, run_fillna, quick=6000, thorough=15000,
        rule='vectors and 1-3 column frames from a NaN-run grammar (alternating NaN/value runs of length 0-4, <= 20 rows; further '
             'columns share the mask, follow their own grammar or are all-NaN) and, one case in seven, LONG inputs of exactly 64/65/100/128/200/257 rows '
             '(run-length coded, runs of 1..130 around the powers of two); method = None, one of ffill/bfill/constant/nona/fnna/ffill_na/ffill_0, '
             'a list of 2-3 of ffill/bfill/constant/nona/fnna, or ffill_na/ffill_0 followed by 1-2 of them, or 1-2 row drops (nona/fnna) then ffill_na/ffill_0 then at most one more; limit None/1/2/3 or a NaN-run length -1/+0/+1; '
             'each case on the ndarray, the RangeIndex object, the daily DatetimeIndex object and a fourth object with integer labels not starting at 0 / gapped '
             'dates / repeated labels / float labels / integer labels beyond 2**53 / dates starting on 28-29 Feb, the 30th/31st, 31 Dec, 1 Jan / labels hours, '
             'seconds or microseconds apart / (without ffill_na, ffill_0) decreasing and zig-zag labels; frame columns also unsorted, prefix-named, duplicated, '
             'integers, floats, integers beyond 2**53. One case in five has operands that are views (strided / transposed / read-only arrays, columns cut out of a '
             'wider frame): the objects they are cut from must stay bit-identical too. Spelling of the call: constants as numpy float64/float32/int64/int32 or the '
             'other python type (also one constant twice in two raw types), limit as a numpy integer, the method list as a tuple, all-keyword and two-argument '
             'calls; the ONE method container is passed to the calls on all four objects. Classes 21-29: the fourth object also with a zone-aware DatetimeIndex (Tokyo, GMT+5, '
             'Kolkata: the result must keep labels and zone), one vector in eight with values closer than the np.isclose tolerances, and under ffill_na / ffill_0 one case in six '
             'whose only observation of the first column is its first row (last valid label 0). Oracle: NaN-run walker per column (fill iff a source '
             'lies within limit, nothing else changes), all-NaN-row dropping with index labels, array == .values of pandas result, arguments bit-identical '
             'afterwards. non-trivial = a NaN run longer than limit under a fill, or a trailing run under '
             'ffill_na/ffill_0, or an all-NaN row in a frame, or empty / all-NaN input; distinct = distinct spec',
        floor=0.3, class_floors={'run_longer_than_limit': 0.06, 'tail_fill_with_trailing_run': 0.02, 'allnan_row_2d': 0.1, 'empty': 0.02,
                                 'tail_fill_after_row_drop': 0.04, 'tail_fill_after_row_drop:trailing_nan': 0.015, 'all_nan': 0.02, 'rows_dropped': 0.08, 'm=ffill_0': 0.03, 'm=ffill_na': 0.03, 'm=const': 0.08,
                                 'interior_run': 0.2, 'partial_nan_row_2d': 0.08,
                                 'rows>=64': 0.08, 'rows=64|65|100|128': 0.04, 'rows>=200': 0.02, 'nan_run>=32': 0.04, 'limit>=32_and_longer_run': 0.004,
                                 'limit==run_length': 0.04, 'limit==run_length-1': 0.03, 'ix_duplicate_labels': 0.1, 'ix=int_unique': 0.15,
                                 'cols_unsorted': 0.04, 'cols_duplicated': 0.03, 'cols_prefix': 0.03, 'cols_int': 0.03, 'no_nan': 0.015,
                                 'ends_valid_interior_nan': 0.05, 'tail_fill_ends_valid': 0.005, 'm=const_zero': 0.02, 'zero_cell': 0.05,
                                 'limit_with_drop': 0.08, 'tail_fill_trailing_run>limit': 0.005, 'axis0_positional': 0.1, 'noop_with_method': 0.05,
                                 'allnan_column_in_frame': 0.05, 'emptied_before_last_method': 0.001, 'rows=1': 0.008,
                                 # classes 11-20 of the builder brief (floors: a third of the rate over seeds 1-3)
                                 'const_raw_type': 0.018, 'const_raw_numpy': 0.015, 'const_raw_numpy_int': 0.0073,
                                 'one_constant_two_raw_types': 0.0037, 'limit_raw_numpy': 0.02, 'methods_tuple': 0.027,
                                 'methods_tuple_len<=1': 0.0077, 'explicit_defaults': 0.022, 'style=kw': 0.018, 'style=plain': 0.0033,
                                 'view_input': 0.062, 'view=strided': 0.033, 'view=fortran': 0.016, 'view=readonly': 0.012, 'ix_unsorted': 0.0096,
                                 'ix_decreasing': 0.0032, 'ix_float': 0.015, 'ix_int>2**53': 0.0074, 'ix_intraday': 0.023, 'ix_microseconds': 0.0084,
                                 'ix_starts_on_boundary_day': 0.041, 'cols_float': 0.0098, 'cols_numbers_only': 0.046, 'cols_number>2**53': 0.0096,
                                 'drop_before_fill': 0.049, 'drop_before_limited_fill:rows_dropped': 0.008, 'one_container_several_calls': 0.28,
                                 # classes 21-29 of the builder brief (floors: a third of the rate over seeds 1-3)
                                 'ix_zone_aware': 0.019, 'near_equal_column': 0.015, 'near_equal_column_with_nan': 0.015,
                                 'last_valid_label_0': 0.014, 'last_valid_label_0:ffill_0': 0.006}),
    Sub('nona_fn', _nona_case, run_nona, quick=1200, thorough=4000,
        rule='the same vectors / frames / index and column variants / views through nona(x) (edge None on every object; edge 1 / -1 on the pandas objects with unique '
             'increasing labels), the default value also spelled out (positional float nan, value=np.nan, np.float64 nan). Oracle: exactly the all-NaN rows go (edge 1: only those after the last valid row, edge -1: only those before the first), labels kept, '
             'array == .values, argument unchanged. non-trivial = the input has an all-NaN row or is empty',
        floor=0.3, class_floors={'edge_keeps_allnan_rows': 0.05, 'allnan_row_2d': 0.1, 'rows_dropped': 0.3, 'rows>=64': 0.08, 'ix_duplicate_labels': 0.05,
                                 'ix=int_unique': 0.1, 'cols_duplicated': 0.015, 'nothing_to_drop': 0.03,
                                 # classes 11-20 of the builder brief (floors: a third of the rate over seeds 1-3)
                                 'explicit_defaults': 0.04, 'style=value_pos': 0.013, 'style=value_kw': 0.015, 'style=value_f64': 0.0089,
                                 'view_input': 0.058, 'view=strided': 0.029, 'view=fortran': 0.012, 'view=readonly': 0.0092, 'ix_unsorted': 0.014,
                                 'ix_float': 0.011, 'ix_int>2**53': 0.0067, 'ix_intraday': 0.017, 'ix_starts_on_boundary_day': 0.033,
                                 'cols_numbers_only': 0.041,
                                 # classes 21-29 of the builder brief (floors: a third of the rate over seeds 1-3)
                                 'ix_zone_aware': 0.011, 'near_equal_column': 0.015}),
    Sub('const_limit', _const_limit_case, run_const_limit, quick=1200, thorough=3000,
        rule='the same vectors / frames / index and column variants / views / spellings (numpy constants and limits, tuple, keywords) with a numeric constant under limit 1/2/3 - alone (bare or in a list) or in a list of 2-3 '
             'with ffill/bfill/other constants. Oracle (deliberately not: which NaN get filled): the ndarray result equals the .values of all three pandas '
             'results cell for cell, non-NaN cells unchanged, every filled cell is a constant of the list (or a value of its column when the list also fills), '
             'shape / index / columns kept, arguments unmodified. non-trivial = more NaN than limit',
        floor=0.3, class_floors={'limit_left_nan_unfilled': 0.3, 'single_constant_bare': 0.1, 'single_constant_in_list': 0.1,
                                 'constant_with_ffill_or_bfill': 0.05, 'ncols>1': 0.1, 'm=const_zero': 0.1,
                                 # classes 11-20 of the builder brief (floors: a third of the rate over seeds 1-3)
                                 'const_raw_numpy': 0.035, 'const_raw_numpy_int': 0.015, 'one_constant_two_raw_types': 0.01,
                                 'limit_raw_numpy': 0.038, 'methods_tuple': 0.024, 'explicit_defaults': 0.034, 'view_input': 0.066,
                                 'ix_unsorted': 0.021, 'ix_intraday': 0.024,
                                 # classes 21-29 of the builder brief (floors: a third of the rate over seeds 1-3)
                                 'ix_zone_aware': 0.02, 'near_equal_column': 0.018}),
    Sub('session', _session_case, run_session, quick=900, thorough=3000,
        rule='state between calls: the four objects of a case are built ONCE and 2-4 calls are made on them (two sessions in three: all calls on one object, then all on the next; else call by call over the objects) - df_fillna with a method list, '
             'then with a prefix / an extension by one step / a permutation of the previous list or the very same container object again (under the same or another '
             'limit, positional / keyword / two-argument call), and nona(x, edge) in between; three sessions in four keep one limit. Every call is judged by the '
             'single-call oracles of fillna / nona_fn from the ORIGINAL content of the spec (a callee that writes into the caller\'s list shows in the next call), '
             'operands and the objects they are cut from are compared with their snapshots after every call, and at the end every result still holds the values it '
             'held when it was returned. One session in six (operands that are not views): the caller writes one cell of every operand in place (often the last valid cell -> NaN or '
             'a trailing NaN -> value) and makes one of the earlier calls again, judged by the edited cells. Half of the strided / transposed view sessions: every array call is also '
             'made on a twin view (same start address, shape, dtype; other strides, other cells). non-trivial = at least one call is non-trivial by the rule of its single-call sub-check',
        floor=0.3, class_floors={
                                 # classes 11-20 of the builder brief (floors: a third of the rate over seeds 1-3)
                                 'order=by_object': 0.15, 'order=by_call': 0.08, 'calls=2': 0.15, 'calls=3': 0.11, 'calls=4': 0.05, 'rel=prefix': 0.12, 'rel=extension': 0.081,
                                 'rel=permutation': 0.033, 'rel=same_methods': 0.16, 'same_container_again': 0.15,
                                 'same_container_other_limit': 0.06, 'same_container_first_with_limit_then_without': 0.028,
                                 'fillna_and_nona_on_one_object': 0.051, 'one_limit': 0.22, 'several_limits': 0.099, 'view_input': 0.053,
                                 'fn=nona': 0.051, 'edge=1': 0.016, 'edge=-1': 0.014, 'm=ffill_na': 0.06, 'm=ffill_0': 0.044, 'm=const': 0.046,
                                 'm=nona': 0.11, 'm=fnna': 0.089, 'run_longer_than_limit': 0.059, 'tail_fill_with_trailing_run': 0.045,
                                 'rows_dropped': 0.099, 'const_raw_numpy': 0.029, 'methods_tuple': 0.043, 'explicit_defaults': 0.087,
                                 'ix_unsorted': 0.015, 'ix_duplicate_labels': 0.032, 'noop_with_method': 0.07, 'drop_before_fill': 0.092,
                                 'rows>=64': 0.039, 'empty': 0.021, 'all_nan': 0.016, 'nmethods=0': 0.081, 'limit_raw_numpy': 0.033,
                                 'axis0_positional': 0.2,
                                 # classes 21-29 of the builder brief (floors: a third of the rate over seeds 1-3)
                                 'ix_zone_aware': 0.012, 'near_equal_column': 0.028, 'twin_view': 0.018, 'twin_view=strided': 0.012, 'twin_view=fortran': 0.006,
                                 'twin_view_other_cells': 0.012, 'edit_between_calls': 0.033, 'edit_moves_last_valid': 0.018,
                                 'edit_then_same_call_again': 0.033, 'edit_moves_last_valid:tail_fill_after': 0.009,
                                 'edit_moves_last_valid:tail_fill_after:dim=1': 0.004, 'edit_value_to_nan': 0.013, 'edit_nan_to_value': 0.013}),
    EnumSub('vec_enum', enum_vectors, run_fillna, thorough_only=True, chunks=64,
            rule='every NaN pattern of every vector length 0-%i (position-coded values) x every program: 7 single methods, 25 ordered pairs of '
                 'ffill/bfill/constant/nona/fnna, 10 pairs headed by ffill_na/ffill_0, x limit None/1/2/3 (constant only with None); same oracle as fillna'
                 % ENUM_MAXLEN),
]

SUBS[0].qshards = 8     # quick tier: 8 processes x 750 cases (the runner reads this attribute)
