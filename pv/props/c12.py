# -*- coding: utf-8 -*-
"""
C12 - df_fillna / nona fill or drop exactly the missing cells, arrays and pandas alike.

Spec format (plain JSON):
    cols    : 1-3 columns of equal length; a column is a list of cells - None (= NaN), a finite float, 'inf' / '-inf' - or, for long
              inputs, {'rle': [[length, None | start], ...]}: a NaN run, or a run of the values start, start+1, ...
    dim     : 1 -> the vector cols[0];  2 -> the frame with len(cols) columns
    methods : list of 'ffill' | 'bfill' | 'nona' | 'fnna' | 'ffill_na' | 'ffill_0' | number
    bare    : pass a one-element list as the bare method (and [] as None)
    limit   : None | positive int
    kinds   : which objects the case is run on: 'arr' numpy array, 'range' Series/DataFrame with the default RangeIndex,
              'dt' Series/DataFrame with a daily DatetimeIndex (and columns 'a','b','c'), 'ix' the index described by `ix`
    ix      : (optional) {'type': 'int' | 'dt', 'base': b, 'pattern': [steps >= 0]}: labels b, b+p0, b+p0+p1, ... (pattern repeats; a 0 step
              repeats the label); 'dt' counts days from 2000-01-03
    colnames: (optional) column labels of the 'dt' / 'ix' frames (unsorted, prefixes of one another, duplicated, integers)
    axis0   : (optional) pass axis=0 and limit positionally

Oracle: a scalar NaN-run walker per column over (original position, cells) rows, written from the statement; it never
calls pandas fill functions. Every kind is compared cell by cell with the model (NaN positions exactly, other cells
bit-exactly), pandas results also by index labels / columns, the array result with the `.values` of the pandas
results, and every input object with a snapshot taken before the call.
"""
import math

from hypothesis import strategies as st

from pv.core import Sub, EnumSub, Violation, call, check, short
from pv.codec import D0, mkdt

ASSUMPTIONS = [
    'cells are float64: NaN, finite floats (incl. -0.0, 1e300) and +-inf (inf is a value here: np.isnan / pandas treat it as present)',
    'axis is not passed or passed as 0 (axis=1 is swallowed by the loops decorator and the statement does not mention it, DESIGN section 4)',
    'sub-checks fillna / vec_enum combine a numeric method only with limit=None: WHICH NaN a constant fills under a limit is not claimed (fillna(value, limit=k) '
    'fills the first k NaN of a column; DESIGN section 4). Sub-check const_limit covers constants with limit 1/2/3 and asserts only the unconditional clauses: '
    'array result == .values of every pandas result, non-NaN cells unchanged, every filled cell equals a constant of the list (or, after ffill/bfill in the '
    'list, a value of its column), shape kept, arguments unmodified',
    "'ffill_na' / 'ffill_0' stand alone, first in a list, or after row drops only (nona / fnna); after a FILL method they read the last valid index of the ORIGINAL input, which differs from 'in sequence' (DESIGN section 4): not generated",
    "'ffill_na' / 'ffill_0' on a column without any valid observation: the column may stay NaN or (ffill_0) become all 0 - the statement does not say",
    'pandas inputs have a non-decreasing index: the default RangeIndex, a daily DatetimeIndex, integer labels not starting at 0, dates with gaps, '
    'and (with the two restrictions below) repeated integer / date labels; column labels may be unsorted, prefixes of one another, duplicated or integers. '
    'Decreasing / unsorted indexes are not generated (ffill_na/ffill_0 and edge compare labels; a time series is ordered)',
    'identity of the result is not asserted: df_fillna returns the argument itself for method None / [] (documented) and for ffill_na / ffill_0 on a series '
    'without a valid observation; only "values as specified, argument unchanged by the call" is demanded (no-op inputs carry the labels no_nan / noop_with_method)',
    'domain restriction (K5): edge=-1 is generated for RangeIndex / DatetimeIndex objects only. edge is documented in the nona docstring, not in the statement, and on an '
    'integer index that does not start at 0 it slices by position with a label: nona(pd.Series([nan,1,nan,2,nan], [10,11,12,13,14]), edge=-1) is empty (_df_slice: df[lb:ub])',
    'domain restriction (K6): ffill_na / ffill_0 and edge=+-1 are generated with unique index labels only. Repeated labels are outside "float vectors and 2-d frames"; '
    'there the rows sharing the boundary label count as one: df_fillna(pd.Series([1,2,nan], [d0,d1,d1]), "ffill_na") gives [1,2,2] (res.index > last_valid compares labels)',
    'zero-COLUMN frames are not generated (the statement speaks of frames of any length; ffill_0 and nona() raise on an n x 0 array)',
    'on frames every fill works column by column; rows are dropped only when the whole row is NaN',
    'interpolation methods, pad/backfill spellings, date methods and list/dict containers of timeseries are outside the statement and not generated',
    'nona(): value is the default NaN; the edge option (docstring: 1 = cut only the latest all-NaN rows, -1 = only the historic ones) is checked on pandas inputs',
    'formerly excluded, FIXED in /repo and searched again (class labels K1_class / K2_class / K3_class, regression inputs in replays/C12): '
    "K1 'fnna' after an earlier row drop on an integer-labelled object; K2 'nona' on a frame without rows; K3 a list headed by ffill_na/ffill_0 on a frame",
    'GENUINE DEFECT excluded by construction (K4): nona(ndarray, edge=+-1) ignores edge (drops every all-NaN row); edge is generated for pandas inputs only',
]

# input classes the generators avoid: K4 a known defect (remove the name once /repo carries the fix), K5 / K6 domain restrictions (see ASSUMPTIONS)
EXCLUDED = {'K4', 'K5', 'K6'}

NAN = float('nan')
FILLS = ('ffill', 'bfill')
DROPS = ('nona', 'fnna')
TAILS = ('ffill_na', 'ffill_0')
COLNAMES = ['a', 'b', 'c']


# ----------------------------------------------------------------------------- cells

def _cell(v):
    if v is None:
        return NAN
    if v == 'inf':
        return float('inf')
    if v == '-inf':
        return float('-inf')
    return float(v)


def _expand(c):
    if isinstance(c, dict):
        out = []
        for ln, v in c['rle']:
            if v is None:
                out.extend([NAN] * ln)
            else:
                v = _cell(v)
                out.extend([v + i for i in range(ln)])
        return out
    return [_cell(v) for v in c]


def _spec_cols(spec):
    cols = [_expand(c) for c in spec['cols']]
    return cols[:1] if spec['dim'] == 1 else cols


def _isnan(x):
    return x != x


def _same_cell(a, b):
    """NaN matches NaN, everything else bit for bit (so -0.0 is not 0.0)"""
    if a == b:
        return a != 0 or math.copysign(1.0, a) == math.copysign(1.0, b)
    return a != a and b != b


def _is_num(m):
    return isinstance(m, (int, float)) and not isinstance(m, bool)


# ----------------------------------------------------------------------------- reference model

def _ffill(col, limit):
    out = list(col)
    have = False
    last = NAN
    run = 0
    for i, v in enumerate(col):
        if _isnan(v):
            run += 1
            if have and (limit is None or run <= limit):
                out[i] = last
        else:
            have, last, run = True, v, 0
    return out


def _bfill(col, limit):
    return _ffill(col[::-1], limit)[::-1]


def _model(cols, methods, limit, zero_allnan=False):
    """
    returns (pos, cols, flags): pos = original positions of the surviving rows, cols = their cells column by column,
    flags = known-defect classes this case runs into: ('K1', step) / ('K2', step), and 'ambiguous' when ffill_0 met an all-NaN column
    """
    n = len(cols[0])
    pos = list(range(n))
    cur = [list(c) for c in cols]
    flags = set()
    for step, m in enumerate(methods):
        if _is_num(m):
            cur = [[float(m) if _isnan(v) else v for v in c] for c in cur]
        elif m == 'ffill':
            cur = [_ffill(c, limit) for c in cur]
        elif m == 'bfill':
            cur = [_bfill(c, limit) for c in cur]
        elif m in TAILS:
            new = []
            for c in cur:
                valid = [i for i, v in enumerate(c) if not _isnan(v)]
                if not valid:
                    if m == 'ffill_0' and len(c):
                        flags.add('ambiguous')
                        new.append([0.0] * len(c) if zero_allnan else list(c))
                    else:
                        new.append(list(c))
                else:
                    p = valid[-1]
                    new.append(_ffill(c, limit)[:p + 1] + [NAN if m == 'ffill_na' else 0.0] * (len(c) - p - 1))
            cur = new
        elif m in DROPS:
            rowvalid = [any(not _isnan(c[i]) for c in cur) for i in range(len(pos))]
            if m == 'nona':
                if not pos:
                    flags.add(('K2', step))
                keep = [i for i, ok in enumerate(rowvalid) if ok]
            else:
                if True in rowvalid:
                    first = rowvalid.index(True)
                    if pos[first] != first:
                        flags.add(('K1', step))
                    keep = list(range(first, len(pos)))
                else:
                    keep = []
            pos = [pos[i] for i in keep]
            cur = [[c[i] for i in keep] for c in cur]
        else:
            raise ValueError('model does not know method %r' % (m,))
    return pos, cur, flags


def _flags(spec):
    _, _, flags = _model(_spec_cols(spec), spec['methods'], spec['limit'])
    return flags


def _k1(spec):
    return any(isinstance(f, tuple) and f[0] == 'K1' for f in _flags(spec))


def _k2(spec):
    return spec['dim'] == 2 and any(isinstance(f, tuple) and f[0] == 'K2' for f in _flags(spec))


def _k2_fn(spec):
    return spec['dim'] == 2 and len(_spec_cols(spec)[0]) == 0 and bool(set(spec['kinds']) & {'range', 'dt', 'ix'})


def _k3(spec):
    return spec['dim'] == 2 and len(spec['methods']) > 1 and spec['methods'][0] in TAILS


KNOWN = {
    # sub-checks fillna / vec_enum
    'fnna_slices_by_position_on_int_index': lambda spec: 'methods' in spec and _k1(spec) and bool(set(spec['kinds']) & {'arr', 'range'}),
    'nona_on_zero_row_frame_drops_columns': lambda spec: _k2(spec) if 'methods' in spec else _k2_fn(spec),
    'tail_fill_list_on_frame_reapplies_list': lambda spec: 'methods' in spec and _k3(spec),
    # sub-check nona_fn
    'nona_edge_ignored_on_array': lambda spec: 'edge' in spec and spec['edge'] is not None and 'arr' in spec['kinds'],
    'nona_edge_minus1_positional_on_int_index': lambda spec: spec.get('edge') == -1 and 'ix' in spec['kinds'] and spec['ix']['type'] == 'int',
    # both
    'boundary_label_repeated': lambda spec: 'ix' in spec['kinds'] and _ix_dup(spec) and (
        spec.get('edge') is not None or any(m in TAILS for m in spec.get('methods', ()))),
}


# canonical failing spec per signature: (sub-check, spec, what) - material for known_findings.json; each raises Violation on the tree as of d325e52
_ALL = ['arr', 'range', 'dt']
KNOWN_SPECS = {
    'fnna_slices_by_position_on_int_index': (
        'fillna', dict(cols=[[None, 1.0, None, 2.0]], dim=1, methods=['nona', 'fnna'], bare=False, limit=None, kinds=_ALL),
        "df_fillna(np.array([nan,1,nan,2]), ['nona','fnna']) returns [2.] (also ['fnna','fnna']; 'fnna' on any integer index not starting at 0): "
        "res[nonan.index[0]:] is a positional slice on integer labels"),
    'nona_on_zero_row_frame_drops_columns': (
        'fillna', dict(cols=[[], []], dim=2, methods=['nona'], bare=True, limit=None, kinds=_ALL),
        "df_fillna(np.zeros((0,2)), 'nona') has shape (0,0) (also an all-NaN frame under ['fnna','nona'], and nona(DataFrame without rows)): "
        "max/min(axis=1) of an empty bool frame is float64, so res[mask] selects columns"),
    'tail_fill_list_on_frame_reapplies_list': (
        'fillna', dict(cols=[[1.0, None, None, None, None, 5.0]] * 2, dim=2, methods=['ffill_na', 'ffill'], bare=False, limit=1, kinds=_ALL),
        "on a 2-d input ['ffill_na'|'ffill_0', more...] passes the whole list (not the one method) to every column: later methods run twice "
        "(limit=1 fills two cells; a following 'fnna' drops valid rows)"),
    'nona_edge_ignored_on_array': (
        'nona_fn', dict(cols=[[1.0, None, 2.0, 3.0]], dim=1, edge=1, bare=False, kinds=_ALL),
        'nona(np.array([1,nan,2,3]), edge=1) drops the interior NaN (docstring example asserts it is kept): edge is ignored for ndarrays'),
    'nona_edge_minus1_positional_on_int_index': (
        'nona_fn', dict(cols=[[None, 1.0, None, 2.0, None]], dim=1, edge=-1, bare=False, kinds=['ix'], ix=dict(type='int', base=10, pattern=[1])),
        'nona(pd.Series([nan,1,nan,2,nan], [10,11,12,13,14]), edge=-1) is empty (expected the rows 11..14): _df_slice does df[11:None], a positional slice'),
    'boundary_label_repeated': (
        'fillna', dict(cols=[[1.0, 2.0, None]], dim=1, methods=['ffill_na'], bare=True, limit=None, kinds=['ix'], ix=dict(type='dt', base=0, pattern=[1, 0])),
        "df_fillna(pd.Series([1,2,nan], [d0,d1,d1]), 'ffill_na') fills the last row with 2 (it lies after the last valid observation): res.index > last_valid compares labels"),
}


def _repair(spec):
    """moves a generated case out of the excluded known-defect classes, changing as little as possible"""
    if 'K2' in EXCLUDED and spec['dim'] == 2:
        for _ in range(len(spec['methods'])):
            steps = sorted(f[1] for f in _flags(spec) if isinstance(f, tuple) and f[0] == 'K2')
            if not steps:
                break
            spec['methods'][steps[0]] = 'fnna'      # on a frame without rows both are "drop nothing"
    if 'K1' in EXCLUDED and _k1(spec):
        spec['kinds'] = ['dt']
    return spec


# ----------------------------------------------------------------------------- builders / observers

def _ix_values(ix, n):
    pat = ix['pattern']
    out, cur = [], ix['base']
    for i in range(n):
        out.append(cur)
        cur += pat[i % len(pat)]
    return out


def _ix_dup(spec):
    n = len(_spec_cols(spec)[0])
    v = _ix_values(spec['ix'], n)
    return len(set(v)) < len(v)


def _colnames(spec, kind, ncols):
    if kind == 'range':
        return None
    return list(spec.get('colnames') or COLNAMES)[:ncols]


def _build(cols, dim, kind, spec=None):
    import numpy as np
    import pandas as pd
    spec = spec or {}
    n = len(cols[0])
    if dim == 1:
        a = np.array(cols[0], dtype='float64')
    else:
        a = np.empty((n, len(cols)), dtype='float64')
        for j, c in enumerate(cols):
            a[:, j] = c
    if kind == 'arr':
        return a
    if kind == 'range':
        index = None
    elif kind == 'dt' or spec['ix']['type'] == 'dt':
        index = pd.DatetimeIndex(_labels(kind, n, spec))
    else:
        index = pd.Index(_labels(kind, n, spec), dtype='int64')
    if dim == 1:
        return pd.Series(a, index=index, dtype='float64')
    return pd.DataFrame(a, index=index, columns=_colnames(spec, kind, len(cols)))


_LABELS = {}


def _labels(kind, n, spec=None):
    import pandas as pd
    if kind == 'range':
        return list(range(n))
    key = (kind, n) if kind == 'dt' else (spec['ix']['type'], spec['ix']['base'], tuple(spec['ix']['pattern']), n)
    if key not in _LABELS:
        if len(_LABELS) > 500:
            _LABELS.clear()
        if kind == 'dt':
            _LABELS[key] = [pd.Timestamp(mkdt(D0 + i)) for i in range(n)]
        else:
            v = _ix_values(spec['ix'], n)
            _LABELS[key] = v if spec['ix']['type'] == 'int' else [pd.Timestamp(mkdt(D0 + i)) for i in v]
    return list(_LABELS[key])


def _snap(x):
    import numpy as np
    if isinstance(x, np.ndarray):
        return ('arr', x.shape, x.dtype.str, x.tobytes())
    v = np.ascontiguousarray(x.values)
    cols = list(x.columns) if hasattr(x, 'columns') else [x.name]
    return (type(x).__name__, v.shape, v.dtype.str, v.tobytes(), list(x.index), cols)


def _columns_of(what, res, dim, ncols):
    """result values column by column as python floats"""
    import numpy as np
    v = res if isinstance(res, np.ndarray) else res.values
    check(v.dtype == np.float64, '%s: result has dtype %s, not float64', what, str(v.dtype))
    if dim == 1:
        check(v.ndim == 1, '%s: result of a vector has shape %s', what, v.shape)
        return [[float(i) for i in v]]
    check(v.ndim == 2 and v.shape[1] == ncols, '%s: result of a frame with %s column(s) has shape %s', what, ncols, v.shape)
    return [[float(i) for i in v[:, j]] for j in range(ncols)]


def _diff(got, exp):
    """None when equal, else text"""
    if len(got[0]) != len(exp[0]):
        return '%i rows instead of %i' % (len(got[0]), len(exp[0]))
    for j, (g, e) in enumerate(zip(got, exp)):
        for i, (a, b) in enumerate(zip(g, e)):
            if not _same_cell(a, b):
                return 'row %i column %i is %r instead of %r' % (i, j, a, b)
    return None


def _check_object(what, x, kind, res, dim, ncols, variants, n, spec=None):
    """res = result for the object x of `kind`; variants = acceptable (pos, cols) model results"""
    import numpy as np
    import pandas as pd
    if kind == 'arr':
        check(isinstance(res, np.ndarray), '%s: an ndarray went in, %s came out', what, type(res).__name__)
    elif dim == 1:
        check(isinstance(res, pd.Series), '%s: a Series went in, %s came out', what, type(res).__name__)
    else:
        check(isinstance(res, pd.DataFrame), '%s: a DataFrame went in, %s came out', what, type(res).__name__)
    got = _columns_of(what, res, dim, ncols)
    diffs = [_diff(got, cols) for pos, cols in variants]
    if all(d is not None for d in diffs):
        raise Violation('%s: %s; result %s, reference %s' % (what, diffs[0], short(got, 260), short(variants[0][1], 260)))
    pos = variants[[d is None for d in diffs].index(True)][0]
    if kind != 'arr':
        lab = _labels(kind, n, spec)
        exp_index = [lab[p] for p in pos]
        check(list(res.index) == exp_index, '%s: surviving rows carry index %s instead of their own labels %s', what, list(res.index), exp_index)
        if dim == 2:
            check(list(res.columns) == list(x.columns), '%s: columns changed from %s to %s', what, list(x.columns), list(res.columns))
    return got


class _Lazy(object):
    """description of a call, rendered only when a message is needed"""

    def __init__(self, *a):
        self.a = a

    def __str__(self):
        return _render(*self.a)

    __repr__ = __str__


def _what(fname, x, args):
    return _Lazy(fname, x, args)


def _render(fname, x, args):
    import numpy as np
    if isinstance(x, np.ndarray):
        xs = 'np.array(%s)' % short(x.tolist(), 200) if x.size else 'np.zeros(%s)' % (x.shape,)
    else:
        ix = type(x.index).__name__ if type(x.index).__name__ == 'RangeIndex' else '[%s]' % short(', '.join(str(i)[:10] for i in x.index), 120)
        xs = '%s(%s, index=%s%s)' % (type(x).__name__, short(x.values.tolist(), 200) if x.size else 'np.zeros(%s)' % (x.shape,), ix,
                                     ', columns=%s' % list(x.columns) if hasattr(x, 'columns') else '')
    return '%s(%s, %s)' % (fname, xs, args)


# ----------------------------------------------------------------------------- pattern classes

def _runs(col):
    """list of (is_nan, length)"""
    out = []
    for v in col:
        isn = _isnan(v)
        if out and out[-1][0] == isn:
            out[-1][1] += 1
        else:
            out.append([isn, 1])
    return out


def _nan_run_lengths(cols):
    return sorted(set(l for c in cols for isn, l in _runs(c) if isn))


def _pattern_classes(cols, dim):
    cls = []
    n = len(cols[0])
    if n == 0:
        return ['empty'], dict(maxrun=0, trailing=False, allnan_row=False, trailing_run=0)
    if all(_isnan(v) for c in cols for v in c):
        cls.append('all_nan')
    if not any(_isnan(v) for c in cols for v in c):
        cls.append('no_nan')                                  # fingerprint: nothing to do
    maxrun, trailing, trailing_run = 0, False, 0
    for c in cols:
        r = _runs(c)
        nanruns = [l for isn, l in r if isn]
        maxrun = max([maxrun] + nanruns)
        anyvalid = any(not isn for isn, _ in r)
        if r[0][0] and anyvalid:
            cls.append('leading_run')
        if r[-1][0] and anyvalid:
            cls.append('trailing_run')
            trailing = True
            trailing_run = max(trailing_run, r[-1][1])
        if any(isn for isn, _ in r[1:-1]):
            cls.append('interior_run')
            if not r[0][0] and not r[-1][0]:
                cls.append('ends_valid_interior_nan')         # fingerprint: first and last cell valid, yet work to do
        if not anyvalid and len(cols) > 1:
            cls.append('allnan_column_in_frame')
        if any(v == 0 for v in c):
            cls.append('zero_cell')
    allnan_row = any(all(_isnan(c[i]) for c in cols) for i in range(n))
    if dim == 2:
        if allnan_row:
            cls.append('allnan_row_2d')
        if any(0 < sum(_isnan(c[i]) for c in cols) < len(cols) for i in range(n)):
            cls.append('partial_nan_row_2d')
    if n == 1:
        cls.append('rows=1')
    if n >= 64:
        cls.append('rows>=64')
    if n in (64, 65, 100, 128):
        cls.append('rows=64|65|100|128')
    if n >= 200:
        cls.append('rows>=200')
    if maxrun >= 32:
        cls.append('nan_run>=32')
    return sorted(set(cls)), dict(maxrun=maxrun, trailing=trailing, allnan_row=allnan_row, trailing_run=trailing_run)


def _object_classes(spec, dim):
    cls = []
    if 'ix' in spec['kinds']:
        n = len(_spec_cols(spec)[0])
        v = _ix_values(spec['ix'], n)
        dup = len(set(v)) < len(v)
        cls.append('ix=%s_%s' % (spec['ix']['type'], 'dup' if dup else 'unique'))
        if dup:
            cls.append('ix_duplicate_labels')
    names = spec.get('colnames')
    if dim == 2 and names and set(spec['kinds']) & {'dt', 'ix'}:
        names = names[:len(spec['cols'])]
        if len(set(map(str, names))) < len(names) or len(set(names)) < len(names):
            cls.append('cols_duplicated')
        if all(isinstance(c, int) for c in names):
            cls.append('cols_int')
        elif any(a != b and str(a) in str(b) for a in names for b in names):
            cls.append('cols_prefix')
        if [str(c) for c in names] != sorted(str(c) for c in names):
            cls.append('cols_unsorted')
    return cls


# ----------------------------------------------------------------------------- sub-check fillna

def run_fillna(spec):
    import numpy as np
    from pyg_base import df_fillna
    dim, methods, limit = spec['dim'], spec['methods'], spec['limit']
    cols = _spec_cols(spec)
    ncols = len(cols)
    n = len(cols[0])
    if any(len(c) != n for c in cols):
        raise ValueError('ragged spec')
    pos, exp, flags = _model(cols, methods, limit)
    variants = [(pos, exp)]
    if 'ambiguous' in flags:
        p2, e2, _ = _model(cols, methods, limit, zero_allnan=True)
        variants.append((p2, e2))
    if spec.get('bare') and len(methods) <= 1:
        method = methods[0] if methods else None
    else:
        method = list(methods)
    axis0 = bool(spec.get('axis0'))
    args = ('%r, 0, %r' if axis0 else '%r, limit=%r') % (method, limit)
    results = {}
    aliased = False
    for kind in spec['kinds']:
        x = _build(cols, dim, kind, spec)
        before = _snap(x)
        what = _what('df_fillna', x, args)
        if axis0:
            res = call(what, df_fillna, x, method, 0, limit)
        else:
            res = call(what, df_fillna, x, method, limit=limit)
        results[kind] = _check_object(what, x, kind, res, dim, ncols, variants, n, spec)
        check(_snap(x) == before, '%s modified its argument: now %s', what, short(x.tolist() if isinstance(x, np.ndarray) else x.values.tolist(), 300))
        if res is x and methods:
            aliased = True
    if 'arr' in results:
        for kind in results:
            if kind != 'arr':
                d = _diff(results['arr'], results[kind])
                check(d is None, 'df_fillna(%s): array result differs from the .values of the %s-indexed pandas result: %s', args, kind, d)

    # ---- classes / non-trivial rule
    pcls, info = _pattern_classes(cols, dim)
    cls = ['dim=%i' % dim, 'limit=%s' % (limit if limit is None or limit <= 3 else '>3'), 'nmethods=%i' % min(len(methods), 3)] + pcls
    cls += _object_classes(spec, dim)
    if dim == 2:
        cls.append('ncols=%i' % ncols)
    for m in methods:
        cls.append('m=const' if _is_num(m) else 'm=' + m)
        if _is_num(m) and m == 0:
            cls.append('m=const_zero')                        # falsy method
    fills = [m for m in methods if m in FILLS or m in TAILS]
    run_gt_limit = limit is not None and bool(fills) and info['maxrun'] > limit
    tail = bool(methods) and (methods[0] in TAILS or (any(m in TAILS for m in methods) and all(m in DROPS for m in methods[:[m in TAILS for m in methods].index(True)]))) and info['trailing']
    if any(m in TAILS for m in methods) and methods[0] in DROPS:
        cls.append('tail_fill_after_row_drop')
        if info['trailing']:
            cls.append('tail_fill_after_row_drop:trailing_nan')
    rowdrop = dim == 2 and info['allnan_row'] and any(m in DROPS for m in methods)
    if run_gt_limit:
        cls.append('run_longer_than_limit')
    if limit is not None and fills:
        runs = _nan_run_lengths(cols)
        if limit in runs:
            cls.append('limit==run_length')
        if limit + 1 in runs:
            cls.append('limit==run_length-1')
        if limit >= 32 and info['maxrun'] > limit:
            cls.append('limit>=32_and_longer_run')
    if limit is not None and any(m in DROPS for m in methods):
        cls.append('limit_with_drop')                         # cooperating parameters
    if tail:
        cls.append('tail_fill_with_trailing_run')
        if limit is not None and info['trailing_run'] > limit:
            cls.append('tail_fill_trailing_run>limit')
    if methods and methods[0] in TAILS and 'ends_valid_interior_nan' in pcls:
        cls.append('tail_fill_ends_valid')
    if rowdrop:
        cls.append('allnan_row_dropped_2d')
    if len(pos) < n:
        cls.append('rows_dropped')
    if methods and len(pos) == 0 and n > 0 and methods[-1] not in DROPS:
        cls.append('emptied_before_last_method')              # degenerate shape in the middle of the list
    if axis0:
        cls.append('axis0_positional')
    if aliased:
        cls.append('result_is_argument')                      # observed only: no-op tail fill returns the operand, as method None does by design
    if methods and exp == cols and len(pos) == n:
        cls.append('noop_with_method')
    if spec['kinds'] == ['dt']:
        cls.append('dt_only(K1 class)')
    elif any(isinstance(f, tuple) and f[0] == 'K1' for f in flags):
        cls.append('K1_class')
    if dim == 2 and any(isinstance(f, tuple) and f[0] == 'K2' for f in flags):
        cls.append('K2_class')
    if dim == 2 and len(methods) > 1 and methods[0] in TAILS:
        cls.append('K3_class')
    if 'ambiguous' in flags:
        cls.append('ffill_0_allnan_column')
    nt = bool(methods) and (run_gt_limit or tail or (dim == 2 and info['allnan_row']) or 'empty' in pcls or 'all_nan' in pcls)
    return dict(nt=nt, cls=cls)


# ----------------------------------------------------------------------------- sub-check nona_fn

def run_nona(spec):
    import numpy as np
    from pyg_base import nona
    dim, edge = spec['dim'], spec['edge']
    cols = _spec_cols(spec)
    ncols = len(cols)
    n = len(cols[0])
    rowvalid = [any(not _isnan(c[i]) for c in cols) for i in range(n)]
    if True not in rowvalid:
        keep = []
    elif edge is None:
        keep = [i for i in range(n) if rowvalid[i]]
    elif edge == 1:
        keep = list(range(0, n - rowvalid[::-1].index(True)))
    elif edge == -1:
        keep = list(range(rowvalid.index(True), n))
    else:
        raise ValueError('edge %r' % (edge,))
    exp = [[c[i] for i in keep] for c in cols]
    variants = [(keep, exp)]
    results = {}
    for kind in spec['kinds']:
        x = _build(cols, dim, kind, spec)
        before = _snap(x)
        if edge is None and spec.get('bare'):
            what = _what('nona', x, '')
            res = call(what, nona, x)
        else:
            what = _what('nona', x, 'edge=%r' % (edge,))
            res = call(what, nona, x, edge=edge)
        results[kind] = _check_object(what, x, kind, res, dim, ncols, variants, n, spec)
        check(_snap(x) == before, '%s modified its argument: now %s', what, short(x.tolist() if isinstance(x, np.ndarray) else x.values.tolist(), 300))
    if 'arr' in results:
        for kind in results:
            if kind != 'arr':
                d = _diff(results['arr'], results[kind])
                check(d is None, 'nona(edge=%s): array result differs from the .values of the %s-indexed pandas result: %s', edge, kind, d)
    pcls, info = _pattern_classes(cols, dim)
    cls = ['dim=%i' % dim, 'edge=%s' % edge] + pcls + _object_classes(spec, dim)
    edge_keeps_interior = edge is not None and len(keep) > sum(rowvalid)
    if edge_keeps_interior:
        cls.append('edge_keeps_allnan_rows')
    if len(keep) < n:
        cls.append('rows_dropped')
    if len(keep) == n and n:
        cls.append('nothing_to_drop')                         # no-op: still a new object
    nt = info['allnan_row'] or n == 0
    return dict(nt=bool(nt), cls=cls)


# ----------------------------------------------------------------------------- sub-check const_limit

def run_const_limit(spec):
    """constants under a limit: only the unconditional clauses (see ASSUMPTIONS); methods are constants, 'ffill', 'bfill' - no row drops"""
    import numpy as np
    from pyg_base import df_fillna
    dim, methods, limit = spec['dim'], spec['methods'], spec['limit']
    if limit is None or not any(_is_num(m) for m in methods) or any(not _is_num(m) and m not in FILLS for m in methods):
        raise ValueError('const_limit spec needs a limit, a constant and only constants / ffill / bfill')
    cols = _spec_cols(spec)
    ncols, n = len(cols), len(cols[0])
    consts = [float(m) for m in methods if _is_num(m)]
    copies = any(m in FILLS for m in methods)
    method = methods[0] if spec.get('bare') and len(methods) == 1 else list(methods)
    args = '%r, limit=%r' % (method, limit)
    results = {}
    filled = 0
    for kind in spec['kinds']:
        x = _build(cols, dim, kind, spec)
        before = _snap(x)
        what = _what('df_fillna', x, args)
        res = call(what, df_fillna, x, method, limit=limit)
        if kind == 'arr':
            check(isinstance(res, np.ndarray), '%s: an ndarray went in, %s came out', what, type(res).__name__)
        else:
            check(type(res) is type(x), '%s: a %s went in, %s came out', what, type(x).__name__, type(res).__name__)
        got = _columns_of(what, res, dim, ncols)
        check(len(got[0]) == n, '%s: %s rows went in, %s came out', what, n, len(got[0]))
        for j, (g, c) in enumerate(zip(got, cols)):
            allowed = consts + ([v for v in c if not _isnan(v)] if copies else [])
            for i, (a, b) in enumerate(zip(g, c)):
                if not _isnan(b):
                    check(_same_cell(a, b), '%s: the non-NaN cell at row %s column %s changed from %s to %s', what, i, j, b, a)
                elif not _isnan(a):
                    filled += 1
                    check(any(_same_cell(a, v) for v in allowed), '%s: the NaN at row %s column %s was filled with %s, which is neither the constant nor a value of the column',
                          what, i, j, a)
        if kind != 'arr':
            check(list(res.index) == _labels(kind, n, spec), '%s: index changed to %s', what, list(res.index))
            if dim == 2:
                check(list(res.columns) == list(x.columns), '%s: columns changed from %s to %s', what, list(x.columns), list(res.columns))
        check(_snap(x) == before, '%s modified its argument: now %s', what, short(x.tolist() if isinstance(x, np.ndarray) else x.values.tolist(), 300))
        results[kind] = got
    ref = 'arr' if 'arr' in results else spec['kinds'][0]
    for kind in results:
        if kind != ref:
            d = _diff(results[ref], results[kind])
            if d is not None:
                raise Violation('df_fillna(np.array(%s), %s): the %s result differs from the .values of the %s-indexed pandas result: %s; %s vs %s'
                                % (short(_build(cols, dim, 'arr').tolist(), 200), args, 'array' if ref == 'arr' else ref, kind, d,
                                   short(results[ref], 200), short(results[kind], 200)))
    pcls, info = _pattern_classes(cols, dim)
    nnan = sum(1 for c in cols for v in c if _isnan(v))
    left = sum(1 for c in results[ref] for v in c if _isnan(v))
    cls = ['dim=%i' % dim, 'limit=%s' % limit, 'nmethods=%i' % len(methods)] + [k for k in pcls if k in ('empty', 'all_nan', 'no_nan', 'rows>=64', 'allnan_row_2d')]
    cls += _object_classes(spec, dim)
    if len(methods) == 1:
        cls.append('single_constant_bare' if spec.get('bare') else 'single_constant_in_list')
    if copies:
        cls.append('constant_with_ffill_or_bfill')
    if any(m == 0 for m in consts):
        cls.append('m=const_zero')
    if left:
        cls.append('limit_left_nan_unfilled')                 # the limit mattered: this is where a limit-blind path differs
    if dim == 2 and ncols > 1:
        cls.append('ncols>1')
    nt = nnan > limit
    if nt:
        cls.append('more_nan_than_limit')
    return dict(nt=nt, cls=cls)


# ----------------------------------------------------------------------------- generators

_VAL = st.sampled_from([float(i) for i in range(1, 10)] * 2 + [0.0, -0.0, -1.5, 2.5, 1e300, 5e-324, 9007199254740993.0, 'inf', '-inf'])
_CONST = st.sampled_from([0, 1, -2, 0.0, 2.5, 7.0])
_STEP = st.sampled_from(['ffill', 'bfill', 'nona', 'fnna'])
LONG_SIZES = [64, 65, 100, 128, 200, 257]
_LONG_RUNS = [1, 2, 3, 5, 16, 31, 32, 33, 63, 64, 65, 100, 130]
_COLNAMES = [None, None, ['c', 'a', 'b'], ['a', 'ab', 'abc'], ['b', 'ab', 'a'], ['x', 'x', 'y'], [2, 0, 1], [0, 0, 1]]
_IX = [dict(type='int', base=10, pattern=[1]), dict(type='int', base=-5, pattern=[1, 3]), dict(type='int', base=1, pattern=[2]),
       dict(type='dt', base=2, pattern=[1, 3, 7]), dict(type='dt', base=0, pattern=[31]),
       dict(type='int', base=5, pattern=[0, 2]), dict(type='int', base=0, pattern=[1, 0, 0]), dict(type='int', base=7, pattern=[0]),
       dict(type='dt', base=0, pattern=[1, 0]), dict(type='dt', base=3, pattern=[0, 0, 1])]


@st.composite
def _vector(draw, max_runs):
    """NaN-run grammar: alternating runs of NaN / values, each of length 0-4"""
    nruns = draw(st.sampled_from([0, 1, 2, 2] + list(range(3, max_runs + 1)) * 3))
    isn = draw(st.booleans())
    lens = draw(st.lists(st.sampled_from([0, 1, 1, 2, 2, 3, 4]), min_size=nruns, max_size=nruns))
    nvals = sum(ln for k, ln in enumerate(lens) if (k % 2 == 0) != isn)
    vals = draw(st.lists(_VAL, min_size=nvals, max_size=nvals))
    out = []
    for ln in lens:
        for _ in range(ln):
            out.append(None if isn else vals.pop())
        isn = not isn
    return out[:20]


def _cut_rle(rle, n, pad_nan):
    out, total = [], 0
    for ln, v in rle:
        if total >= n:
            break
        ln = min(ln, n - total)
        if ln:
            out.append([ln, v])
            total += ln
    if total < n:
        out.append([n - total, None if pad_nan else 1.0])
    return out


@st.composite
def _long_column(draw, n):
    """run-length coded column of exactly n rows: alternating NaN / value runs with lengths around the powers of two"""
    isn = draw(st.booleans())
    lens = draw(st.lists(st.sampled_from(_LONG_RUNS), min_size=1, max_size=8))
    starts = draw(st.lists(st.integers(1, 9), min_size=len(lens), max_size=len(lens)))
    rle = []
    for ln, v in zip(lens, starts):
        rle.append([ln, None if isn else float(v)])
        isn = not isn
    return dict(rle=_cut_rle(rle, n, isn))


@st.composite
def _columns(draw, dim, max_runs, long=False):
    if long:
        n = draw(st.sampled_from(LONG_SIZES))
        first = draw(_long_column(n))
        cols = [first]
        for _ in range(draw(st.integers(0, 2)) if dim == 2 else 0):
            mode = draw(st.sampled_from(['same_mask', 'shifted', 'own', 'all_nan']))
            if mode == 'same_mask':
                c = dict(rle=[[ln, None if v is None else v + 10.0] for ln, v in first['rle']])
            elif mode == 'shifted':
                k = draw(st.sampled_from([1, 2, 31, 32]))
                c = dict(rle=_cut_rle([[k, None if draw(st.booleans()) else 3.0]] + [list(r) for r in first['rle']], n, True))
            elif mode == 'all_nan':
                c = dict(rle=[[n, None]])
            else:
                c = draw(_long_column(n))
            cols.append(c)
        return cols
    first = draw(_vector(max_runs))
    if dim == 1:
        return [first]
    n = len(first)
    cols = [first]
    for _ in range(draw(st.integers(0, 2))):
        mode = draw(st.sampled_from(['same_mask', 'grammar', 'grammar', 'all_nan']))
        if mode == 'same_mask':
            vals = draw(st.lists(_VAL, min_size=n, max_size=n))
            c = [None if v is None else w for v, w in zip(first, vals)]
        elif mode == 'all_nan':
            c = [None] * n
        else:
            c = draw(_vector(max_runs))[:n]
            if len(c) < n:
                c = c + (draw(st.lists(_VAL, min_size=n - len(c), max_size=n - len(c))) if draw(st.booleans()) else [None] * (n - len(c)))
        cols.append(c)
    if draw(st.integers(0, 3)) == 0:
        cols = cols[::-1]                                     # the all-NaN / derived column also comes first
    return cols


def _unique_ix(ix):
    return dict(ix, pattern=[p or 1 for p in ix['pattern']])


@st.composite
def _fillna_case(draw, tier):
    max_runs = 5 if tier == 'quick' else 7
    dim = draw(st.sampled_from([1, 1, 2, 2, 2]))
    long = draw(st.integers(0, 6)) == 0
    cols = draw(_columns(dim, max_runs, long))
    runs = _nan_run_lengths([_expand(c) for c in cols])
    near = sorted(set(l + d for l in runs for d in (-1, 0, 1) if l + d >= 1))
    limit = draw(st.sampled_from(([None, None, 1, 2] + near[-8:]) if long else ([None, None, None, 1, 2, 3] + near[:4] + near[-4:])))
    step = _STEP if limit is not None else st.one_of(_STEP, _STEP, _CONST)
    shape = draw(st.sampled_from(['single'] * 4 + ['list'] * 4 + ['tail_list'] * 2 + ['drop_then_tail'] * 2 + ['none']))
    bare = draw(st.booleans())
    if shape == 'none':
        methods = []
    elif shape == 'single':
        methods = [draw(st.one_of(step, st.sampled_from(TAILS)))]
    elif shape == 'drop_then_tail':
        # a tail fill after row drops only: rows are removed, no cell is filled, so 'the last valid observation' is the same row whether it is
        # read off the input or off the intermediate result (after a FILL the two readings differ: not generated, see ASSUMPTIONS)
        methods = draw(st.lists(st.sampled_from(DROPS), min_size=1, max_size=2)) + [draw(st.sampled_from(TAILS))] + draw(st.lists(step, max_size=1))
    elif shape == 'list' or (dim == 2 and 'K3' in EXCLUDED):
        methods = draw(st.lists(step, min_size=2, max_size=3))
    else:
        methods = [draw(st.sampled_from(TAILS))] + draw(st.lists(step, min_size=1, max_size=2))
    ix = dict(draw(st.sampled_from(_IX)))
    if 'K6' in EXCLUDED and any(m in TAILS for m in methods):
        ix = _unique_ix(ix)
    spec = dict(cols=cols, dim=dim, methods=methods, bare=bare, limit=limit, kinds=['arr', 'range', 'dt', 'ix'], ix=ix)
    if dim == 2:
        names = draw(st.sampled_from(_COLNAMES))
        if names:
            spec['colnames'] = names
    if draw(st.integers(0, 3)) == 0:
        spec['axis0'] = True
    return _repair(spec)


@st.composite
def _nona_case(draw, tier):
    max_runs = 5 if tier == 'quick' else 7
    dim = draw(st.sampled_from([1, 2, 2]))
    long = draw(st.integers(0, 6)) == 0
    cols = draw(_columns(dim, max_runs, long))
    edge = draw(st.sampled_from([None, None, 1, -1]))
    ix = dict(draw(st.sampled_from(_IX)))
    if edge is not None and 'K6' in EXCLUDED:
        ix = _unique_ix(ix)
    kinds = ['arr', 'range', 'dt', 'ix']
    if edge is not None and 'K4' in EXCLUDED:
        kinds.remove('arr')
    if edge == -1 and ix['type'] == 'int' and 'K5' in EXCLUDED:
        kinds.remove('ix')
    if dim == 2 and not _expand(cols[0]) and 'K2' in EXCLUDED:
        edge, kinds = None, ['arr']
    spec = dict(cols=cols, dim=dim, edge=edge, bare=draw(st.booleans()), kinds=kinds, ix=ix)
    if dim == 2:
        names = draw(st.sampled_from(_COLNAMES))
        if names:
            spec['colnames'] = names
    return spec


@st.composite
def _const_limit_case(draw, tier):
    max_runs = 5 if tier == 'quick' else 7
    dim = draw(st.sampled_from([1, 1, 2, 2]))
    cols = draw(_columns(dim, max_runs, draw(st.integers(0, 9)) == 0))
    limit = draw(st.sampled_from([1, 1, 2, 3]))
    shape = draw(st.sampled_from(['list', 'single', 'single', 'list']))
    if shape == 'single':
        methods = [draw(_CONST)]
    else:
        methods = draw(st.lists(st.one_of(_CONST, st.sampled_from(FILLS)), min_size=2, max_size=3))
        if not any(_is_num(m) for m in methods):
            methods[draw(st.integers(0, len(methods) - 1))] = draw(_CONST)
    spec = dict(cols=cols, dim=dim, methods=methods, bare=draw(st.booleans()), limit=limit, kinds=['arr', 'range', 'dt', 'ix'],
                ix=dict(draw(st.sampled_from(_IX))))
    if dim == 2:
        names = draw(st.sampled_from(_COLNAMES))
        if names:
            spec['colnames'] = names
    return spec


# ----------------------------------------------------------------------------- exhaustive vectors (thorough tier)

def _programs():
    base = ['ffill', 'bfill', 9.5, 'nona', 'fnna']
    progs = [[m] for m in base + list(TAILS)]
    progs += [[a, b] for a in base for b in base]
    progs += [[t, b] for t in TAILS for b in base]
    out = []
    for p in progs:
        for limit in (None, 1, 2, 3):
            if limit is not None and any(_is_num(m) for m in p):
                continue
            out.append((p, limit))
    return out


ENUM_MAXLEN = 9


def enum_vectors(tier):
    progs = _programs()
    masks = [(n, bits) for n in range(ENUM_MAXLEN + 1) for bits in range(2 ** n)]

    def chunker(i, nchunks):
        for k in range(i, len(masks), nchunks):
            n, bits = masks[k]
            col = [None if (bits >> j) & 1 else float(j + 1) for j in range(n)]
            for p, limit in progs:
                yield _repair(dict(cols=[list(col)], dim=1, methods=list(p), bare=len(p) == 1, limit=limit, kinds=['arr', 'range', 'dt']))
    return len(masks) * len(progs), chunker


SUBS = [
    Sub('fillna', _fillna_case, run_fillna, quick=6000, thorough=15000,
        rule='vectors and 1-3 column frames from a NaN-run grammar (alternating NaN/value runs of length 0-4, <= 20 rows; further '
             'columns share the mask, follow their own grammar or are all-NaN) and, one case in seven, LONG inputs of exactly 64/65/100/128/200/257 rows '
             '(run-length coded, runs of 1..130 around the powers of two); method = None, one of ffill/bfill/constant/nona/fnna/ffill_na/ffill_0, '
             'a list of 2-3 of ffill/bfill/constant/nona/fnna, or ffill_na/ffill_0 followed by 1-2 of them, or 1-2 row drops (nona/fnna) then ffill_na/ffill_0 then at most one more; limit None/1/2/3 or a NaN-run length -1/+0/+1; '
             'each case on the ndarray, the RangeIndex object, the daily DatetimeIndex object and a fourth object with integer labels not starting at 0 / gapped '
             'dates / repeated labels; frame columns also unsorted, prefix-named, duplicated, integers. Oracle: NaN-run walker per column (fill iff a source '
             'lies within limit, nothing else changes), all-NaN-row dropping with index labels, array == .values of pandas result, arguments bit-identical '
             'afterwards. non-trivial = a NaN run longer than limit under a fill, or a trailing run under '
             'ffill_na/ffill_0, or an all-NaN row in a frame, or empty / all-NaN input; distinct = distinct spec',
        floor=0.3, class_floors={'run_longer_than_limit': 0.06, 'tail_fill_with_trailing_run': 0.02, 'allnan_row_2d': 0.1, 'empty': 0.02,
                                 'tail_fill_after_row_drop': 0.04, 'tail_fill_after_row_drop:trailing_nan': 0.015, 'all_nan': 0.02, 'rows_dropped': 0.08, 'm=ffill_0': 0.03, 'm=ffill_na': 0.03, 'm=const': 0.08,
                                 'interior_run': 0.2, 'partial_nan_row_2d': 0.08,
                                 'rows>=64': 0.08, 'rows=64|65|100|128': 0.04, 'rows>=200': 0.02, 'nan_run>=32': 0.04, 'limit>=32_and_longer_run': 0.004,
                                 'limit==run_length': 0.04, 'limit==run_length-1': 0.03, 'ix_duplicate_labels': 0.1, 'ix=int_unique': 0.15,
                                 'cols_unsorted': 0.04, 'cols_duplicated': 0.03, 'cols_prefix': 0.03, 'cols_int': 0.03, 'no_nan': 0.015,
                                 'ends_valid_interior_nan': 0.05, 'tail_fill_ends_valid': 0.005, 'm=const_zero': 0.02, 'zero_cell': 0.05,
                                 'limit_with_drop': 0.08, 'tail_fill_trailing_run>limit': 0.005, 'axis0_positional': 0.1, 'noop_with_method': 0.05,
                                 'allnan_column_in_frame': 0.05, 'emptied_before_last_method': 0.001, 'rows=1': 0.008}),
    Sub('nona_fn', _nona_case, run_nona, quick=1200, thorough=4000,
        rule='the same vectors / frames / index and column variants through nona(x) (edge None on every object; edge 1 / -1 on the pandas objects with unique '
             'labels). Oracle: exactly the all-NaN rows go (edge 1: only those after the last valid row, edge -1: only those before the first), labels kept, '
             'array == .values, argument unchanged. non-trivial = the input has an all-NaN row or is empty',
        floor=0.3, class_floors={'edge_keeps_allnan_rows': 0.05, 'allnan_row_2d': 0.1, 'rows_dropped': 0.3, 'rows>=64': 0.08, 'ix_duplicate_labels': 0.05,
                                 'ix=int_unique': 0.1, 'cols_duplicated': 0.015, 'nothing_to_drop': 0.03}),
    Sub('const_limit', _const_limit_case, run_const_limit, quick=1200, thorough=3000,
        rule='the same vectors / frames / index and column variants with a numeric constant under limit 1/2/3 - alone (bare or in a list) or in a list of 2-3 '
             'with ffill/bfill/other constants. Oracle (deliberately not: which NaN get filled): the ndarray result equals the .values of all three pandas '
             'results cell for cell, non-NaN cells unchanged, every filled cell is a constant of the list (or a value of its column when the list also fills), '
             'shape / index / columns kept, arguments unmodified. non-trivial = more NaN than limit',
        floor=0.3, class_floors={'limit_left_nan_unfilled': 0.3, 'single_constant_bare': 0.1, 'single_constant_in_list': 0.1,
                                 'constant_with_ffill_or_bfill': 0.05, 'ncols>1': 0.1, 'm=const_zero': 0.1}),
    EnumSub('vec_enum', enum_vectors, run_fillna, thorough_only=True, chunks=64,
            rule='every NaN pattern of every vector length 0-%i (position-coded values) x every program: 7 single methods, 25 ordered pairs of '
                 'ffill/bfill/constant/nona/fnna, 10 pairs headed by ffill_na/ffill_0, x limit None/1/2/3 (constant only with None); same oracle as fillna'
                 % ENUM_MAXLEN),
]

SUBS[0].qshards = 8     # quick tier: 8 processes x 750 cases (the runner reads this attribute)
