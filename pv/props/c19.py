# -*- coding: utf-8 -*-
"""
C19 - container lifting (loop / loops) maps leaf-wise, preserves shape and container types, matches same-shape companions;
zipper / lens broadcasting; as_list / as_tuple idempotent normalisers; waiter independent of completion order.
"""
import asyncio
import itertools

from hypothesis import strategies as st

from pv.core import Sub, EnumSub, Violation, call, call_or, must_raise, check, short

ASSUMPTIONS = [
    'containers are list / tuple / dict / Dict / dictattr with string keys or (homogeneous) integer keys (what loop(list, tuple, dict) lifts over), depth <= 4, container sizes 0-3; "same shape" includes the key order of dicts',
    'different-shape companions are flat lists of 0-5 scalars (matched wherever a list / tuple of exactly that length sits, broadcast elsewhere), or dicts with scalar values over foreign keys or over any subset of the key alphabet (matched where the key sets coincide, broadcast elsewhere): the documented '
    '"re-match deeper" rule of _item_by_i/_item_by_key then cannot fire by accident and plain broadcasting is the only reading',
    'same-shape companions mirror the structure to depth k and are scalars below; no companion is named "axis" (a keyword the decorator consumes)',
    'replace(): `old` is one character or a list of 4-5 single characters not contained in `new`; split(): `sep` is a non-empty string',
    'as_tuple idempotence is claimed on values whose elements are not lists: as_tuple(([[3]],)) unwraps one level per call by design of the *args idiom',
    'zipper arguments: scalars, strings (scalars to zipper), lists/tuples; no dicts/sets',
    'waiter: awaitables are asyncio futures or coroutines awaiting one; the harness resolves futures in the generated order with sleep(0) between',
]

_leaf = st.one_of(st.integers(0, 9), st.sampled_from(['p', 'q', 'Rs', ' t ']), st.none(), st.sampled_from([0.5, 1.25]))
_KEYS = ['a', 'b', 'c']
_CTAGS = ['list', 'tuple', 'dict', 'Dict', 'dictattr']


def _node(children):
    return st.one_of(
        st.lists(children, max_size=3).map(lambda v: ['list', v]),
        st.lists(children, max_size=3).map(lambda v: ['tuple', v]),
        st.sampled_from(['dict', 'dict', 'Dict', 'dictattr']).flatmap(
            lambda t: st.lists(st.tuples(st.sampled_from(_KEYS), children).map(list), max_size=3, unique_by=lambda kv: kv[0]).map(lambda v, t=t: [t, v])))


@st.composite
def _tree(draw, d, leaf=None):
    """a structure of depth exactly d (for d >= 1 one child is forced to depth d-1; containers may otherwise be empty)"""
    leaf = leaf or _leaf
    if d == 0:
        return ['leaf', draw(leaf)]
    n = draw(st.integers(1, 3))
    kids = [draw(_tree(d - 1, leaf))] + [draw(_tree(draw(st.integers(0, d - 1)), leaf)) for _ in range(n - 1)]
    pos = draw(st.integers(0, n - 1))
    kids[0], kids[pos] = kids[pos], kids[0]
    t = draw(st.sampled_from(['list', 'list', 'tuple', 'dict', 'dict', 'Dict', 'dictattr']))
    if t in ('list', 'tuple'):
        return [t, kids]
    # integer keys whose numeric order differs from their string order (2 < 10 but '10' < '2') in a share of the dicts
    keys = draw(st.permutations(draw(st.sampled_from([_KEYS, _KEYS, _KEYS, [2, 10, 5], [-1, 10, 3]]))))[:n]
    return [t, [[k, v] for k, v in zip(keys, kids)]]


_l1 = _node(_leaf.map(lambda x: ['leaf', x]))     # includes empty containers
_structure = st.sampled_from([0, 1, 1, 2, 2, 2, 3, 3, 3, 4]).flatmap(lambda d: _l1 if d == 1 else _tree(d))


def build(s):
    t = s[0]
    if t == 'leaf':
        return s[1]
    if t == 'list':
        return [build(x) for x in s[1]]
    if t == 'tuple':
        return tuple(build(x) for x in s[1])
    d = {k: build(x) for k, x in s[1]}
    if t == 'dict':
        return d
    import pyg_base
    return getattr(pyg_base, t)(d)


def depth(s):
    if s[0] == 'leaf':
        return 0
    kids = s[1] if s[0] in ('list', 'tuple') else [x for _, x in s[1]]
    return 1 + max([depth(k) for k in kids], default=0)


def mirror(s, k, fill):
    """companion of the same shape as s down to depth k, scalars `fill(path)` below"""
    def rec(s, k, path):
        if s[0] == 'leaf' or k == 0:
            return ['leaf', fill(path)]
        if s[0] in ('list', 'tuple'):
            return [s[0], [rec(x, k - 1, path + (i,)) for i, x in enumerate(s[1])]]
        return [s[0], [[key, rec(x, k - 1, path + (key,))] for key, x in s[1]]]
    return rec(s, k, ())


# ----------------------------------------------------------------------------- reference model of lifting

def _is_seq(x):
    return isinstance(x, (list, tuple))


def model_lift(f, x, pos, kw):
    """leaf-wise map with element-wise matching of same-length sequences / same-key dicts, broadcast otherwise"""
    if isinstance(x, dict):
        keys = sorted(x.keys())

        def pick(c, key):
            if isinstance(c, dict) and sorted(c.keys()) == keys:
                return c[key]
            return c
        return type(x)({key: model_lift(f, x[key], [pick(c, key) for c in pos], {n: pick(c, key) for n, c in kw.items()}) for key in x.keys()})
    if _is_seq(x):
        n = len(x)

        def pick(c, i):
            if _is_seq(c) and len(c) == n:
                return c[i]
            return c
        return type(x)([model_lift(f, x[i], [pick(c, i) for c in pos], {m: pick(c, i) for m, c in kw.items()}) for i in range(n)])
    return f(x, *pos, **kw)


def same_shape(a, b):
    if type(a) is not type(b):
        return False
    if isinstance(a, dict):
        # same keys in the same order (the structure of an ordered mapping includes its key order), same shape below
        return list(a.keys()) == list(b.keys()) and all(same_shape(a[k], b[k]) for k in a)
    if _is_seq(a):
        return len(a) == len(b) and all(same_shape(i, j) for i, j in zip(a, b))
    return a == b or (a != a and b != b)


@st.composite
def _long_structure(draw):
    """a list / tuple / dict of 40-130 leaves, possibly one level below the top: size-dependent paths of the lifting loop"""
    n = draw(st.sampled_from([40, 64, 65, 100, 130]))
    t = draw(st.sampled_from(['list', 'tuple', 'dict']))
    leaves = [['leaf', i % 7] for i in range(n)]
    node = [t, leaves] if t != 'dict' else ['dict', [['k%03i' % i, l] for i, l in enumerate(leaves)]]
    return node if draw(st.booleans()) else ['list', [node, ['leaf', 'tail']]]


@st.composite
def _lift_case(draw):
    s = draw(st.one_of(*([_structure] * 9 + [_long_structure()])))
    d = depth(s)
    ncomp = draw(st.sampled_from([0, 1, 1, 2, 2]))
    comps = []
    for j in range(ncomp):
        kind = draw(st.sampled_from(['scalar', 'same', 'same', 'same_partial', 'flat_list', 'flat_list', 'other_dict', 'overlap_dict']))
        if kind == 'scalar':
            c = ['leaf', draw(st.sampled_from([100, 'S', None]))]
        elif kind == 'same':
            c = ['mirror', d, j]
        elif kind == 'same_partial':
            c = ['mirror', draw(st.integers(0, max(d - 1, 0))), j]
        elif kind == 'flat_list':
            # any length: where it equals the length of a list / tuple of the structure it is matched there, everywhere else (length 0, 1, ...) broadcast whole
            c = [draw(st.sampled_from(['list', 'tuple'])), [['leaf', v] for v in (lambda k: draw(st.lists(st.integers(50, 59), min_size=k, max_size=k)))(draw(st.sampled_from([0, 1, 1, 1, 2, 3, 4, 5])))]]
        elif kind == 'overlap_dict':
            # any key set over the structure's key alphabet plus a foreign key, scalar values: where it equals a dict's key set it is matched by key,
            # everywhere else (e.g. same size, partly overlapping keys) it must be broadcast whole
            c = [draw(st.sampled_from(['dict', 'Dict'])), [[k, ['leaf', 'o%i:%s' % (j, k)]] for k in draw(st.lists(st.sampled_from(_KEYS + ['x']), min_size=1, max_size=3, unique=True))]]
        else:
            c = ['dict', [[k, ['leaf', draw(st.integers(70, 79))]] for k in draw(st.lists(st.sampled_from(['x', 'y', 'z']), min_size=1, max_size=2, unique=True))]]
        comps.append(dict(kind=kind, spec=c, how=draw(st.sampled_from(['pos', 'pos', 'kw']))))
    first_kw = draw(st.sampled_from([False, False, False, False, False, True]))
    if first_kw:
        for c in comps:
            c['how'] = 'kw'
    # positional companions must precede: a positional second companion requires a positional first one
    if len(comps) == 2 and comps[0]['how'] == 'kw' and comps[1]['how'] == 'pos':
        comps[0]['how'] = 'pos'
    # the defaults the lifted function declares for a and b: strings, or containers as long as / keyed like parts of the structure may be
    return dict(s=s, comps=comps, first_kw=first_kw, defaults=draw(st.sampled_from(['scalars', 'scalars', 'containers', 'containers2'])))


def _leaf_fn(x, a='dA', b='dB'):
    return ('leaf', x, a, b)


def _leaf_fn_c(x, a=('t0', 't1'), b=['l0', 'l1', 'l2']):
    return ('leaf', x, a, b)


def _leaf_fn_c2(x, a={'a': 'A', 'b': 'B'}, b=('u0',)):
    return ('leaf', x, a, b)


_LEAF_FNS = {'scalars': _leaf_fn, 'containers': _leaf_fn_c, 'containers2': _leaf_fn_c2}


def run_lift(spec):
    from pyg_base import loop
    s = spec['s']
    x = build(s)
    names = ['a', 'b']
    pos, kw = [], {}
    kinds = []
    for j, c in enumerate(spec['comps']):
        cs = c['spec']
        if cs[0] == 'mirror':
            cs = mirror(s, cs[1], lambda path, j=j: 'm%i:%s' % (j, '.'.join(map(str, path))))
        v = build(cs)
        kinds.append(c['kind'] + ':' + c['how'])
        if c['how'] == 'pos':
            pos.append(v)
        else:
            kw[names[j]] = v
    leaf_fn = _LEAF_FNS[spec.get('defaults', 'scalars')]
    lifted = loop(list, tuple, dict)(leaf_fn)
    what = 'loop(list,tuple,dict)(f%s)(%s%s%s)' % ('' if leaf_fn is _leaf_fn else ' declared as f(x, a=%r, b=%r)' % leaf_fn.__defaults__, 'x=' if spec['first_kw'] else '', short(x, 150), ''.join(', %s' % short(p, 80) for p in pos) + ''.join(', %s=%s' % (k, short(v, 80)) for k, v in kw.items()))
    if spec['first_kw']:
        res = call(what, lambda: lifted(x=x, **kw))
    else:
        res = call(what, lambda: lifted(x, *pos, **kw))
    exp = model_lift(leaf_fn, x, pos, kw)
    check(same_shape(res, exp), '%s = %s, leaf-wise model says %s', what, res, exp)
    d = depth(s)
    pos_same = any(c['how'] == 'pos' and c['kind'].startswith('same') for c in spec['comps'])
    tags = set()

    def walk(s):
        if s[0] != 'leaf':
            tags.add(s[0])
            for k in (s[1] if s[0] in ('list', 'tuple') else [v for _, v in s[1]]):
                walk(k)
    walk(s)
    cls = ['depth=%i' % d, 'ncomp=%i' % len(spec['comps'])] + kinds + (['first_by_keyword'] if spec['first_kw'] else [])
    lens_seen, keys_seen = set(), set()

    def shapes(s):
        if s[0] in ('list', 'tuple'):
            lens_seen.add(len(s[1]))
            for k in s[1]:
                shapes(k)
        elif s[0] != 'leaf':
            keys_seen.add(tuple(sorted(str(k) for k, _ in s[1])))
            for _, v in s[1]:
                shapes(v)
    shapes(s)
    if leaf_fn is not _leaf_fn:
        unfilled = [nm for i, nm in enumerate(names) if nm not in kw and i >= len(pos)]
        for nm in unfilled:
            dv = leaf_fn.__defaults__[names.index(nm)]
            if (isinstance(dv, (list, tuple)) and len(dv) in lens_seen) or (isinstance(dv, dict) and tuple(sorted(dv)) in keys_seen):
                cls.append('unfilled_container_default_shaped_like_the_data')
                break
    for c, v in zip(spec['comps'], pos + [kw[n] for n in names if n in kw]):
        if c['kind'] == 'flat_list' and len(v) <= 1 and any(l != len(v) for l in lens_seen):
            cls.append('companion_of_length_0_or_1_next_to_longer_sequences')
            break

    def _maxlen(s):
        if s[0] == 'leaf':
            return 0
        kids = s[1] if s[0] in ('list', 'tuple') else [v for _, v in s[1]]
        return max([len(kids)] + [_maxlen(k) for k in kids])
    if _maxlen(s) >= 40:
        cls.append('container_of_40+')
    if d >= 2 and pos_same:
        cls.append('depth>=2_positional_same_shape')
    if len(tags) >= 2:
        cls.append('mixed_container_types')

    def _int_keys(s):
        if s[0] == 'leaf':
            return False
        if s[0] in ('list', 'tuple'):
            return any(_int_keys(k) for k in s[1])
        return any(isinstance(k, int) for k, _ in s[1]) or any(_int_keys(v) for _, v in s[1])
    if _int_keys(s):
        cls.append('integer_dict_keys')
        if any(c['kind'].startswith('same') for c in spec['comps']):
            cls.append('integer_dict_keys_with_same_shape_companion')
    return dict(nt=(d >= 2 and pos_same) or len(tags) >= 2, cls=cls)


# ----------------------------------------------------------------------------- library functions built with loop

_txt_leaf = st.one_of(st.sampled_from(['abc', 'Hello World', ' pad ', 'mIxEd caSe', '', 'a,b;c', 'x  y', '1.5', '2k', '10%', '1,000']), st.integers(0, 3), st.none(), st.sampled_from([0.5, 2.0, 3.14159]))
_t1 = _node(_txt_leaf.map(lambda x: ['leaf', x]))
_txt_structure = st.sampled_from([1, 2, 2, 3, 3]).flatmap(lambda d: _t1 if d == 1 else _tree(d, _txt_leaf))

_FUNCS = ['lower', 'upper', 'strip', 'proper', 'capitalize', 'f12', 'as_float', 'replace', 'split']


@st.composite
def _lib_case(draw):
    s = draw(_txt_structure)
    fn = draw(st.sampled_from(_FUNCS))
    spec = dict(s=s, fn=fn)
    if fn == 'replace':
        spec['old'] = draw(st.one_of(st.sampled_from(['a', 'l', ' ', ',']), st.lists(st.sampled_from(['a', 'l', ' ', ',', ';', 'o']), min_size=4, max_size=5, unique=True)))
        spec['new'] = draw(st.sampled_from([None, '_', 'Z']))
    if fn == 'split':
        spec['sep'] = draw(st.sampled_from([' ', ',', 'l']))
        spec['dedup'] = draw(st.booleans())
    return spec


def _py(fn, spec):
    """independent semantics at a string leaf where python has the method; None = no independent anchor"""
    if fn in ('lower', 'upper', 'strip', 'capitalize'):
        return lambda v: getattr(v, fn)() if isinstance(v, str) else v
    if fn == 'f12':
        return lambda v: ('%1.2f' % v) if isinstance(v, float) else v
    if fn == 'replace':
        olds = spec['old'] if isinstance(spec['old'], list) else [spec['old']]
        new = spec['new'] or ''
        return lambda v: ''.join(new if ch in olds else ch for ch in v) if isinstance(v, str) else v
    if fn == 'split':
        def sp(v):
            if not isinstance(v, str):
                return v
            words = v.split(spec['sep'])
            return [w for w in words if w] if spec['dedup'] else words
        return sp
    return None


def run_lib(spec):
    import pyg_base
    s = spec['s']
    fn = spec['fn']
    x = build(s)
    F = getattr(pyg_base, fn)
    if fn == 'replace':
        g = lambda v: F(v, spec['old'], spec['new'])
        what = 'replace(%s, %r, %r)' % (short(x, 150), spec['old'], spec['new'])
    elif fn == 'split':
        g = lambda v: F(v, spec['sep'], spec['dedup'])
        what = 'split(%s, %r, %r)' % (short(x, 150), spec['sep'], spec['dedup'])
    else:
        g = F
        what = '%s(%s)' % (fn, short(x, 150))
    res = call(what, g, x)
    # (1) lifting law: F(structure) == structure with F applied to each leaf on its own
    exp = model_lift(lambda v: call('%s on leaf %r' % (fn, v), g, v), x, [], {})
    check(same_shape(res, exp), '%s = %s but applying it leaf by leaf gives %s', what, res, exp)
    # (2) anchor at the leaves
    py = _py(fn, spec)
    if py is not None:
        exp2 = model_lift(py, x, [], {})
        check(same_shape(res, exp2), '%s = %s but the python string method at string leaves gives %s', what, res, exp2)
    d = depth(s)
    return dict(nt=d >= 2, cls=['fn=' + fn, 'depth=%i' % d])


# ----------------------------------------------------------------------------- zipper / lens

_zarg = st.one_of(st.integers(0, 9).map(lambda v: ['scalar', v]), st.sampled_from(['s', 'str']).map(lambda v: ['scalar', v]), st.just(['scalar', None]),
                  st.tuples(st.sampled_from(['list', 'tuple']), st.lists(st.integers(0, 9), max_size=4)).map(list),
                  st.tuples(st.sampled_from(['list', 'tuple']), st.lists(st.integers(0, 9), min_size=2, max_size=4)).map(list))


def run_zipper(spec):
    from pyg_base import zipper, lens
    args = [a[1] if a[0] in ('scalar', 'list') else tuple(a[1]) for a in spec]
    lengths = [len(a[1]) if a[0] != 'scalar' else None for a in spec]
    seq = set(l for l in lengths if l is not None and l != 1)
    what = 'zipper(%s)' % ', '.join(short(a, 40) for a in args)
    if len(seq) > 1:
        must_raise(what, ValueError, lambda: list(zipper(*args)))
        if all(l is not None for l in lengths):
            must_raise(what.replace('zipper', 'lens'), ValueError, lens, *args)
        return dict(nt=True, cls=['mismatch_raises', 'nargs=%i' % len(args)])
    n = list(seq)[0] if seq else (1 if args else 0)
    res = call(what, lambda: list(zipper(*args)))
    if not args:
        exp = []
    else:
        exp = [tuple(a if l is None else (a[0] if l == 1 else a[i]) for a, l in zip(args, lengths)) for i in range(n)]
    check(res == exp, '%s = %s, expected %s', what, res, exp)
    if args and all(l is not None for l in lengths):    # lens is documented on sequences only (zipper wraps scalars before calling it)
        ln = call(what.replace('zipper', 'lens'), lens, *args)
        check(ln == n, '%s = %s, expected %s', what.replace('zipper', 'lens'), ln, n)
    bc = any(l in (None, 1) for l in lengths) and n > 1
    return dict(nt=bool(bc or n == 0 and args), cls=['broadcast' if bc else 'no_broadcast', 'nargs=%i' % len(args), 'n=%i' % min(n, 2)])


# ----------------------------------------------------------------------------- as_list / as_tuple

_al_scalar = st.one_of(st.integers(0, 5), st.sampled_from(['s', 'tu']), st.none().map(lambda _: 0))
_al_el_nolist = st.one_of(_al_scalar.map(lambda v: ['leaf', v]), st.lists(_al_scalar.map(lambda v: ['leaf', v]), max_size=2).map(lambda v: ['tuple', v]))
_al_el = st.one_of(_al_el_nolist, st.lists(_al_scalar.map(lambda v: ['leaf', v]), max_size=2).map(lambda v: ['list', v]))


@st.composite
def _al_case(draw):
    kind = draw(st.sampled_from(['none', 'scalar', 'str', 'list', 'tuple', 'tuple1list', 'range', 'dict', 'keys', 'values']))
    els = draw(st.lists(_al_el, max_size=3))
    els_nolist = draw(st.lists(_al_el_nolist, max_size=3))
    return dict(kind=kind, els=els, els_nolist=els_nolist, n=draw(st.integers(0, 3)), v=draw(st.integers(0, 5)))


def run_as_list(spec):
    from pyg_base import as_list, as_tuple
    kind = spec['kind']
    cls = ['kind=' + kind]
    for fname, f, conv, els in (('as_list', as_list, list, spec['els']), ('as_tuple', as_tuple, tuple, spec['els_nolist'])):
        items = [build(e) for e in els]
        if kind == 'none':
            x, exp = None, []
        elif kind == 'scalar':
            x, exp = spec['v'], [spec['v']]
        elif kind == 'str':
            x, exp = 'text', ['text']
        elif kind == 'list':
            x, exp = list(items), list(items)
        elif kind == 'tuple':
            x = tuple(items)
            exp = list(items[0]) if len(items) == 1 and isinstance(items[0], list) else list(items)
        elif kind == 'tuple1list':
            x, exp = (list(items),), list(items)
        elif kind == 'range':
            x, exp = range(spec['n']), list(range(spec['n']))
        elif kind == 'dict':
            x = {'k%i' % i: i for i in range(spec['n'])}
            exp = [x]
        elif kind == 'keys':
            d = {'k%i' % i: i for i in range(spec['n'])}
            x, exp = d.keys(), list(d.keys())
        else:
            d = {'k%i' % i: i for i in range(spec['n'])}
            x, exp = d.values(), list(d.values())
        what = '%s(%s)' % (fname, short(x, 100))
        r1 = call(what, f, x)
        check(type(r1) is conv, '%s returned a %s', what, type(r1).__name__)
        check(list(r1) == exp and all(type(a) is type(b) for a, b in zip(r1, exp)), '%s = %s, expected the elements %s', what, r1, exp)
        r2 = call('%s(%s)' % (fname, short(r1, 100)), f, r1)
        check(type(r2) is conv and list(r2) == list(r1) and all(type(a) is type(b) for a, b in zip(r1, r2)), '%s is not idempotent: %s then %s', fname, r1, r2)
    return dict(nt=kind in ('tuple', 'tuple1list', 'list', 'keys', 'values', 'range'), cls=cls)


# ----------------------------------------------------------------------------- waiter

def _w_node(children):
    return st.one_of(
        st.lists(children, max_size=3).map(lambda v: ['list', v]),
        st.lists(children, max_size=3).map(lambda v: ['tuple', v]),
        st.sampled_from(['dict', 'Dict']).flatmap(
            lambda t: st.lists(st.tuples(st.sampled_from(_KEYS), children).map(list), max_size=3, unique_by=lambda kv: kv[0]).map(lambda v, t=t: [t, v])))


_w_leaf = st.one_of(st.integers(0, 5).map(lambda v: ['leaf', v]), st.just(['fut']), st.just(['fut']), st.just(['coro']))
_w1 = _w_node(_w_leaf)
_w2 = _w_node(st.one_of(_w_leaf, _w1))
_w3 = _w_node(st.one_of(_w_leaf, _w1, _w2))


def _count_aw(s):
    if s[0] in ('fut', 'coro'):
        return 1
    if s[0] == 'leaf':
        return 0
    return sum(_count_aw(k) for k in (s[1] if s[0] in ('list', 'tuple') else [v for _, v in s[1]]))


@st.composite
def _waiter_case(draw):
    s = draw(st.one_of(_w1, _w2, _w3, _w_leaf).filter(lambda s: _count_aw(s) <= 6))
    k = _count_aw(s)
    order = draw(st.permutations(list(range(k))))
    return dict(s=s, order=list(order))


def _run_waiter(s, order):
    from pyg_base import waiter

    async def main():
        loop = asyncio.get_running_loop()
        futs = []

        def mk(s):
            t = s[0]
            if t == 'leaf':
                return s[1], s[1]
            if t in ('fut', 'coro'):
                i = len(futs)
                f = loop.create_future()
                futs.append(f)
                if t == 'fut':
                    return f, ('val', i)

                async def co(f=f):
                    v = await f
                    return ('co',) + v
                return co(), ('co', 'val', i)
            if t in ('list', 'tuple'):
                pairs = [mk(x) for x in s[1]]
                conv = list if t == 'list' else tuple
                return conv(p[0] for p in pairs), conv(p[1] for p in pairs)
            pairs = [(k, mk(x)) for k, x in s[1]]
            d1, d2 = {k: p[0] for k, p in pairs}, {k: p[1] for k, p in pairs}
            if t == 'Dict':
                from pyg_base import Dict
                return Dict(d1), Dict(d2)
            return d1, d2
        structure, expected = mk(s)
        task = asyncio.ensure_future(waiter(structure))
        for idx in order:
            await asyncio.sleep(0)
            await asyncio.sleep(0)
            futs[idx].set_result(('val', idx))
        for _ in range(200):
            if task.done():
                break
            await asyncio.sleep(0)
        if not task.done():
            task.cancel()
            raise Violation('waiter did not complete after every awaitable was resolved in order %s (structure %s)' % (order, s))
        return task.result(), expected
    return asyncio.run(main())


def run_waiter(spec):
    s, order = spec['s'], spec['order']
    res, exp = call('waiter(%s) with completion order %s' % (short(s, 150), order), _run_waiter, s, order)
    check(same_shape(res, exp), 'waiter(%s) with completion order %s returned %s, expected %s', s, order, res, exp)
    k = len(order)
    return dict(nt=k >= 2 and order != sorted(order), cls=['awaitables=%i' % k, 'in_creation_order' if order == sorted(order) else 'permuted'])


_W_FIXED = [
    ['list', [['fut'], ['fut'], ['fut']]],
    ['dict', [['a', ['fut']], ['b', ['list', [['fut'], ['leaf', 1], ['coro']]]], ['c', ['fut']]]],
    ['tuple', [['list', [['fut'], ['fut']]], ['dict', [['a', ['coro']], ['b', ['fut']]]], ['leaf', 0], ['fut']]],
    ['list', [['list', [['list', [['fut'], ['fut']]], ['fut']]], ['tuple', [['fut'], ['coro'], ['fut']]]]],
    ['Dict', [['a', ['tuple', [['fut'], ['coro']]]], ['b', ['Dict', [['a', ['fut']], ['c', ['fut']]]]], ['c', ['list', [['fut'], ['leaf', 2], ['coro']]]]]],
    ['list', [['coro'], ['coro'], ['coro'], ['coro'], ['coro'], ['coro']]],
    ['list', [['fut'], ['dict', [['a', ['fut']], ['b', ['dict', [['a', ['fut']], ['b', ['tuple', [['fut'], ['fut'], ['fut']]]]]]]]]]],
]


def enum_waiter(tier):
    cases = []
    for s in _W_FIXED:
        k = _count_aw(s)
        for perm in itertools.permutations(range(k)):
            cases.append(dict(s=s, order=list(perm)))

    def chunker(i, nchunks):
        for c in cases[i::nchunks]:
            yield c
    return len(cases), chunker


SUBS = [
    Sub('lift', lambda tier: _lift_case(), run_lift, quick=3000, thorough=20000,
        rule='nested list/tuple/dict/Dict/dictattr structures (depth <= 4) with 0-2 companions (scalar, same shape to full or partial depth, flat list of 0-5 scalars - matched where a sequence of that length sits, broadcast elsewhere, '
             'dict over other keys), each positional or by keyword, first argument positional or by keyword; the lifted function declares a and b with string defaults or with tuple / list / dict defaults as long as (keyed like) parts of the data, which a leaf must receive whole when the caller leaves them out; oracle: recursive leaf-map model, exact container types. '
             'non-trivial = depth >= 2 with a same-shape positional companion, or mixed container types',
        floor=0.2, class_floors={'unfilled_container_default_shaped_like_the_data': 0.08, 'companion_of_length_0_or_1_next_to_longer_sequences': 0.03, 'depth>=2_positional_same_shape': 0.08, 'first_by_keyword': 0.05, 'container_of_40+': 0.03, 'integer_dict_keys_with_same_shape_companion': 0.03}),
    Sub('libfuncs', lambda tier: _lib_case(), run_lib, quick=2500, thorough=15000,
        rule='lower/upper/strip/proper/capitalize/f12/as_float/replace/split on nested structures with string, number and None leaves; oracle: result equals the structure '
             'with the function applied to every leaf on its own, and (where python has the method) the python string method at string leaves. non-trivial = depth >= 2',
        floor=0.3),
    Sub('zipper', lambda tier: st.lists(_zarg, max_size=4), run_zipper, quick=3000, thorough=20000,
        rule='0-4 arguments from scalars, strings, lists/tuples of length 0-4; oracle: zip after broadcasting scalars and length-1 sequences, ValueError iff two lengths '
             'differ and neither is 1; lens returns the common length. non-trivial = broadcasting, mismatch or empty',
        floor=0.2, class_floors={'mismatch_raises': 0.04}),
    Sub('as_list', lambda tier: _al_case(), run_as_list, quick=2000, thorough=10000,
        rule='None, scalars, strings, lists, tuples, 1-tuples holding a list, ranges, dicts, dict views; oracle: element preservation with exact result type and f(f(x)) == f(x)',
        floor=0.3),
    Sub('waiter', lambda tier: _waiter_case(), run_waiter, quick=600, thorough=5000,
        rule='nested structures holding up to 6 futures/coroutines mixed with plain values; a driver resolves the futures in a generated permutation; oracle: same structure '
             'and container types with every awaitable replaced by its result. non-trivial = >= 2 awaitables resolved out of creation order',
        floor=0.05),      # the spec space is small: in the thorough tier most cases repeat earlier ones, so the distinct share is low
    EnumSub('waiter_all_orders', enum_waiter, run_waiter, chunks=16,
            rule='7 fixed structures with 3-6 awaitables x every completion order (exhaustive over the permutations)'),
]
