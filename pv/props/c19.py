# -*- coding: utf-8 -*-
"""
C19 - container lifting (loop / loops) maps leaf-wise, preserves shape and container types, matches same-shape companions;
zipper / lens broadcasting; as_list / as_tuple idempotent normalisers; waiter independent of completion order.
"""
import asyncio
import collections
import copy
import functools
import itertools
import json
import os

from hypothesis import strategies as st

from pv.core import Sub, EnumSub, Violation, call, call_or, must_raise, check, short

ASSUMPTIONS = [
    'containers are list / tuple / dict / Dict / dictattr with string keys (the empty string among them) or numeric keys that sort (small integers including 0, integers beyond 2**53, integers next to one float) - what loop(list, tuple, dict) lifts over, depth <= 4, container sizes 0-3; "same shape" includes the key order of dicts',
    'a companion dict whose numeric keys are EQUAL to the keys of the looped dict but of another numeric type (2.0 or numpy.int64(2) for 2) has the same keys (python dict semantics: they address the same entries) and is matched by key',
    'strings of any length are scalars (broadcast whole, never matched character by character) - the text helpers rely on it (sep = ", ")',
    'different-shape companions are flat lists of 0-5 scalars (matched wherever a list / tuple of exactly that length sits, broadcast elsewhere), or dicts with scalar values over foreign keys or over any subset of the key alphabet (matched where the key sets coincide, broadcast elsewhere): the documented '
    '"re-match deeper" rule of _item_by_i/_item_by_key then cannot fire by accident and plain broadcasting is the only reading',
    'same-shape companions mirror the structure to depth k and are scalars below (or are the operand object itself); no companion is named "axis" (a keyword the decorator consumes)',
    'lifted functions are pure and of the shapes f(x, a=, b=), f(y, a=, b=), f(x, *, a=, b=), f(x, *rest), f(x, **kw), f(*a, **kw); a function without a named first parameter receives the structure positionally (there is no name to pass it by)',
    'a lifted function may carry __wrapped__ (the outer function of a functools.wraps decorator; the inner function takes a leading argument more, or names its first parameter differently): the signature that python binds a call to is the outer one, '
    'so the structure is passed by the OUTER name of the first parameter and the companions by the outer names a / b; the result is judged by the same leaf-wise model as for a plain function',
    'a lifted functools.partial(f(x, a=, b=), b=value): the bound value belongs to the function, it is not a "further argument" of the call - every leaf receives it whole (also a list as long as the data) unless the caller passes b, which python allows by keyword only',
    'a declared default that the caller passes explicitly IS a further argument (a container default is then matched element by element / by key where it fits); scalar companions and elements of flat companions may be falsy (0, "", False, 0.0, None)',
    'library functions with optional arguments left out (replace without new, split without dedup / without sep and dedup) are judged by the documented defaults new=None, sep=" ", dedup=False',
    'replace(): `old` is a string of 1-2 characters or a list / tuple of 1-5 single characters, none contained in `new` (a list as long as a list / tuple of the structure is matched element by element there, like any companion); split(): `sep` is a non-empty string of 1-2 characters or a list / tuple of 1-3 single characters; '
    'the python-string-method anchor is applied where old / sep are single characters broadcast whole, the leaf-by-leaf lifting law everywhere',
    'as_tuple idempotence is claimed on values whose elements are not lists: as_tuple(([[3]],)) unwraps one level per call by design of the *args idiom',
    'zipper arguments: scalars, strings (scalars to zipper), lists / tuples / ranges / 1-d numpy arrays; no dicts/sets; lens is called when every argument is a sequence',
    'waiter: awaitables are asyncio futures (possibly the same future object at several places)  or coroutines awaiting one; the harness resolves futures in the generated order with sleep(0) between; '
    'a second waiter call on the same structure is made only when it holds no coroutine objects (python forbids awaiting those twice)',
    'waiter, enforced orders: "whatever order the awaitables complete in" includes orders that the awaitables impose themselves - coroutine objects (run by nobody but waiter) each waiting for an event that the completion of its predecessor '
    'in the order sets; nothing depends on time, so "waiter does not return" is decided by a bounded number of event-loop turns (2000; a concurrent waiter needs < 100 for 6 awaitables at depth 5)',
    'instances of DERIVED container classes (class 35 of the brief; lift, lift_session, libfuncs, waiter: a user subclass of list, of tuple, of dict, of pyg_base.Dict, collections.OrderedDict - at the root and below it, and as flat companions): '
    'collections.OrderedDict is looped over / matched like dict (the loop factory adds it to dict together with Dict and dictattr - the anchor "loop factory adding dict subclasses"); whether an instance of a USER subclass is one of the types '
    'loop(list, tuple, dict) "was asked to loop over" the statement does not say (the library loops over subclasses of list / tuple, applies the function to a subclass of dict whole, and matches companions of all of them): both readings are accepted - '
    'it is a list / tuple / dict (mapped leaf-wise into the SAME class; a companion matched by position / key) or a scalar (the function applied to it whole; a companion broadcast whole) - but ONE reading per call, class and role (operand / companion), and the result must equal the model under it exactly (nothing lost, duplicated or re-typed). '
    'waiter likewise: a container of a derived class (OrderedDict included - waiter has no factory) comes back as the same class with every awaitable replaced, or as it is',
    'zipper: instances of subclasses of list / tuple (a namedtuple among them) are sequences like their bases (zipped, length 1 broadcast, ValueError on a length mismatch): "equal-length sequences" names no exact type. as_list / as_tuple were not widened to derived classes in this pass',
    'finding F41 (fixed in /repo, replay replays/C19/F41-*.json; generated by default, left out only with PV_C19_EXCLUDE_FIXED=1): namedtuples inside lifted structures / waiter structures - before the fix a TypeError for 2+ fields, a 1-field namedtuple came back holding a list',
    'sessions (several calls on the same objects) judge every call by the ORIGINAL content of the operands: the statement maps "the original leaves", a callee that edits its arguments breaks the later calls; '
    'between two calls the harness itself may write ONE leaf cell of a list / dict of the operand (or of a flat list / dict companion) in place - shapes unchanged - and the later calls are judged by that current content (an answer remembered per object would be stale); not done where one container object sits at two places',
]

# F41, fixed in /repo (rebuilt through _make) (class 35, found by the derived-class widening): before the fix a namedtuple of 2+ fields anywhere in the operand (or as a companion of another length) makes loop(list, tuple, dict)(f),
# the lifted library functions and waiter raise TypeError, a namedtuple of ONE field comes back holding a LIST of its mapped elements: they rebuild containers by
# type(arg)(res) (_loop.py:238, _loop.py:79, _waiter.py:54), the constructor of a namedtuple takes its fields one by one. Generated by default now.
INCLUDE_NAMEDTUPLE = os.environ.get('PV_C19_EXCLUDE_FIXED', '') != '1'


class UList(list):
    """a user subclass of list"""


class UTuple(tuple):
    """a user subclass of tuple"""


class UDict(dict):
    """a user subclass of dict"""


_NT = {n: collections.namedtuple('NT%i' % n, ['f%i' % i for i in range(n)]) for n in range(6)}
_LAZY = {}


def _UDictOfDict():
    """a user subclass of pyg_base.Dict (made once, on first use: pyg_base is imported lazily everywhere in this module)"""
    if 'cls' not in _LAZY:
        from pyg_base import Dict

        class UDictOfDict(Dict):
            pass
        _LAZY['cls'] = UDictOfDict
    return _LAZY['cls']


# derived tag -> the tag of the class it derives from; the sequence tags; family (what ONE reading is demanded for) of the derived classes whose treatment the statement does not fix
_DERIVED = {'ulist': 'list', 'utuple': 'tuple', 'ntuple': 'tuple', 'OrderedDict': 'dict', 'udict': 'dict', 'uDict': 'Dict'}
_SEQ_TAGS = ('list', 'tuple', 'ulist', 'utuple', 'ntuple')
_TUPLE_TAGS = ('tuple', 'utuple', 'ntuple')


def _family(x):
    """None for list / tuple / dict and what the loop factory adds to dict (OrderedDict, Dict, dictattr): these ARE looped over. For an instance of another derived class the family
    whose reading (is it one of the types to loop over / to match, or a scalar?) the statement leaves open"""
    if isinstance(x, UList):
        return 'ulist'
    if isinstance(x, UTuple):
        return 'utuple'
    if isinstance(x, tuple) and hasattr(type(x), '_fields'):
        return 'ntuple'
    if isinstance(x, UDict) or ('cls' in _LAZY and isinstance(x, _LAZY['cls'])):
        return 'udict'
    return None


def _families(x, out):
    fam = _family(x)
    if fam:
        out.add(fam)
    for v in (x.values() if isinstance(x, dict) else x if isinstance(x, (list, tuple)) else ()):
        _families(v, out)
    return out


def _readings(x, comps):
    """every consistent reading of the derived classes met in the operand (role 'op') and in the companions (role 'comp'): per role and family 'loop' (counts as the class it derives from) or 'leaf' (a scalar)"""
    keys = sorted([('op', f) for f in _families(x, set())] + [('comp', f) for f in _families(list(comps), set())])
    return [dict(zip(keys, choice)) for choice in itertools.product(['loop', 'leaf'], repeat=len(keys))]


def _retype(x, values):
    """a container of the type of x holding values (a namedtuple takes its fields one by one)"""
    return type(x)(*values) if hasattr(type(x), '_fields') else type(x)(values)


_leaf = st.one_of(st.integers(0, 9), st.sampled_from(['p', 'q', 'Rs', ' t ']), st.none(), st.sampled_from([0.5, 1.25]))
_KEYS = ['a', 'b', 'c']
_BIG_KEYS = [2 ** 53, 2 ** 53 + 1, 7]
_MIXED_KEYS = [0.5, 2 ** 53 + 1, -3]
_CTAGS = ['list', 'tuple', 'dict', 'Dict', 'dictattr']
_FALSY_KEYS = {json.dumps(_KEYS): ['a', '', 'c'], json.dumps([2, 10, 5]): [0, 10, 5], json.dumps([-1, 10, 3]): [-1, 0, 3]}


def _node(children):
    return st.one_of(
        st.lists(children, max_size=3).map(lambda v: ['list', v]),
        st.lists(children, max_size=3).map(lambda v: ['tuple', v]),
        st.sampled_from(['dict', 'dict', 'Dict', 'dictattr']).flatmap(
            lambda t: st.lists(st.tuples(st.sampled_from(_KEYS), children).map(list), max_size=3, unique_by=lambda kv: kv[0]).map(lambda v, t=t: [t, v])))


@st.composite
def _tree(draw, d, leaf=None):
    """a structure of depth exactly d (for d >= 1 one child is forced to depth d-1; containers may otherwise be empty)"""
    leaf = leaf or _leaf
    if d == 0:
        return ['leaf', draw(leaf)]
    n = draw(st.integers(1, 3))
    kids = [draw(_tree(d - 1, leaf))] + [draw(_tree(draw(st.integers(0, d - 1)), leaf)) for _ in range(n - 1)]
    pos = draw(st.integers(0, n - 1))
    kids[0], kids[pos] = kids[pos], kids[0]
    t = draw(st.sampled_from(['list', 'list', 'tuple', 'dict', 'dict', 'Dict', 'dictattr']))
    if t in ('list', 'tuple'):
        return [t, kids]
    # integer keys whose numeric order differs from their string order (2 < 10 but '10' < '2') in a share of the dicts
    # ... and, in a smaller share, numeric keys a vectorised sort would mangle: integers beyond 2**53, integers next to a float
    base = draw(st.sampled_from([_KEYS, _KEYS, _KEYS, _KEYS, [2, 10, 5], [-1, 10, 3], _BIG_KEYS, _MIXED_KEYS]))
    # ... and in a fifth of the string / small-integer alphabets one key is falsy ('' or 0): still strings / small integers that sort
    if draw(st.sampled_from([True, False, False, False, False])):
        base = _FALSY_KEYS.get(json.dumps(base), base)
    keys = draw(st.permutations(base))[:n]
    return [t, [[k, v] for k, v in zip(keys, kids)]]


_l1 = _node(_leaf.map(lambda x: ['leaf', x]))     # includes empty containers

# families of derived classes a case may hold instances of (class 35 of the brief): a user subclass of list, of tuple, of dict / pyg_base.Dict, collections.OrderedDict (which the loop factory
# adds to dict itself), and - behind INCLUDE_NAMEDTUPLE - namedtuples
_DERIVE_SETS = [['ulist'], ['utuple'], ['udict'], ['OrderedDict'], ['OrderedDict'], ['ulist', 'udict'], ['utuple', 'OrderedDict'], ['ulist', 'utuple', 'OrderedDict'], ['udict', 'OrderedDict']]


def _containers(s, out=None):
    """the container nodes of a spec tree (the node lists themselves), root first"""
    out = [] if out is None else out
    if s[0] != 'leaf':
        out.append(s)
        for k in (s[1] if s[0] in _SEQ_TAGS else [v for _, v in s[1]]):
            _containers(k, out)
    return out


@st.composite
def _derive(draw, s, root=None):
    """the structure s with some of its containers made instances of DERIVED classes (by construction at least one, where s has a container): list -> UList, tuple -> UTuple (or a namedtuple),
    dict -> OrderedDict / UDict, Dict -> a user subclass of Dict. root=True: the root is among them"""
    s = copy.deepcopy(s)
    nodes = _containers(s)
    if not nodes:
        return s
    sets = _DERIVE_SETS + ([['ntuple'], ['ntuple'], ['ntuple', 'udict']] if INCLUDE_NAMEDTUPLE else [])
    present = set(n[0] for n in nodes)
    fits = lambda fam: _DERIVED[fam] in present or (fam == 'udict' and 'Dict' in present)
    usable = [fs for fs in sets if any(fits(f) for f in fs)]
    if root is None:
        root = draw(st.sampled_from([False, False, True]))
    if root:
        usable = [fs for fs in usable if any(_DERIVED[f] == nodes[0][0] or (f == 'udict' and nodes[0][0] == 'Dict') for f in fs)] or usable
    if not usable:
        return s                                             # a structure of dictattr only: nothing derives from it here
    fams = draw(st.sampled_from(usable))
    cands = [n for n in nodes if any(_DERIVED[f] == n[0] or (f == 'udict' and n[0] == 'Dict') for f in fams)]
    forced = 0 if (root and cands[0] is nodes[0]) else draw(st.integers(0, len(cands) - 1))
    for i, n in enumerate(cands):
        if i == forced or draw(st.booleans()):
            options = [f for f in fams if (_DERIVED[f] == n[0] or (f == 'udict' and n[0] == 'Dict')) and (f != 'ntuple' or len(n[1]) in _NT)]
            if options:
                f = draw(st.sampled_from(options))
                n[0] = 'uDict' if f == 'udict' and n[0] == 'Dict' else f
    return s


def _derive_comp(draw, c, lens=()):
    """a flat list / tuple / dict companion as an instance of a derived class (a sequence in half of the cases as long as a list / tuple of the structure)"""
    cs = c['spec']
    fit = [l for l in lens if 1 <= l <= 5]
    if cs[0] in ('list', 'tuple') and fit and draw(st.booleans()):
        cs[1] = [['leaf', 50 + i] for i in range(draw(st.sampled_from(fit)))]
    if cs[0] in ('list', 'tuple'):
        cs[0] = draw(st.sampled_from(['ulist', 'utuple'] + (['ntuple'] if INCLUDE_NAMEDTUPLE else [])))
    elif cs[0] in ('dict', 'Dict'):
        cs[0] = draw(st.sampled_from(['OrderedDict', 'udict', 'uDict' if cs[0] == 'Dict' else 'udict']))
_structure = st.sampled_from([0, 1, 1, 2, 2, 2, 3, 3, 3, 4]).flatmap(lambda d: _l1 if d == 1 else _tree(d))


def build(s, memo=None):
    """memo (a dict) = build structurally equal sub-containers ONCE: the same object then sits at several places of the structure"""
    t = s[0]
    if t == 'leaf':
        return s[1]
    if memo is not None:
        tok = json.dumps(s)
        if tok in memo:
            return memo[tok]
    if t == 'list':
        r = [build(x, memo) for x in s[1]]
    elif t == 'tuple':
        r = tuple(build(x, memo) for x in s[1])
    elif t == 'ulist':
        r = UList(build(x, memo) for x in s[1])
    elif t == 'utuple':
        r = UTuple(build(x, memo) for x in s[1])
    elif t == 'ntuple':
        r = _NT[len(s[1])](*[build(x, memo) for x in s[1]])
    else:
        r = {k: build(x, memo) for k, x in s[1]}
        if t == 'OrderedDict':
            r = collections.OrderedDict(r)
        elif t == 'udict':
            r = UDict(r)
        elif t == 'uDict':
            r = _UDictOfDict()(r)
        elif t != 'dict':
            import pyg_base
            r = getattr(pyg_base, t)(r)
    if memo is not None:
        memo[tok] = r
    return r


def _conv_key(k, conv):
    """the same number in another raw type: 2 -> 2.0 / numpy.int64(2). Only where the value is exactly representable, and never numpy integers next to floats in one
    dict: numpy compares int64 with float64 after rounding (numpy.int64(2**53 + 1) == 2.0**53), so such a key set would not be the operand's key set any more"""
    if conv in (None, 'none') or isinstance(k, bool) or not isinstance(k, int):
        return k
    if conv == 'float':
        return float(k) if abs(k) <= 2 ** 53 else k
    import numpy as np
    return np.int64(k)


def depth(s):
    if s[0] == 'leaf':
        return 0
    kids = s[1] if s[0] in _SEQ_TAGS else [x for _, x in s[1]]
    return 1 + max([depth(k) for k in kids], default=0)


def mirror(s, k, fill, conv=None, seen=None):
    """companion of the same shape as s down to depth k, scalars `fill(path)` below; conv: numeric dict keys in another raw type (seen[0] = some key was converted)"""
    def rec(s, k, path):
        if s[0] == 'leaf' or k == 0:
            return ['leaf', fill(path)]
        if s[0] in _SEQ_TAGS:
            return [s[0], [rec(x, k - 1, path + (i,)) for i, x in enumerate(s[1])]]
        out = []
        for key, x in s[1]:
            ck = _conv_key(key, conv)
            if seen is not None and type(ck) is not type(key):
                seen[0] = True
            out.append([ck, rec(x, k - 1, path + (key,))])
        return [s[0], out]
    return rec(s, k, ())


# ----------------------------------------------------------------------------- reference model of lifting

def _is_seq(x):
    return isinstance(x, (list, tuple))


def model_lift(f, x, pos, kw, reading=None):
    """leaf-wise map with element-wise matching of same-length sequences / same-key dicts, broadcast otherwise.
    reading: {(role, family): 'loop' | 'leaf'} for the instances of derived classes whose treatment the statement leaves open (see _family): an operand ('op') read as 'leaf' is a scalar
    the function is applied to whole, a companion ('comp') read as 'leaf' is broadcast whole"""
    reading = reading or {}
    scalar = lambda role, v: reading.get((role, _family(v)), 'loop') == 'leaf'
    if scalar('op', x):
        return f(x, *pos, **kw)
    if isinstance(x, dict):
        keys = sorted(x.keys())

        def pick(c, key):
            if isinstance(c, dict) and not scalar('comp', c) and sorted(c.keys()) == keys:
                return c[key]
            return c
        return type(x)({key: model_lift(f, x[key], [pick(c, key) for c in pos], {n: pick(c, key) for n, c in kw.items()}, reading) for key in x.keys()})
    if _is_seq(x):
        n = len(x)

        def pick(c, i):
            if _is_seq(c) and not scalar('comp', c) and len(c) == n:
                return c[i]
            return c
        return _retype(x, [model_lift(f, x[i], [pick(c, i) for c in pos], {m: pick(c, i) for m, c in kw.items()}, reading) for i in range(n)])
    return f(x, *pos, **kw)


def _show(x):
    """repr that names the classes of containers which are not plain list / tuple / dict (a UList prints like a list)"""
    if isinstance(x, dict):
        body = '{%s}' % ', '.join('%r: %s' % (k, _show(v)) for k, v in x.items())
        return body if type(x) is dict else '%s(%s)' % (type(x).__name__, body)
    if isinstance(x, list):
        body = '[%s]' % ', '.join(_show(v) for v in x)
        return body if type(x) is list else '%s(%s)' % (type(x).__name__, body)
    if isinstance(x, tuple):
        body = '(%s%s)' % (', '.join(_show(v) for v in x), ',' if len(x) == 1 else '')
        return body if type(x) is tuple else '%s(%s)' % (type(x).__name__, body)
    return repr(x)


def model_lift_any(what, res, f, x, pos, kw, msg='leaf-wise model says', same=None):
    """the call is judged by the leaf-wise model under every consistent reading of the derived classes among its arguments (ONE reading where there are none): it must agree with one of them"""
    readings = _readings(x, list(pos) + list(kw.values()))
    exp = None
    for r in readings:
        e = model_lift(f, x, pos, kw, r)
        exp = e if exp is None else exp
        if (same or same_shape)(res, e):
            return e
    check(False, '%s = %s, %s %s%s', what, _show(res), msg, _show(exp), '' if len(readings) == 1 else ' (and none of the %i consistent readings of the derived classes - each either one of list / tuple / dict or a scalar, operands and companions apart - gives this result)' % len(readings))


def same_shape(a, b):
    if type(a) is not type(b):
        return False
    if isinstance(a, dict):
        # same keys in the same order (the structure of an ordered mapping includes its key order), same shape below
        return list(a.keys()) == list(b.keys()) and all(same_shape(a[k], b[k]) for k in a)
    if _is_seq(a):
        return len(a) == len(b) and all(same_shape(i, j) for i, j in zip(a, b))
    return a == b or (a != a and b != b)


@st.composite
def _long_structure(draw):
    """a list / tuple / dict of 40-130 leaves, possibly one level below the top: size-dependent paths of the lifting loop"""
    n = draw(st.sampled_from([40, 64, 65, 100, 130]))
    t = draw(st.sampled_from(['list', 'tuple', 'dict']))
    leaves = [['leaf', i % 7] for i in range(n)]
    node = [t, leaves] if t != 'dict' else ['dict', [['k%03i' % i, l] for i, l in enumerate(leaves)]]
    return node if draw(st.booleans()) else ['list', [node, ['leaf', 'tail']]]


_SCALAR_COMPS = [100, 'S', None, 'pq', 'xyz']       # strings of length 2-3: as long as the sequences of the structure, still scalars
_FALSY_COMPS = [0, '', False, 0.0]                  # falsy scalars that are not None: a companion like any other
_FALSY_ELEMENTS = [0, '', False, None]              # ... and as elements of a flat companion


@st.composite
def _comp(draw, d, j, lens=()):
    """one companion argument for a structure of depth d (j = its position among the companions); lens = the lengths of the lists / tuples of the structure"""
    kind = draw(st.sampled_from(['scalar', 'same', 'same', 'same_partial', 'flat_list', 'flat_list', 'other_dict', 'overlap_dict']))
    if kind == 'scalar':
        # ... in a share of the cases a string exactly as long as some list / tuple of the structure
        c = ['leaf', draw(st.sampled_from(_SCALAR_COMPS + [v for v in ('pq', 'xyz') if len(v) in lens] * 3))]
        if draw(st.sampled_from([True] + [False] * 5)):
            c = ['leaf', draw(st.sampled_from(_FALSY_COMPS))]       # ... in a sixth of them a falsy scalar that is not None
    elif kind == 'same':
        # the full mirror (numeric dict keys as they are, or the same numbers as float / numpy.int64), or the operand OBJECT itself
        c = draw(st.sampled_from([['mirror', d, j], ['mirror', d, j], ['mirror', d, j, 'float'], ['mirror', d, j, 'np'], ['self']]))
    elif kind == 'same_partial':
        c = ['mirror', draw(st.integers(0, max(d - 1, 0))), j] + draw(st.sampled_from([[], [], ['float'], ['np']]))
    elif kind == 'flat_list':
        # any length: where it equals the length of a list / tuple of the structure it is matched there, everywhere else (length 0, 1, ...) broadcast whole
        # (a quarter of the elements are falsy - 0, '', False, None -: elements like any other)
        c = [draw(st.sampled_from(['list', 'tuple'])), [['leaf', v] for v in (lambda k: draw(st.lists(st.one_of(st.integers(50, 59), st.integers(50, 59), st.integers(50, 59), st.sampled_from(_FALSY_ELEMENTS)), min_size=k, max_size=k)))(draw(st.sampled_from([0, 1, 1, 1, 2, 3, 4, 5])))]]
    elif kind == 'overlap_dict':
        # any key set over the structure's key alphabet plus a foreign key, scalar values: where it equals a dict's key set it is matched by key,
        # everywhere else (e.g. same size, partly overlapping keys) it must be broadcast whole
        c = [draw(st.sampled_from(['dict', 'Dict'])), [[k, ['leaf', 'o%i:%s' % (j, k)]] for k in draw(st.lists(st.sampled_from(_KEYS + ['x']), min_size=1, max_size=3, unique=True))]]
    else:
        c = ['dict', [[k, ['leaf', draw(st.integers(70, 79))]] for k in draw(st.lists(st.sampled_from(['x', 'y', 'z']), min_size=1, max_size=2, unique=True))]]
    if draw(st.sampled_from([True] + [False] * 11)):
        # the default the lifted function itself declares for this parameter, passed explicitly: then it is a companion like any other (a container default is matched where its length / keys fit)
        kind, c = 'own_default', ['own_default']
    return dict(kind=kind, spec=c)


# shapes of the lifted function: what each allows for the companions (pos / kw) and for the first argument (by keyword or not)
# 'partial' = functools.partial(f(x, a=, b=), b=<bound value>): a callable that carries an option of its own
_SHAPES = ['std', 'std', 'std', 'std', 'partial', 'y_first', 'kwonly', 'rest', 'kwargs', 'star']
_DEFAULTS = {'scalars': ('dA', 'dB'), 'containers': (('t0', 't1'), ['l0', 'l1', 'l2']), 'containers2': ({'a': 'A', 'b': 'B'}, ('u0',))}
# what the partial binds b to: a string, or a container as long as parts of the data may be (it belongs to the function: every leaf receives it whole unless the caller passes b)
_PARTIAL_BOUND = {'scalars': 'pB', 'containers': ['p0', 'p1'], 'containers2': ('q0', 'q1', 'q2')}


def _effective_defaults(shape, defaults):
    """(value of a, value of b) a leaf receives when the caller passes neither"""
    da, db = _DEFAULTS[defaults]
    return (da, _PARTIAL_BOUND[defaults]) if shape == 'partial' else (da, db)


def _fix_hows(shape, hows, first_kw):
    """the nearest way of passing the companions that python / the shape of the function allows"""
    if shape == 'star':
        first_kw = False                          # f(*a, **kw) has no name for its first argument
    if shape == 'rest':
        first_kw = False                          # positional companions need a positional first argument
    if first_kw or shape in ('kwonly', 'kwargs'):
        hows = ['kw'] * len(hows)
    elif shape == 'rest':
        hows = ['pos'] * len(hows)
    # positional companions must precede: a positional second companion requires a positional first one
    if len(hows) == 2 and hows[0] == 'kw' and hows[1] == 'pos':
        hows = ['pos', 'pos']
    if shape == 'partial' and len(hows) == 2:
        hows = [hows[0], 'kw']                    # b is bound by keyword in the partial: python lets the caller override it by keyword only
    return hows, first_kw


@st.composite
def _shared_structure(draw):
    """ONE container object sitting at two places of the structure (build(..., memo) makes the equal specs one object)"""
    sub = draw(st.sampled_from([1, 1, 2, 2, 3]).flatmap(lambda d: _l1 if d == 1 else _tree(d)))
    other = draw(st.one_of(st.just(None), _leaf.map(lambda v: ['leaf', v])))
    kids = [sub, sub] + ([other] if other is not None else [])
    t = draw(st.sampled_from(['list', 'tuple', 'dict']))
    return [t, kids] if t != 'dict' else ['dict', [[k, v] for k, v in zip(draw(st.permutations(_KEYS)), kids)]]


@st.composite
def _lift_case(draw):
    which = draw(st.sampled_from(['any'] * 17 + ['long'] * 2 + ['shared'] * 2))
    s = draw(_structure if which == 'any' else _long_structure() if which == 'long' else _shared_structure())
    # in an eighth of the cases some containers of the structure are instances of DERIVED classes (UList, UTuple, UDict, a subclass of Dict, OrderedDict), in a third of these the root;
    # in a further twentieth only a flat companion is
    derived = draw(st.sampled_from([None] * 33 + ['structure'] * 5 + ['companion'] * 2))
    if derived == 'structure' and which != 'shared':         # (one container OBJECT at two places is built from two equal specs: these stay equal)
        s = draw(_derive(s))
    d = depth(s)
    lens = sorted(_struct_facts(s)[0])
    ncomp = draw(st.sampled_from([0, 1, 1, 2, 2] if derived != 'companion' else [1, 2]))
    comps = []
    for j in range(ncomp):
        c = draw(_comp(d, j, lens))
        if derived == 'companion' and j == 0 and c['spec'][0] not in ('list', 'tuple', 'dict', 'Dict'):
            c = draw(_comp(d, j, lens).filter(lambda c: c['kind'] in ('flat_list', 'overlap_dict', 'other_dict')))
        if derived and c['spec'][0] in ('list', 'tuple', 'dict', 'Dict') and (draw(st.booleans()) or (derived == 'companion' and j == 0)):
            _derive_comp(draw, c, lens)
        c['how'] = draw(st.sampled_from(['pos', 'pos', 'kw']))
        comps.append(c)
    if ncomp == 2 and draw(st.sampled_from([True] + [False] * 7)):
        comps[1] = dict(kind=comps[0]['kind'], spec=['twin'], how=comps[1]['how'])      # the SAME object as the first companion
    first_kw = draw(st.sampled_from([False, False, False, False, False, True]))
    shape = draw(st.sampled_from(_SHAPES))
    # the defaults the lifted function declares for a and b: strings, or containers as long as / keyed like parts of the structure may be
    # (container defaults more often where a companion is the function's own default passed explicitly, and for the partial)
    defaults = draw(st.sampled_from(['scalars', 'scalars', 'containers', 'containers2'] + (['containers', 'containers2'] * 2 if shape == 'partial' or any(c['kind'] == 'own_default' for c in comps) else [])))
    if shape == 'partial' and draw(st.sampled_from([True, True, True, False])):
        # ... and for the partial mostly the set whose bound value is as long as a list / tuple of the structure, where there is one
        defaults = 'containers' if len(_PARTIAL_BOUND['containers']) in lens else 'containers2' if len(_PARTIAL_BOUND['containers2']) in lens else defaults
    # in a quarter of the cases the function went through a functools.wraps decorator and carries __wrapped__, a function of ANOTHER signature; these are called with the
    # structure passed by keyword more often (where the shape has a name for it)
    wrap = draw(st.sampled_from(_WRAPS))
    if wrap and draw(st.sampled_from([True, False, False])):
        first_kw = True
    hows, first_kw = _fix_hows(shape, [c['how'] for c in comps], first_kw)
    for c, h in zip(comps, hows):
        c['how'] = h
    return dict(s=s, comps=comps, first_kw=first_kw, defaults=defaults, shape=shape, share=which == 'shared', wrap=wrap)


# the lifted function went through a functools.wraps decorator (it carries __wrapped__) and its OWN signature differs from that of the function it wraps:
# 'inject' = the decorator supplies the leading argument of the inner function; 'rename' = the inner function calls its first parameter by another name (and declares a / b in the other order)
_WRAPS = [None] * 6 + ['inject', 'rename']


def _make_leaf_fn(shape, defaults, tag='leaf', model=False, wrap=None):
    """a pure leaf function of the given shape (all of them come out of this ONE factory); the declared defaults are fresh objects for every function made.
    model=True: the reference model's own function - for 'partial' a plain closure with the bound value as its default, no functools.partial object, never decorated.
    wrap: the function of this shape is the outer function of a functools.wraps decorator; what it wraps has another signature (the CALLABLE signature is the outer one: python binds the call to it)"""
    da, db = copy.deepcopy(_DEFAULTS[defaults])
    if model:
        wrap = None
    if shape == 'partial':
        bound = copy.deepcopy(_PARTIAL_BOUND[defaults])
        if model:
            def f(x, a=da, b=bound):
                return (tag, x, a, b)
        else:
            g, inner_sig = _std_fn('x', da, db, tag, wrap)
            f = functools.partial(g, b=bound)
        sig = 'functools.partial(%sf(x, a=%r, b=%r)%s, b=%r)' % ('functools.wraps(%s)(' % inner_sig if wrap else '', da, db, ')' if wrap else '', bound)
        return f, sig
    elif shape == 'std':
        f, inner_sig = _std_fn('x', da, db, tag, wrap)
        sig = 'f(x, a=%r, b=%r)' % (da, db)
    elif shape == 'y_first':
        f, inner_sig = _std_fn('y', da, db, tag, wrap)
        sig = 'f(y, a=%r, b=%r)' % (da, db)
    elif shape == 'kwonly':
        if wrap == 'inject':
            def g(prefix, x, a, b):
                return (prefix, x, a, b)

            def f(x, *, a=da, b=db):
                return g(tag, x, a, b)
            inner_sig = 'g(prefix, x, a, b)'
        elif wrap == 'rename':
            def g(item, *, b=db, a=da):
                return (tag, item, a, b)

            def f(x, *, a=da, b=db):
                return g(x, b=b, a=a)
            inner_sig = 'g(item, *, b=%r, a=%r)' % (db, da)
        else:
            def f(x, *, a=da, b=db):
                return (tag, x, a, b)
        sig = 'f(x, *, a=%r, b=%r)' % (da, db)
    elif shape == 'rest':
        if wrap == 'inject':
            def g(prefix, x, rest):
                return (prefix, x, rest)

            def f(x, *rest):
                return g(tag, x, rest)
            inner_sig = 'g(prefix, x, rest)'
        elif wrap == 'rename':
            def g(item, *others):
                return (tag, item, others)

            def f(x, *rest):
                return g(x, *rest)
            inner_sig = 'g(item, *others)'
        else:
            def f(x, *rest):
                return (tag, x, rest)
        sig = 'f(x, *rest)'
    elif shape == 'kwargs':
        if wrap == 'inject':
            def g(prefix, x, **options):
                return (prefix, x, sorted(options.items()))

            def f(x, **kw):
                return g(tag, x, **kw)
            inner_sig = 'g(prefix, x, **options)'
        elif wrap == 'rename':
            def g(item, **options):
                return (tag, item, sorted(options.items()))

            def f(x, **kw):
                return g(x, **kw)
            inner_sig = 'g(item, **options)'
        else:
            def f(x, **kw):
                return (tag, x, sorted(kw.items()))
        sig = 'f(x, **kw)'
    else:
        if wrap == 'inject':
            def g(prefix, *values, **options):
                return (prefix, values, sorted(options.items()))

            def f(*a, **kw):
                return g(tag, *a, **kw)
            inner_sig = 'g(prefix, *values, **options)'
        elif wrap == 'rename':
            def g(item, *values, **options):
                return (tag, (item,) + values, sorted(options.items()))

            def f(*a, **kw):
                return g(*a, **kw)
            inner_sig = 'g(item, *values, **options)'
        else:
            def f(*a, **kw):
                return (tag, a, sorted(kw.items()))
        sig = 'f(*a, **kw)'
    if wrap:
        if shape not in ('std', 'y_first'):
            f = functools.wraps(g)(f)
        sig = 'functools.wraps(%s)(%s)' % (inner_sig, sig)
    return f, sig


def _std_fn(first, da, db, tag, wrap):
    """f(<first>, a=da, b=db) -> (tag, <first>, a, b), plain or as the outer function of a functools.wraps decorator; returns (f, text of the inner signature or None)"""
    if wrap == 'inject':
        def g(prefix, x, a, b):
            return (prefix, x, a, b)
        inner_sig = 'g(prefix, x, a, b)'
    elif wrap == 'rename':
        def g(item, b=db, a=da):
            return (tag, item, a, b)
        inner_sig = 'g(item, b=%r, a=%r)' % (db, da)
    if first == 'x':
        if wrap == 'inject':
            def f(x, a=da, b=db):
                return g(tag, x, a, b)
        elif wrap == 'rename':
            def f(x, a=da, b=db):
                return g(x, b=b, a=a)
        else:
            def f(x, a=da, b=db):
                return (tag, x, a, b)
    else:
        if wrap == 'inject':
            def f(y, a=da, b=db):
                return g(tag, y, a, b)
        elif wrap == 'rename':
            def f(y, a=da, b=db):
                return g(y, b=b, a=a)
        else:
            def f(y, a=da, b=db):
                return (tag, y, a, b)
    if wrap:
        return functools.wraps(g)(f), inner_sig
    return f, None


def _first_name(shape):
    return 'y' if shape == 'y_first' else 'x'


def _has_defaults(shape):
    return shape in ('std', 'y_first', 'kwonly', 'partial')


def _build_args(s, x, comps, shape='std', defaults='scalars'):
    """positional and keyword companions (and all of them in order); 'self' is the operand object x, 'twin' the first companion's object,
    'own_default' an equal copy of what a function of this shape / these defaults declares for the parameter (a for the first companion, b for the second)"""
    names = ['a', 'b']
    pos, kw, vals = [], {}, []
    for j, c in enumerate(comps):
        cs = c['spec']
        if cs[0] == 'self':
            v = x
        elif cs[0] == 'twin':
            v = vals[0]
        elif cs[0] == 'own_default':
            v = copy.deepcopy(_effective_defaults(shape, defaults)[min(j, 1)])
        else:
            if cs[0] == 'mirror':
                cs = mirror(s, cs[1], lambda path, j=cs[2]: 'm%i:%s' % (j, '.'.join(map(str, path))), cs[3] if len(cs) > 3 else None)
            v = build(cs)
        vals.append(v)
        if c['how'] == 'pos':
            pos.append(v)
        else:
            kw[names[j]] = v
    return pos, kw, vals


def _struct_facts(s):
    """lengths of the lists / tuples, sorted key tuples of the dicts, container tags, longest container, integer keys?"""
    lens_seen, keys_seen, tags = set(), set(), set()
    facts = dict(maxlen=0, int_keys=False, big_keys=False, falsy_key=False)

    def walk(s):
        if s[0] == 'leaf':
            return
        tags.add(s[0])
        if s[0] in _SEQ_TAGS:
            kids = s[1]
            lens_seen.add(len(kids))
        else:
            kids = [v for _, v in s[1]]
            keys_seen.add(tuple(sorted(str(k) for k, _ in s[1])))
            if any(isinstance(k, int) for k, _ in s[1]):
                facts['int_keys'] = True
            if any(not k for k, _ in s[1]):
                facts['falsy_key'] = True
            if any(isinstance(k, float) or (isinstance(k, int) and abs(k) >= 2 ** 53) for k, _ in s[1]):
                facts['big_keys'] = True
        facts['maxlen'] = max(facts['maxlen'], len(kids))
        for k in kids:
            walk(k)
    walk(s)
    return lens_seen, keys_seen, tags, facts


def _converted_keys(s, comps):
    """does some mirror companion carry numeric keys in another raw type than the structure's?"""
    for c in comps:
        cs = c['spec']
        if cs[0] == 'mirror' and len(cs) > 3:
            seen = [False]
            mirror(s, cs[1], lambda path: 0, cs[3], seen)
            if seen[0]:
                return True
    return False


def _fits(dv, lens_seen, keys_seen):
    """is the container dv as long as a list / tuple of the structure, or keyed like one of its dicts?"""
    return (isinstance(dv, (list, tuple)) and len(dv) in lens_seen) or (isinstance(dv, dict) and tuple(sorted(dv)) in keys_seen)


def _lift_classes(spec, pos, kw):
    """class labels of one lifted call (shared by the single-call and the session sub-check)"""
    s, comps = spec['s'], spec['comps']
    shape, defaults = spec.get('shape', 'std'), spec.get('defaults', 'scalars')
    names = ['a', 'b']
    d = depth(s)
    lens_seen, keys_seen, tags, facts = _struct_facts(s)
    kinds = [c['kind'] + ':' + c['how'] for c in comps]
    pos_same = any(c['how'] == 'pos' and c['kind'].startswith('same') for c in comps)
    cls = ['depth=%i' % d, 'ncomp=%i' % len(comps), 'fn_shape=' + shape] + kinds + (['first_by_keyword'] if spec['first_kw'] else [])
    if _has_defaults(shape) and defaults != 'scalars':
        unfilled = [nm for i, nm in enumerate(names) if nm not in kw and i >= len(pos)]
        for nm in unfilled:
            dv = _effective_defaults(shape, defaults)[names.index(nm)]
            if _fits(dv, lens_seen, keys_seen):
                cls.append('unfilled_container_default_shaped_like_the_data')
                break
    if spec.get('wrap') and d >= 1:
        # the lifted function carries __wrapped__ (functools.wraps) and what it wraps has another signature: a leading argument more, or another name for the first parameter
        cls.append('fn_carries___wrapped___of_another_signature')
        if spec['first_kw']:
            cls.append('fn_carries___wrapped___structure_passed_by_keyword')
        elif comps:
            cls.append('fn_carries___wrapped___structure_positional_with_companions')
    if shape == 'partial' and d >= 1:
        cls.append('fn_is_a_partial_with_a_bound_keyword')
        if 'b' not in kw and _fits(_PARTIAL_BOUND[defaults], lens_seen, keys_seen):
            cls.append('partial_binds_a_container_shaped_like_the_data')
    for j, c in enumerate(comps):
        if c['spec'][0] == 'own_default':
            cls.append('own_default_passed_explicitly')
            if _has_defaults(shape) and _fits(_effective_defaults(shape, defaults)[j], lens_seen, keys_seen):
                cls.append('own_container_default_passed_explicitly_and_matched')
    if any(c['spec'][0] == 'leaf' and c['spec'][1] is not None and not c['spec'][1] for c in comps) or \
       any(c['spec'][0] in _SEQ_TAGS and any(not e[1] for e in c['spec'][1]) for c in comps):
        cls.append('falsy_companion_or_companion_element')
        if d >= 1 and any(c['spec'][0] in _SEQ_TAGS and len(c['spec'][1]) in lens_seen and any(not e[1] for e in c['spec'][1]) for c in comps):
            cls.append('falsy_element_of_a_matched_flat_companion')
    if facts['falsy_key']:
        cls.append('falsy_dict_key')
    # class 35 of the brief: instances of classes DERIVED from list / tuple / dict (/ Dict) in the structure - at the root, below it - and among the companions
    dtags = sorted(t for t in tags if t in _DERIVED)
    if dtags:
        cls.append('derived_container_class_in_the_structure')
        cls += ['derived_class_in_the_structure=' + ('namedtuple' if t == 'ntuple' else 'user_subclass_of_' + _DERIVED[t] if t != 'OrderedDict' else t) for t in dtags]
        cls.append('derived_class_at_the_root' if s[0] in _DERIVED else 'derived_class_only_below_the_root')
        if any(c['kind'].startswith('same') for c in comps):
            cls.append('derived_container_class_in_the_structure_with_same_shape_companion')
    if any(c['spec'][0] in _DERIVED for c in comps):
        cls.append('flat_companion_is_an_instance_of_a_derived_class')
        if d >= 1 and any(c['spec'][0] in _DERIVED and (len(c['spec'][1]) in lens_seen if c['spec'][0] in _SEQ_TAGS else tuple(sorted(str(k) for k, _ in c['spec'][1])) in keys_seen) for c in comps):
            cls.append('flat_companion_of_a_derived_class_shaped_like_the_data')
    for c, v in zip(comps, pos + [kw[n] for n in names if n in kw]):
        if c['kind'] == 'flat_list' and len(v) <= 1 and any(l != len(v) for l in lens_seen):
            cls.append('companion_of_length_0_or_1_next_to_longer_sequences')
            break
    if any(c['spec'][0] == 'leaf' and isinstance(c['spec'][1], str) and len(c['spec'][1]) >= 2 and len(c['spec'][1]) in lens_seen for c in comps):
        cls.append('string_companion_as_long_as_a_sequence')
    if d >= 1 and any(c['spec'][0] == 'self' for c in comps):
        cls.append('companion_is_the_operand_object')
    if any(c['spec'][0] == 'twin' and c['kind'] != 'scalar' for c in comps):
        cls.append('one_companion_object_passed_twice')
    if spec.get('share'):
        cls.append('one_container_object_at_two_places')
        if any(c['kind'] in ('same', 'same_partial', 'flat_list') for c in comps):
            cls.append('one_container_object_at_two_places_with_matched_companion')
    if _converted_keys(s, comps):
        cls.append('companion_keys_in_another_numeric_type')
    if facts['big_keys']:
        cls.append('numeric_keys_beyond_2**53_or_int_next_to_float')
        if any(c['kind'].startswith('same') for c in comps):
            cls.append('numeric_keys_beyond_2**53_or_int_next_to_float_with_same_shape_companion')
    if shape in ('rest', 'kwargs', 'star', 'kwonly') and comps and d >= 1:
        cls.append('fn_with_varargs_or_keyword_only_and_companions')
    if facts['maxlen'] >= 40:
        cls.append('container_of_40+')
    if d >= 2 and pos_same:
        cls.append('depth>=2_positional_same_shape')
    if len(tags) >= 2:
        cls.append('mixed_container_types')
    if facts['int_keys']:
        cls.append('integer_dict_keys')
        if any(c['kind'].startswith('same') for c in comps):
            cls.append('integer_dict_keys_with_same_shape_companion')
    return cls, (d >= 2 and pos_same) or len(tags) >= 2


def _describe(sig, first, first_kw, x, pos, kw):
    sh = lambda v, n: short(v, n) if not _families(v, set()) and 'OrderedDict' not in repr(v) else _show(v)[:2 * n]
    return 'loop(list,tuple,dict)(%s)(%s%s%s)' % (sig, first + '=' if first_kw else '', sh(x, 150), ''.join(', %s' % sh(p, 80) for p in pos) + ''.join(', %s=%s' % (k, sh(v, 80)) for k, v in kw.items()))


def run_lift(spec):
    from pyg_base import loop
    s = spec['s']
    shape, defaults = spec.get('shape', 'std'), spec.get('defaults', 'scalars')
    x = build(s, {} if spec.get('share') else None)
    pos, kw, _ = _build_args(s, x, spec['comps'], shape, defaults)
    leaf_fn, sig = _make_leaf_fn(shape, defaults, wrap=spec.get('wrap'))
    lifted = loop(list, tuple, dict)(leaf_fn)
    what = _describe(sig, _first_name(shape), spec['first_kw'], x, pos, kw)
    if spec['first_kw']:
        res = call(what, lambda: lifted(**{_first_name(shape): x}, **kw))
    else:
        res = call(what, lambda: lifted(x, *pos, **kw))
    # the model works on equal copies built from the spec, with a function of its own: the original content, whatever the call did to its arguments
    x0 = build(s)
    pos0, kw0, _ = _build_args(s, x0, spec['comps'], shape, defaults)
    model_lift_any(what, res, _make_leaf_fn(shape, defaults, model=True)[0], x0, pos0, kw0)
    cls, nt = _lift_classes(spec, pos, kw)
    return dict(nt=nt, cls=cls)


# ----------------------------------------------------------------------------- sessions: several calls on the same objects, one decorator object for two functions

@st.composite
def _session_case(draw):
    which = draw(st.sampled_from(['any'] * 8 + ['shared']))
    s = draw(st.sampled_from([1, 1, 2, 2, 2, 3, 3, 3, 4]).flatmap(lambda d: _l1 if d == 1 else _tree(d)) if which == 'any' else _shared_structure())
    # in an eighth of the sessions some containers of the structure (and then, in half of the cases, flat companions) are instances of derived classes
    derived = which == 'any' and draw(st.sampled_from([False] * 7 + [True]))
    if derived:
        s = draw(_derive(s))
    d = depth(s)
    lens = sorted(_struct_facts(s)[0])
    pool = [draw(_comp(d, j, lens)) for j in range(draw(st.sampled_from([1, 2, 2, 3])))]
    for c in pool:
        if derived and c['spec'][0] in ('list', 'tuple', 'dict', 'Dict') and draw(st.booleans()):
            _derive_comp(draw, c, lens)
    # 'two_names': the two functions call their first parameter x and y, and each is called (at least once) with the structure passed by that name
    scenario = draw(st.sampled_from(['free', 'free', 'free', 'two_names']))
    if scenario == 'two_names':
        shapes = list(draw(st.permutations([draw(st.sampled_from(['std', 'std', 'kwonly', 'kwargs'])), 'y_first'])))
    else:
        shapes = [draw(st.sampled_from(_SHAPES + ['y_first', 'kwonly'])) for _ in range(2)]
    defaults = [draw(st.sampled_from(['scalars', 'scalars', 'containers', 'containers2'])) for _ in range(2)]
    wraps = [draw(st.sampled_from(_WRAPS)) for _ in range(2)]         # either function may have gone through a functools.wraps decorator (inner function of another signature)
    base = list(draw(st.permutations(list(range(len(pool))))))
    calls = []
    for i in range(draw(st.sampled_from([2, 2, 3, 3, 4]))):
        # the argument lists are prefixes / extensions / permutations of one another
        if calls and len(calls[-1]['use']) >= 2 and draw(st.sampled_from([True, False, False])):
            use = calls[-1]['use'][::-1]
        else:
            order = base if draw(st.sampled_from([True, True, False])) else base[::-1]
            use = order[:draw(st.integers(0, min(2, len(order))))]
        fn = draw(st.sampled_from([0, 0, 1])) if scenario == 'free' or i >= 2 else i
        first_kw = draw(st.sampled_from([False, False, True])) if scenario == 'free' or i >= 2 else True
        hows, first_kw = _fix_hows(shapes[fn], [draw(st.sampled_from(['pos', 'pos', 'kw'])) for _ in use], first_kw)
        calls.append(dict(fn=fn, use=use, hows=hows, first_kw=first_kw))
        if i >= 1 and which == 'any' and draw(st.sampled_from([True] + [False] * 7)):
            # before this call the CALLER writes one cell of the operand (or of a list / dict companion) in place: [target, which cell, new value]; in half of these the call
            # then repeats an earlier call exactly (same function, same argument objects passed the same way) - what a memo keyed on the objects would answer from memory
            calls[-1]['edit'] = [draw(st.sampled_from(['x', 'x', 'x', 0, 1, 2])), draw(st.integers(0, 7)), draw(st.sampled_from(['E%i' % i, 'E%i' % i, 0, None]))]
            if (scenario == 'free' or i >= 2) and draw(st.booleans()):
                calls[-1].update({k: copy.deepcopy(v) for k, v in calls[draw(st.integers(0, i - 1))].items() if k != 'edit'})
    return dict(s=s, share=which == 'shared', pool=pool, shapes=shapes, defaults=defaults, calls=calls, one_decorator=draw(st.sampled_from([True, True, False])), wraps=wraps)


def _cells(s, obj):
    """(parent container object, index / key, spec node) of every leaf that sits directly in a list or a dict: the cells a caller can write in place"""
    out = []

    def walk(s, obj):
        if s[0] == 'leaf':
            return
        for k, kid in (enumerate(s[1]) if s[0] in _SEQ_TAGS else [(k, v) for k, v in s[1]]):
            if kid[0] != 'leaf':
                walk(kid, obj[k])
            elif s[0] not in _TUPLE_TAGS:
                out.append((obj, k, kid))
    walk(s, obj)
    return out


def run_session(spec):
    from pyg_base import loop
    s = copy.deepcopy(spec['s'])                                     # the CURRENT content: the spec plus the cells the harness writes between calls
    pool = copy.deepcopy(spec['pool'])
    sh0, df0 = spec['shapes'][0], spec['defaults'][0]
    x = build(s, {} if spec['share'] else None)                      # the operand and the companions are built ONCE ...
    _, _, objs = _build_args(s, x, [dict(c, how='pos') for c in pool], sh0, df0)
    wraps = spec.get('wraps', [None, None])
    made = [_make_leaf_fn(sh, df, tag='leaf%i' % i, wrap=w) for i, (sh, df, w) in enumerate(zip(spec['shapes'], spec['defaults'], wraps))]
    if spec['one_decorator']:
        deco = loop(list, tuple, dict)                               # ... and ONE decorator object lifts both functions
        lifted = [deco(f) for f, _ in made]
    else:
        lifted = [loop(list, tuple, dict)(f) for f, _ in made]
    names = ['a', 'b']
    cls = ['calls=%i' % len(spec['calls']), 'depth=%i' % depth(s)]
    fns_used, fn_kw, containers_used, prev = set(), set(), False, None
    for n, c in enumerate(spec['calls']):
        shape, defaults = spec['shapes'][c['fn']], spec['defaults'][c['fn']]
        comps = [dict(pool[i], how=h) for i, h in zip(c['use'], c['hows'])]
        pos = [objs[i] for i, h in zip(c['use'], c['hows']) if h == 'pos']
        kw = {names[j]: objs[i] for j, (i, h) in enumerate(zip(c['use'], c['hows'])) if h == 'kw'}
        first = _first_name(shape)
        note = ''
        if c.get('edit') and not spec['share']:
            tgt, k, val = c['edit']
            cells, where = _cells(s, x), 'the operand'
            if tgt != 'x' and pool[tgt % len(pool)]['spec'][0] in ('list', 'dict', 'Dict') and _cells(pool[tgt % len(pool)]['spec'], objs[tgt % len(pool)]):
                cells, where = _cells(pool[tgt % len(pool)]['spec'], objs[tgt % len(pool)]), 'companion %i' % (tgt % len(pool))
            if cells:
                parent, key, node = cells[k % len(cells)]
                note = ' (before it the caller wrote %r over %r at [%r] of a %s inside %s)' % (val, node[1], key, type(parent).__name__, where)
                parent[key] = val                                    # the object the library is called on ...
                node[1] = val                                        # ... and the content the model is built from
                if 'cell_written_in_place_between_calls' not in cls:
                    cls.append('cell_written_in_place_between_calls')
                if any(all(p[f] == c[f] for f in ('fn', 'use', 'hows', 'first_kw')) for p in spec['calls'][:n]) and 'cell_written_in_place_then_an_earlier_call_repeated' not in cls:
                    cls.append('cell_written_in_place_then_an_earlier_call_repeated')
        what = 'call %i of %i on the same objects%s: %s' % (n + 1, len(spec['calls']), note, _describe(made[c['fn']][1], first, c['first_kw'], x, pos, kw))
        if c['first_kw']:
            res = call(what, lambda: lifted[c['fn']](**{first: x}, **kw))
        else:
            res = call(what, lambda: lifted[c['fn']](x, *pos, **kw))
        # every call is judged by the single-call model on the ORIGINAL content plus the cells the harness wrote itself (fresh copies built from the spec, a function object of the model's own)
        x0 = build(s)
        _, _, objs0 = _build_args(s, x0, [dict(k, how='pos') for k in pool], sh0, df0)
        pos0 = [objs0[i] for i, h in zip(c['use'], c['hows']) if h == 'pos']
        kw0 = {names[j]: objs0[i] for j, (i, h) in enumerate(zip(c['use'], c['hows'])) if h == 'kw'}
        model_lift_any(what, res, _make_leaf_fn(shape, defaults, tag='leaf%i' % c['fn'], model=True)[0], x0, pos0, kw0, 'leaf-wise model (on the original content of the arguments) says')
        one, _ = _lift_classes(dict(s=s, comps=comps, first_kw=c['first_kw'], shape=shape, defaults=defaults, share=spec['share'], wrap=wraps[c['fn']]), pos, kw)
        cls += [l for l in one if not l.startswith(('depth=', 'ncomp=', 'own_')) and ':' not in l and l not in cls]
        fns_used.add(c['fn'])
        if c['first_kw']:
            fn_kw.add(c['fn'])
        containers_used = containers_used or any(k['kind'] != 'scalar' for k in comps)
        if prev is not None:
            u, v = prev, c['use']
            rel = 'repeat' if u == v else 'prefix' if v == u[:len(v)] else 'extension' if u == v[:len(u)] else 'permutation' if sorted(u) == sorted(v) else 'other'
            if 'then_' + rel not in cls:
                cls.append('then_' + rel)
        prev = c['use']
    two = len(fns_used) == 2
    if two and spec['one_decorator']:
        cls.append('one_decorator_object_two_functions')
        if len(fn_kw) == 2 and _first_name(spec['shapes'][0]) != _first_name(spec['shapes'][1]):
            cls.append('one_decorator_object_two_functions_first_argument_by_two_names')
    return dict(nt=containers_used, cls=cls)


# ----------------------------------------------------------------------------- library functions built with loop

_txt_leaf = st.one_of(st.sampled_from(['abc', 'Hello World', ' pad ', 'mIxEd caSe', '', 'a,b;c', 'x  y', '1.5', '2k', '10%', '1,000']), st.integers(0, 3), st.none(), st.sampled_from([0.5, 2.0, 3.14159]))
_t1 = _node(_txt_leaf.map(lambda x: ['leaf', x]))
_txt_structure = st.sampled_from([1, 2, 2, 3, 3]).flatmap(lambda d: _t1 if d == 1 else _tree(d, _txt_leaf))

_FUNCS = ['lower', 'upper', 'strip', 'proper', 'capitalize', 'f12', 'as_float', 'replace', 'split']


_CHARS = ['a', 'l', ' ', ',', ';', 'o']


@st.composite
def _lib_case(draw):
    s = draw(_txt_structure)
    if draw(st.sampled_from([False] * 9 + [True])):
        s = draw(_derive(s))              # a tenth of the cases: some containers are instances of derived classes (UList, UTuple, UDict, a subclass of Dict, OrderedDict)
    fn = draw(st.sampled_from(_FUNCS + ['replace', 'split']))     # the two with further arguments twice (the number of cases went up by the same share)
    spec = dict(s=s, fn=fn)
    lens = [l for l in sorted(_struct_facts(s)[0]) if 1 <= l <= 3]
    k = draw(st.sampled_from(lens)) if lens else draw(st.integers(1, 3))      # the length of some list / tuple of the structure, where there is one
    two = [True] * 3 if 2 in lens else []
    if fn == 'replace':
        # one character, a list of 4-5 characters (longer than any container: broadcast whole), and: a string of two characters, a list / tuple of 1-3
        # characters - as long as the lists / tuples of the structure may be, where it is then matched element by element like any companion
        spec['old'] = draw(st.one_of(st.sampled_from(['a', 'l', ' ', ',']), st.lists(st.sampled_from(_CHARS), min_size=4, max_size=5, unique=True),
                                     st.sampled_from(['a', 'l', ' ', ',']), st.lists(st.sampled_from(_CHARS), min_size=4, max_size=5, unique=True),
                                     st.sampled_from(['  ', 'll', 'o ']), st.lists(st.sampled_from(_CHARS), min_size=k, max_size=k, unique=True), *[st.sampled_from(['  ', 'll', 'o ']) for _ in two[:1]]))
        spec['old_type'] = draw(st.sampled_from(['list', 'list', 'tuple']))
        spec['new'] = draw(st.sampled_from([None, '_', 'Z']))
        # new=None is the documented default: passed explicitly, or (in half of these cases) left out
        spec['omit'] = ['new'] if spec['new'] is None and draw(st.booleans()) else []
    if fn == 'split':
        spec['sep'] = draw(st.sampled_from([' ', ',', 'l', ' ', ',', 'l', ', ', 'l ', [' '], [' ', ','], ['l', ' '], [',', ';', ' ']] + [[',', ';', ' '][:k]] * 2 + [', ' for _ in two]))
        spec['sep_type'] = draw(st.sampled_from(['list', 'list', 'tuple']))
        spec['dedup'] = draw(st.booleans())
        # the documented defaults sep=' ', dedup=False: passed explicitly (above), or left out - dedup alone, or both
        omit = draw(st.sampled_from([0, 0, 0, 0, 1, 2]))
        if omit:
            spec['dedup'] = False
            spec['omit'] = ['dedup']
        if omit == 2:
            spec['sep'] = ' '
            spec['omit'] = ['sep', 'dedup']
    return spec


def _py(fn, spec):
    """independent semantics at a string leaf where python has the method; None = no independent anchor"""
    if fn in ('lower', 'upper', 'strip', 'capitalize'):
        return lambda v: getattr(v, fn)() if isinstance(v, str) else v
    if fn == 'f12':
        return lambda v: ('%1.2f' % v) if isinstance(v, float) else v
    if fn == 'replace':
        def rep(v, old, new):
            # old: one character, or what is left of a list of characters at this leaf (a list, or ONE character where the list was matched element by element)
            if not isinstance(v, str):
                return v
            olds = list(old) if isinstance(old, (list, tuple)) else [old]
            if not all(len(o) == 1 for o in olds):
                return _NO_ANCHOR
            return ''.join((new or '') if ch in olds else ch for ch in v)
        return rep
    if fn == 'split':
        def sp(v, sep, dedup):
            if not isinstance(v, str):
                return v
            if isinstance(sep, (list, tuple)):
                return _NO_ANCHOR
            words = v.split(sep)
            return [w for w in words if w] if dedup else words
        return sp
    return None


_NO_ANCHOR = ('no independent anchor for this leaf',)


def same_or_unanchored(a, b):
    """same_shape, but leaves where the model has no anchor are accepted"""
    if b is _NO_ANCHOR:
        return True
    if type(a) is not type(b):
        return False
    if isinstance(a, dict):
        return list(a.keys()) == list(b.keys()) and all(same_or_unanchored(a[k], b[k]) for k in a)
    if _is_seq(a):
        return len(a) == len(b) and all(same_or_unanchored(i, j) for i, j in zip(a, b))
    return a == b or (a != a and b != b)


def run_lib(spec):
    import pyg_base
    s = spec['s']
    fn = spec['fn']
    x = build(s)
    F = getattr(pyg_base, fn)
    conv = lambda v, t: (list(v) if t == 'list' else tuple(v)) if isinstance(v, list) else v
    omit = spec.get('omit', [])          # optional arguments the caller leaves out: the model fills in the documented default (new=None, sep=' ', dedup=False)
    if fn == 'replace':
        extra = dict(old=conv(spec['old'], spec.get('old_type', 'list')), new=spec['new'])
        g = lambda v, old, new: F(v, old, new)
    elif fn == 'split':
        extra = dict(sep=conv(spec['sep'], spec.get('sep_type', 'list')), dedup=spec['dedup'])
        g = lambda v, sep, dedup: F(v, sep, dedup)
    else:
        extra = {}
        g = F
    passed = [v for k, v in extra.items() if k not in omit]          # (the omitted ones are always the trailing ones)
    what = '%s(%s%s)' % (fn, short(x, 150), ''.join(', %r' % (v,) for v in passed))
    fresh = lambda: {k: (copy.copy(v) if isinstance(v, list) else v) for k, v in extra.items()}
    top = (lambda: F(x, *passed)) if omit else (lambda: g(x, **extra))
    res = call(what, top)
    # (1) lifting law: F(structure, further arguments) == structure with F applied to each leaf on its own, the further arguments matched / broadcast by the rule
    # (a derived class the statement does not name is either one of list / tuple / dict or a scalar - a "leaf" the function is applied to whole: one reading per class and call)
    exp = model_lift_any(what, res, lambda v, **k: call('%s on leaf %r with %r' % (fn, v, k), g, v, **k), build(s), [], fresh(), 'but applying it leaf by leaf gives')
    # (2) anchor at the leaves
    py = _py(fn, spec)
    if py is not None:
        model_lift_any(what, res, py, build(s), [], fresh(), 'but the python string method at string leaves gives', same_or_unanchored)
    # (3) the same call once more on the same objects (structure, old / sep list): judged by the original content
    res2 = call(what + ' called a second time on the same objects', top)
    check(same_shape(res2, exp), '%s called a second time on the same objects = %s, the first call gave %s', what, res2, exp)
    d = depth(s)
    lens_seen = _struct_facts(s)[0]
    cls = ['fn=' + fn, 'depth=%i' % d]
    comp = extra.get('old', extra.get('sep'))
    if isinstance(comp, (list, tuple)) and len(comp) in lens_seen:
        cls.append('list_argument_as_long_as_a_sequence_of_the_structure')
    if isinstance(comp, str) and len(comp) == 2 and 2 in lens_seen:
        cls.append('string_argument_as_long_as_a_sequence_of_the_structure')
    if omit:
        cls.append('optional_arguments_left_out')
    dtags = sorted(t for t in _struct_facts(s)[2] if t in _DERIVED)
    if dtags:
        cls.append('derived_container_class_in_the_structure')
        cls.append('derived_class_at_the_root' if s[0] in _DERIVED else 'derived_class_only_below_the_root')
        if fn in ('replace', 'split'):
            cls.append('derived_container_class_in_the_structure_and_further_arguments')
    if fn == 'replace' and spec['new'] is None and not omit or fn == 'split' and not omit and (extra['sep'] == ' ' or extra['dedup'] is False):
        cls.append('own_default_passed_explicitly')
    return dict(nt=d >= 2, cls=cls)


# ----------------------------------------------------------------------------- zipper / lens

_zarg = st.one_of(st.integers(0, 9).map(lambda v: ['scalar', v]), st.sampled_from(['s', 'str', '', False]).map(lambda v: ['scalar', v]), st.just(['scalar', None]),
                  st.tuples(st.sampled_from(['list', 'tuple']), st.lists(st.integers(0, 9), max_size=4)).map(list),
                  st.tuples(st.sampled_from(['list', 'tuple']), st.lists(st.integers(0, 9), min_size=2, max_size=4)).map(list),
                  # the same sequences in other raw types, and ['same', i] = the very object that is argument i (a scalar if there is no such argument)
                  st.one_of(st.integers(0, 4).map(lambda n: ['range', n]), st.lists(st.integers(0, 9), max_size=4).map(lambda v: ['array', v]), st.integers(0, 2).map(lambda i: ['same', i])))


@st.composite
def _zip_case(draw):
    args = draw(st.lists(_zarg, max_size=4))
    plain_seqs = [i for i, a in enumerate(args) if a[0] in ('list', 'tuple')]
    if plain_seqs and draw(st.sampled_from([False] * 5 + [True])):
        # a sixth of the cases with a list / tuple argument: some of these (at least one) are instances of DERIVED sequence classes instead - same elements, same lengths (so length 1 is broadcast as often)
        forced = draw(st.sampled_from(plain_seqs))
        args = [[draw(st.sampled_from(['ulist', 'utuple', 'ntuple'])), a[1]] if i == forced or (i in plain_seqs and draw(st.booleans())) else a for i, a in enumerate(args)]
        if draw(st.sampled_from([False, False, True])):
            args[forced] = [args[forced][0], args[forced][1][:1] or [7]]         # ... in a third of them one of length 1 (broadcast next to longer sequences)
    again = []
    for _ in range(draw(st.sampled_from([0, 0, 0, 1, 2])) if args else 0):
        # further calls on the SAME argument objects: a permutation, cut to a prefix in half of the cases
        perm = list(draw(st.permutations(list(range(len(args))))))
        again.append(perm[:draw(st.integers(1, len(perm)))] if draw(st.booleans()) else perm)
    return dict(args=args, again=again)


def _zip_build(spec_args):
    """argument objects (built once) and the plain description [(kind, elements or value)] the oracle works on"""
    objs, plain = [], []
    for a in spec_args:
        if a[0] == 'same':
            if a[1] < len(objs):
                objs.append(objs[a[1]])
                plain.append(plain[a[1]])
                continue
            a = ['scalar', a[1]]
        if a[0] == 'scalar':
            objs.append(a[1])
            plain.append(('scalar', a[1]))
        elif a[0] == 'range':
            objs.append(range(a[1]))
            plain.append(('seq', list(range(a[1]))))
        elif a[0] == 'array':
            import numpy as np
            objs.append(np.array(a[1], dtype='int64'))
            plain.append(('seq', list(a[1])))
        elif a[0] in _DERIVED:
            objs.append(build([a[0], [['leaf', v] for v in a[1]]]))
            plain.append(('seq', list(a[1])))
        else:
            objs.append(list(a[1]) if a[0] == 'list' else tuple(a[1]))
            plain.append(('seq', list(a[1])))
    return objs, plain


def _zip_check(what, args, plain):
    """one zipper (and lens) call judged from the plain description; returns (n or None for a mismatch)"""
    from pyg_base import zipper, lens
    lengths = [len(v) if k == 'seq' else None for k, v in plain]
    seq = set(l for l in lengths if l is not None and l != 1)
    if len(seq) > 1:
        must_raise(what, ValueError, lambda: list(zipper(*args)))
        if all(l is not None for l in lengths):
            must_raise(what.replace('zipper', 'lens'), ValueError, lens, *args)
        return None
    n = list(seq)[0] if seq else (1 if args else 0)
    res = call(what, lambda: list(zipper(*args)))
    if not args:
        exp = []
    else:
        exp = [tuple(v if l is None else (v[0] if l == 1 else v[i]) for (k, v), l in zip(plain, lengths)) for i in range(n)]
    check(len(res) == len(exp) and all(type(r) is tuple and len(r) == len(e) and all(bool(p == q) for p, q in zip(r, e)) for r, e in zip(res, exp)), '%s = %s, expected %s', what, res, exp)
    if args and all(l is not None for l in lengths):    # lens is documented on sequences only (zipper wraps scalars before calling it)
        ln = call(what.replace('zipper', 'lens'), lens, *args)
        check(ln == n, '%s = %s, expected %s', what.replace('zipper', 'lens'), ln, n)
    return n


def run_zipper(spec):
    if isinstance(spec, list):          # replay files written before the session form
        spec = dict(args=spec, again=[])
    args, plain = _zip_build(spec['args'])
    lengths = [len(v) if k == 'seq' else None for k, v in plain]
    what = 'zipper(%s)' % ', '.join(short(a, 40) for a in args)
    n = _zip_check(what, args, plain)
    # the original content, whatever the calls do to their arguments: every later call on the same objects is judged by it
    for j, idx in enumerate(spec['again']):
        sub = [args[i] for i in idx]
        _zip_check('after %s: call %i on the same objects, zipper(%s)' % (what, j + 2, ', '.join(short(a, 40) for a in sub)), sub, [plain[i] for i in idx])
    cls = ['nargs=%i' % len(args)]
    kinds = [a[0] for a in spec['args']]
    if any(k == 'scalar' and v is not None and not v for k, v in plain):
        cls.append('falsy_scalar_argument')              # 0, '' or False
        if any(k == 'scalar' and (v == '' or v is False) for k, v in plain):
            cls.append('empty_string_or_False_scalar_argument')
    if 'range' in kinds or 'array' in kinds:
        cls.append('range_or_array_argument')
        if any(k in ('range', 'array') and l == 1 for k, l in zip(kinds, lengths)) and any(l is not None and l > 1 for l in lengths):
            cls.append('range_or_array_of_length_1_broadcast')
    if any(a[0] == 'same' and a[1] < i and plain[i][0] == 'seq' for i, a in enumerate(spec['args'])):
        cls.append('one_sequence_object_passed_twice')
    if any(k in _DERIVED for k in kinds):
        cls.append('argument_of_a_class_derived_from_list_or_tuple')
        if any(k in _DERIVED and l == 1 for k, l in zip(kinds, lengths)) and any(l is not None and l > 1 for l in lengths):
            cls.append('derived_class_argument_of_length_1_broadcast')
    if spec['again']:
        cls.append('further_calls_on_the_same_objects')
        if any(l == 1 for l in lengths) and any(l is not None and l > 1 for l in lengths):
            cls.append('further_calls_after_a_length_1_broadcast')
    if n is None:
        return dict(nt=True, cls=['mismatch_raises'] + cls)
    bc = any(l in (None, 1) for l in lengths) and n > 1
    return dict(nt=bool(bc or n == 0 and args), cls=['broadcast' if bc else 'no_broadcast', 'n=%i' % min(n, 2)] + cls)


# ----------------------------------------------------------------------------- as_list / as_tuple

_al_scalar = st.one_of(st.integers(0, 5), st.sampled_from(['s', 'tu']), st.none().map(lambda _: 0))
_al_el_nolist = st.one_of(_al_scalar.map(lambda v: ['leaf', v]), st.lists(_al_scalar.map(lambda v: ['leaf', v]), max_size=2).map(lambda v: ['tuple', v]))
_al_el = st.one_of(_al_el_nolist, st.lists(_al_scalar.map(lambda v: ['leaf', v]), max_size=2).map(lambda v: ['list', v]))


@st.composite
def _al_case(draw):
    kind = draw(st.sampled_from(['none', 'scalar', 'str', 'list', 'tuple', 'tuple1list', 'range', 'dict', 'keys', 'values', 'zip', 'none', 'falsy']))
    els = draw(st.lists(_al_el, max_size=3))
    els_nolist = draw(st.lists(_al_el_nolist, max_size=3))
    # the option that is off by default: none=True keeps a None as an element ([None] / (None,)); it changes nothing for any other value
    # kind 'falsy': a falsy scalar that is not None ('', False, 0.0, 0) is one element like any other scalar, with every setting of none=
    return dict(kind=kind, els=els, els_nolist=els_nolist, n=draw(st.integers(0, 3)), v=draw(st.integers(0, 5)), none=draw(st.sampled_from([None, None, False, True, True])), fv=draw(st.sampled_from(['', False, 0.0, 0])))


def run_as_list(spec):
    from pyg_base import as_list, as_tuple
    kind = spec['kind']
    none = spec.get('none')
    cls = ['kind=' + kind, 'none=%s' % none] + (['None_with_none=True'] if kind == 'none' and none else [])
    opt = {} if none is None else {'none': none}
    for fname, f, conv, els in (('as_list', as_list, list, spec['els']), ('as_tuple', as_tuple, tuple, spec['els_nolist'])):
        items = [build(e) for e in els]
        if kind == 'none':
            x, exp = None, ([None] if none else [])
        elif kind == 'zip':
            x, exp = zip(range(spec['n']), 'abc'), list(zip(range(spec['n']), 'abc'))
        elif kind == 'scalar':
            x, exp = spec['v'], [spec['v']]
        elif kind == 'falsy':
            x, exp = spec['fv'], [spec['fv']]
        elif kind == 'str':
            x, exp = 'text', ['text']
        elif kind == 'list':
            x, exp = list(items), list(items)
        elif kind == 'tuple':
            x = tuple(items)
            exp = list(items[0]) if len(items) == 1 and isinstance(items[0], list) else list(items)
        elif kind == 'tuple1list':
            x, exp = (list(items),), list(items)
        elif kind == 'range':
            x, exp = range(spec['n']), list(range(spec['n']))
        elif kind == 'dict':
            x = {'k%i' % i: i for i in range(spec['n'])}
            exp = [x]
        elif kind == 'keys':
            d = {'k%i' % i: i for i in range(spec['n'])}
            x, exp = d.keys(), list(d.keys())
        else:
            d = {'k%i' % i: i for i in range(spec['n'])}
            x, exp = d.values(), list(d.values())
        what = '%s(%s%s)' % (fname, short(x, 100) if kind != 'zip' else "zip(range(%i), 'abc')" % spec['n'], '' if none is None else ', none=%s' % none)
        r1 = call(what, lambda: f(x, **opt))
        check(type(r1) is conv, '%s returned a %s', what, type(r1).__name__)
        check(list(r1) == exp and all(type(a) is type(b) for a, b in zip(r1, exp)), '%s = %s, expected the elements %s', what, r1, exp)
        r2 = call('%s(%s%s)' % (fname, short(r1, 100), '' if none is None else ', none=%s' % none), lambda: f(r1, **opt))
        check(type(r2) is conv and list(r2) == list(r1) and all(type(a) is type(b) for a, b in zip(r1, r2)), '%s is not idempotent: %s then %s', fname, r1, r2)
    return dict(nt=kind in ('tuple', 'tuple1list', 'list', 'keys', 'values', 'range', 'zip') or (kind == 'none' and bool(none)), cls=cls)


# ----------------------------------------------------------------------------- waiter

def _w_node(children):
    return st.one_of(
        st.lists(children, max_size=3).map(lambda v: ['list', v]),
        st.lists(children, max_size=3).map(lambda v: ['tuple', v]),
        st.sampled_from(['dict', 'Dict']).flatmap(
            lambda t: st.lists(st.tuples(st.sampled_from(_KEYS), children).map(list), max_size=3, unique_by=lambda kv: kv[0]).map(lambda v, t=t: [t, v])))


# ['futref'] = the future object created last before it, once more (a new future if there is none yet)
_w_leaf = st.one_of(st.integers(0, 5).map(lambda v: ['leaf', v]), st.just(['fut']), st.just(['fut']), st.just(['coro']), st.just(['futref']))
_w1 = _w_node(_w_leaf)
_w2 = _w_node(st.one_of(_w_leaf, _w1))
_w3 = _w_node(st.one_of(_w_leaf, _w1, _w2))


def _count_aw(s):
    """number of distinct awaitable objects the harness creates for s (a 'futref' reuses the last plain future, if any)"""
    state = dict(n=0, plain=False)

    def walk(s):
        if s[0] == 'fut' or (s[0] == 'futref' and not state['plain']):
            state['n'] += 1
            state['plain'] = True
        elif s[0] == 'coro':
            state['n'] += 1
        elif s[0] not in ('leaf', 'futref'):
            for k in (s[1] if s[0] in _SEQ_TAGS else [v for _, v in s[1]]):
                walk(k)
    walk(s)
    return state['n']


def _future_reused(s):
    """does some 'futref' come after a plain future (in creation order), i.e. is one future object placed twice?"""
    state = dict(plain=False, reused=False)

    def walk(s):
        if s[0] == 'futref' and state['plain']:
            state['reused'] = True
        elif s[0] in ('fut', 'futref'):
            state['plain'] = True
        elif s[0] not in ('leaf', 'coro'):
            for k in (s[1] if s[0] in _SEQ_TAGS else [v for _, v in s[1]]):
                walk(k)
    walk(s)
    return state['reused']


def _has(s, tag):
    if s[0] == tag:
        return True
    if s[0] in ('leaf', 'fut', 'coro', 'futref'):
        return False
    return any(_has(k, tag) for k in (s[1] if s[0] in _SEQ_TAGS else [v for _, v in s[1]]))


def _w_containers(s, out=None):
    """the list / tuple / dict / Dict nodes of a waiter spec, root first"""
    out = [] if out is None else out
    if s[0] in ('list', 'tuple', 'dict', 'Dict'):
        out.append(s)
        for k in (s[1] if s[0] in _SEQ_TAGS else [v for _, v in s[1]]):
            _w_containers(k, out)
    return out


def _containers_any(s, out=None):
    """every container node of a waiter spec (derived tags included)"""
    out = [] if out is None else out
    if s[0] not in ('leaf', 'fut', 'coro', 'futref'):
        out.append(s)
        for k in (s[1] if s[0] in _SEQ_TAGS else [v for _, v in s[1]]):
            _containers_any(k, out)
    return out


_W_FAMILY = {'ulist': 'ulist', 'utuple': 'utuple', 'ntuple': 'ntuple', 'udict': 'udict', 'uDict': 'udict', 'OrderedDict': 'OrderedDict'}


def _w_make(t, keys, values):
    """a container of the kind t"""
    if t in _SEQ_TAGS:
        return build([t, [['leaf', v] for v in values]])
    return build([t, [[k, ['leaf', v]] for k, v in zip(keys, values)]])


@st.composite
def _waiter_case(draw):
    derived = draw(st.sampled_from([False] * 7 + [True]))
    # (the derived cases are drawn nested more often: a container of containers)
    s = draw((st.one_of(_w1, _w2, _w3, _w_leaf) if not derived else st.one_of(_w1, _w_node(st.one_of(_w_leaf, _w1, _w1)), _w_node(st.one_of(_w1, _w2)))).filter(lambda s: _count_aw(s) <= 6))
    if s[0] in ('list', 'tuple', 'dict', 'Dict') and derived:
        # class 35 of the brief: some containers (by construction at least one) are instances of derived classes - UList, UTuple, OrderedDict, UDict, a user subclass of Dict
        s = copy.deepcopy(s)
        nodes = _w_containers(s)
        forced = len(nodes) - 1 - draw(st.integers(0, len(nodes) - 1))
        for i, n in enumerate(nodes):
            if i == forced or draw(st.booleans()):
                n[0] = draw(st.sampled_from({'list': ['ulist'], 'tuple': ['utuple'] + (['ntuple'] if INCLUDE_NAMEDTUPLE else []), 'dict': ['OrderedDict', 'udict'], 'Dict': ['uDict']}[n[0]]))
    k = _count_aw(s)
    order = draw(st.permutations(list(range(k))))
    # again: a second waiter call on the same structure once everything has completed (possible only without coroutine objects)
    return dict(s=s, order=list(order), again=draw(st.booleans()) and not _has(s, 'coro'))


_GATED_TURNS = 2000      # event-loop turns granted to a waiter call whose awaitables complete by a chain of events: a chain of 6 through 5 levels of gather needs fewer than 100


def _run_waiter(s, order, again=False, mode='driver'):
    from pyg_base import waiter
    if mode == 'gated':
        return _run_waiter_gated(s, order)

    async def main():
        loop = asyncio.get_running_loop()
        futs, plain = [], []

        def mk(s):
            t = s[0]
            # returns (the object handed to waiter, reading -> the expected result): a container of a derived class that the reading takes for a scalar comes back as it is (the same object)
            if t == 'leaf':
                return s[1], lambda r, v=s[1]: v
            if t == 'futref' and plain:
                i = plain[-1]
                return futs[i], lambda r, i=i: ('val', i)
            if t in ('fut', 'coro', 'futref'):
                i = len(futs)
                f = loop.create_future()
                futs.append(f)
                if t != 'coro':
                    plain.append(i)
                    return f, lambda r, i=i: ('val', i)

                async def co(f=f):
                    v = await f
                    return ('co',) + v
                return co(), lambda r, i=i: ('co', 'val', i)
            keys = None if t in _SEQ_TAGS else [k for k, _ in s[1]]
            pairs = [mk(x) for x in (s[1] if t in _SEQ_TAGS else [v for _, v in s[1]])]
            obj = _w_make(t, keys, [p[0] for p in pairs])
            fam = _W_FAMILY.get(t)
            if fam:
                fams.add(fam)
            return obj, lambda r, t=t, keys=keys, pairs=pairs, obj=obj, fam=fam: obj if fam and r.get(fam) == 'leaf' else _w_make(t, keys, [p[1](r) for p in pairs])
        fams = set()
        structure, expected_by = mk(s)
        keys_ = sorted(fams)
        expected = [expected_by(dict(zip(keys_, choice))) for choice in itertools.product(['loop', 'leaf'], repeat=len(keys_))]
        task = asyncio.ensure_future(waiter(structure))
        for idx in order:
            await asyncio.sleep(0)
            await asyncio.sleep(0)
            futs[idx].set_result(('val', idx))
        for _ in range(200):
            if task.done():
                break
            await asyncio.sleep(0)
        if not task.done():
            task.cancel()
            raise Violation('waiter did not complete after every awaitable was resolved in order %s (structure %s)' % (order, s))
        second = (await waiter(structure),) if again else ()
        return task.result(), expected, second
    return asyncio.run(main())


def _run_waiter_gated(s, order):
    """the completion order is ENFORCED: awaitable i may only complete once its gate (an asyncio.Event) is open, and the gate of the next awaitable of the order is opened by the
    completion of the one before it. A 'coro' is a coroutine object waiting for its gate (nothing runs it but waiter); a 'fut' is a future that a helper task of the harness
    completes once its gate is open. Everything is driven by events, nothing by time: on a waiter that runs all awaitables of the structure concurrently the chain completes within a
    number of event-loop turns bounded by (awaitables x nesting depth); a waiter that is still pending after _GATED_TURNS turns will never return."""
    from pyg_base import waiter

    async def main():
        loop = asyncio.get_running_loop()
        k = len(order)
        pos = {i: p for p, i in enumerate(order)}
        gates = [asyncio.Event() for _ in range(k)]
        completed, coros, helpers, made, plain = [], [], [], [0], []
        futs = {}

        def finish(i):
            completed.append(i)
            if pos[i] + 1 < k:
                gates[order[pos[i] + 1]].set()           # my completion lets the next one of the order complete

        async def co(i):
            await gates[i].wait()
            finish(i)
            return ('co', 'val', i)

        async def drive(i, f):
            await gates[i].wait()
            f.set_result(('val', i))
            finish(i)

        def mk(s):
            t = s[0]
            if t == 'leaf':
                return s[1], s[1]
            if t == 'futref' and plain:
                i = plain[-1]
                return futs[i], ('val', i)
            if t in ('fut', 'coro', 'futref'):
                i = made[0]
                made[0] += 1
                if t == 'coro':
                    c = co(i)
                    coros.append(c)
                    return c, ('co', 'val', i)
                f = loop.create_future()
                futs[i] = f
                plain.append(i)
                helpers.append(asyncio.ensure_future(drive(i, f)))
                return f, ('val', i)
            if t in ('list', 'tuple'):
                pairs = [mk(x) for x in s[1]]
                conv = list if t == 'list' else tuple
                return conv(p[0] for p in pairs), conv(p[1] for p in pairs)
            pairs = [(key, mk(x)) for key, x in s[1]]
            d1, d2 = {key: p[0] for key, p in pairs}, {key: p[1] for key, p in pairs}
            if t == 'Dict':
                from pyg_base import Dict
                return Dict(d1), Dict(d2)
            return d1, d2
        structure, expected = mk(s)
        if made[0] != k:
            raise RuntimeError('harness: %i awaitables made for an order over %i' % (made[0], k))
        task = asyncio.ensure_future(waiter(structure))
        if k:
            gates[order[0]].set()
        for _ in range(_GATED_TURNS):
            if task.done():
                break
            await asyncio.sleep(0)
        done = task.done()
        if not done:
            task.cancel()
        for h in helpers:
            if not h.done():
                h.cancel()
        if not done:
            await asyncio.gather(task, *helpers, return_exceptions=True)
        for c in coros:
            c.close()                                    # coroutine objects nobody started
        if not done:
            raise Violation('waiter never returned (still pending after %i event-loop turns, nothing left to run) for the structure %s whose awaitables can only complete in the order %s '
                            '(each is released by the completion of the one before it); completed so far: %s' % (_GATED_TURNS, s, order, completed))
        if completed != list(order):
            raise RuntimeError('harness: completion order %s, enforced order %s' % (completed, order)) if len(completed) == k else \
                Violation('waiter returned %s for %s although only the awaitables %s of %s had completed' % (short(task.result(), 150), s, completed, order))
        return task.result(), expected, ()
    return asyncio.run(main())


def _aw_sets(s, state=None):
    """the spec tree annotated with the awaitables below every node: (tag, set of (index, is a coroutine object), annotated children), indices in creation order as in mk()"""
    state = state if state is not None else dict(n=0, plain=[])
    t = s[0]
    if t == 'leaf':
        return (t, set(), [])
    if t == 'futref' and state['plain']:
        return (t, {(state['plain'][-1], False)}, [])
    if t in ('fut', 'coro', 'futref'):
        i = state['n']
        state['n'] += 1
        if t != 'coro':
            state['plain'].append(i)
        return (t, {(i, t == 'coro')}, [])
    kids = [_aw_sets(x, state) for x in (s[1] if t in ('list', 'tuple') else [v for _, v in s[1]])]
    return (t, set().union(*[k[1] for k in kids]) if kids else set(), kids)


def _waits_for_later_sibling(s, order):
    """(some awaitable inside an EARLIER sub-container can only complete after a coroutine object that sits in a LATER sibling - a leaf of the same level or inside a later
    sub-container - has completed, the same with the later sibling itself a sub-container): a waiter that resolves the members of a container one after the other never returns"""
    pos = {i: p for p, i in enumerate(order)}
    found = [False, False]

    def walk(node):
        kids = node[2]
        for a in range(len(kids)):
            if kids[a][2] or kids[a][0] not in ('leaf', 'fut', 'coro', 'futref'):
                for b in range(a + 1, len(kids)):
                    if any(c and pos[j] < pos[i] for i, _ in kids[a][1] for j, c in kids[b][1]):
                        found[0] = True
                        if kids[b][0] not in ('leaf', 'fut', 'coro', 'futref'):
                            found[1] = True
        for kid in kids:
            walk(kid)
    walk(_aw_sets(s))
    return found


def _w_depth(s):
    if s[0] in ('leaf', 'fut', 'coro', 'futref'):
        return 0
    return 1 + max([_w_depth(k) for k in (s[1] if s[0] in ('list', 'tuple') else [v for _, v in s[1]])], default=0)


_g_plain = st.integers(0, 5).map(lambda v: ['leaf', v])
_g_leaf = st.one_of(_g_plain, st.just(['coro']), st.just(['coro']), st.just(['fut']), st.just(['futref']))


@st.composite
def _g_container(draw, kids):
    """a list / tuple / dict / Dict holding `kids` in a drawn order"""
    kids = list(draw(st.permutations(kids)))
    t = draw(st.sampled_from(['list', 'list', 'tuple', 'dict', 'Dict']))
    if t in ('list', 'tuple'):
        return [t, kids]
    return [t, [[key, v] for key, v in zip(draw(st.permutations(_KEYS)), kids)]]


@st.composite
def _gated_case(draw):
    """a nested structure (depth 2-4) with 2-6 awaitables, by construction at least two coroutine objects in different sub-containers / on different levels:
    top = container(A, B, 0-1 further leaves), A = container(F, 0-1 further leaves), F = coroutine or container(coroutine, 0-1 further leaves), B = coroutine or container(coroutine, 0-1 further leaves);
    in a quarter of the cases the whole sits one level further down, next to one more leaf. The order is any permutation, and it is enforced by events"""
    extra = lambda: draw(st.lists(_g_leaf, max_size=1))
    F = ['coro'] if draw(st.booleans()) else draw(_g_container([['coro']] + extra()))
    A = draw(_g_container([F] + extra()))
    B = ['coro'] if draw(st.booleans()) else draw(_g_container([['coro']] + extra()))
    s = draw(_g_container([A, B] + extra()))
    if draw(st.sampled_from([True, False, False, False])):
        s = draw(_g_container([s, draw(_g_leaf if _count_aw(s) < 6 else _g_plain)]))
    return dict(s=s, order=list(draw(st.permutations(list(range(_count_aw(s)))))), mode='gated')


def run_waiter(spec):
    s, order, again = spec['s'], spec['order'], bool(spec.get('again'))
    mode = spec.get('mode', 'driver')
    if mode == 'gated':
        res, exp, second = call('waiter(%s) with the completion order %s enforced by events' % (short(s, 150), order), _run_waiter, s, order, False, mode)
        check(same_shape(res, exp), 'waiter(%s) with the enforced completion order %s returned %s, expected %s', s, order, res, exp)
        k = len(order)
        cls = ['enforced_order', 'awaitables=%i' % k, 'depth=%i' % _w_depth(s), 'in_creation_order' if order == sorted(order) else 'permuted']
        later, later_container = _waits_for_later_sibling(s, order)
        if later:
            cls.append('earlier_sub_container_can_only_complete_after_a_later_sibling')
            if later_container:
                cls.append('earlier_sub_container_can_only_complete_after_a_later_sub_container')
        if _future_reused(s):
            cls.append('one_future_object_at_several_places')
        return dict(nt=later, cls=cls)
    # exps: the expected result under every consistent reading of the derived classes in the structure (each either a list / tuple / dict like its base, or a scalar handed back as it is); ONE where there are none
    res, exps, second = call('waiter(%s) with completion order %s' % (short(s, 150), order), _run_waiter, s, order, again)
    note = '' if len(exps) == 1 else ' (or one of the %i other consistent readings of the derived classes)' % (len(exps) - 1)
    exp = ([e for e in exps if same_shape(res, e)] or exps)[0]
    check(same_shape(res, exp), 'waiter(%s) with completion order %s returned %s, expected %s%s', s, order, res, exp, note)
    for r in second:
        check(same_shape(r, exp), 'waiter(%s) called a second time on the same structure, after everything completed in order %s, returned %s, expected %s', s, order, r, exp)
    k = len(order)
    cls = ['awaitables=%i' % k, 'in_creation_order' if order == sorted(order) else 'permuted']
    dtags = [n[0] for n in _containers_any(s) if n[0] in _DERIVED]
    if dtags:
        cls.append('derived_container_class_in_the_structure')
        cls.append('derived_class_at_the_root' if s[0] in _DERIVED else 'derived_class_only_below_the_root')
        if k:
            cls.append('awaitable_inside_or_next_to_a_container_of_a_derived_class')
    if _future_reused(s):
        cls.append('one_future_object_at_several_places')
    if second and k:
        cls.append('second_call_on_the_same_completed_futures')
    return dict(nt=k >= 2 and order != sorted(order), cls=cls)


_W_FIXED = [
    ['list', [['fut'], ['fut'], ['fut']]],
    ['dict', [['a', ['fut']], ['b', ['list', [['fut'], ['leaf', 1], ['coro']]]], ['c', ['fut']]]],
    ['tuple', [['list', [['fut'], ['fut']]], ['dict', [['a', ['coro']], ['b', ['fut']]]], ['leaf', 0], ['fut']]],
    ['list', [['list', [['list', [['fut'], ['fut']]], ['fut']]], ['tuple', [['fut'], ['coro'], ['fut']]]]],
    ['Dict', [['a', ['tuple', [['fut'], ['coro']]]], ['b', ['Dict', [['a', ['fut']], ['c', ['fut']]]]], ['c', ['list', [['fut'], ['leaf', 2], ['coro']]]]]],
    ['list', [['coro'], ['coro'], ['coro'], ['coro'], ['coro'], ['coro']]],
    ['list', [['fut'], ['dict', [['a', ['fut']], ['b', ['dict', [['a', ['fut']], ['b', ['tuple', [['fut'], ['fut'], ['fut']]]]]]]]]]],
    ['list', [['fut'], ['futref'], ['dict', [['a', ['futref']], ['b', ['fut']], ['c', ['tuple', [['futref'], ['coro']]]]]], ['fut'], ['futref']]],     # futures placed several times
]


# nested structures whose awaitables (mostly coroutine objects) complete in an order ENFORCED by events: every order, earlier sub-containers waiting for later siblings among them
_W_GATED = [
    ['list', [['list', [['coro']]], ['coro']]],
    ['list', [['tuple', [['coro'], ['leaf', 'x']]], ['list', [['coro'], ['leaf', None]]], ['coro']]],
    ['Dict', [['a', ['dict', [['a', ['coro']], ['b', ['leaf', 7]]]]], ['b', ['tuple', [['coro'], ['list', [['coro']]]]]]]],
    ['dict', [['a', ['list', [['coro'], ['dict', [['c', ['coro']]]]]]], ['b', ['tuple', [['fut'], ['leaf', 's']]]], ['c', ['coro']]]],
    ['list', [['list', [['list', [['coro'], ['list', [['coro']]]]], ['fut']]], ['tuple', [['coro']]], ['futref'], ['coro']]],
]


def enum_waiter(tier):
    cases = []
    for s in _W_FIXED:
        k = _count_aw(s)
        for perm in itertools.permutations(range(k)):
            cases.append(dict(s=s, order=list(perm)))
    for s in _W_GATED:
        for perm in itertools.permutations(range(_count_aw(s))):
            cases.append(dict(s=s, order=list(perm), mode='gated'))

    def chunker(i, nchunks):
        for c in cases[i::nchunks]:
            yield c
    return len(cases), chunker


SUBS = [
    Sub('lift', lambda tier: _lift_case(), run_lift, quick=3000, thorough=20000,
        rule='nested list/tuple/dict/Dict/dictattr structures (depth <= 4) with 0-2 companions (scalar, same shape to full or partial depth, flat list of 0-5 scalars - matched where a sequence of that length sits, broadcast elsewhere, '
             'dict over other keys), each positional or by keyword, first argument positional or by keyword; the lifted function declares a and b with string defaults or with tuple / list / dict defaults as long as (keyed like) parts of the data, which a leaf must receive whole when the caller leaves them out; oracle: recursive leaf-map model, exact container types. '
             'Also: dict keys that are strings, small integers, integers beyond 2**53 or integers next to a float; same-shape companions whose numeric keys come as float / numpy.int64, or that ARE the operand object; one companion object passed for a and b; '
             'one container object at two places of the structure; strings of length 2-3 as scalar companions; lifted functions of the shapes f(x, a=, b=), f(y, ...), f(x, *, a=, b=), f(x, *rest), f(x, **kw), f(*a, **kw) from one factory, '
             'or functools.partial(f, b=string / list / tuple as long as parts of the data) whose bound value every leaf must receive whole; in a quarter of the cases the function is the outer function of a functools.wraps decorator (it carries __wrapped__) whose inner function has ANOTHER signature - a leading argument that the decorator supplies, or another name for the first parameter and a / b declared in the other order - and is then called with the structure by keyword more often; the declared default of a / b passed explicitly (then matched like any companion); falsy scalar companions (0, "", False, 0.0), falsy elements in flat companions, dict keys "" and 0. '
             'non-trivial = depth >= 2 with a same-shape positional companion, or mixed container types',
        floor=0.2, class_floors={'unfilled_container_default_shaped_like_the_data': 0.08, 'companion_of_length_0_or_1_next_to_longer_sequences': 0.03, 'depth>=2_positional_same_shape': 0.08, 'first_by_keyword': 0.05, 'container_of_40+': 0.03, 'integer_dict_keys_with_same_shape_companion': 0.03,
                                 'string_companion_as_long_as_a_sequence': 0.01, 'companion_is_the_operand_object': 0.01, 'one_companion_object_passed_twice': 0.02, 'one_container_object_at_two_places': 0.035,
                                 'one_container_object_at_two_places_with_matched_companion': 0.014, 'companion_keys_in_another_numeric_type': 0.01, 'numeric_keys_beyond_2**53_or_int_next_to_float_with_same_shape_companion': 0.02,
                                 'fn_with_varargs_or_keyword_only_and_companions': 0.05,
                                 # classes 24, 26, 29 of the brief
                                 'fn_is_a_partial_with_a_bound_keyword': 0.024, 'partial_binds_a_container_shaped_like_the_data': 0.007, 'own_default_passed_explicitly': 0.05,
                                 'own_container_default_passed_explicitly_and_matched': 0.008, 'falsy_companion_or_companion_element': 0.04, 'falsy_element_of_a_matched_flat_companion': 0.006, 'falsy_dict_key': 0.035,
                                 # class 16 of the brief, functions that carry __wrapped__
                                 'fn_carries___wrapped___of_another_signature': 0.045, 'fn_carries___wrapped___structure_passed_by_keyword': 0.017, 'fn_carries___wrapped___structure_positional_with_companions': 0.018,
                                 # class 35 of the brief: instances of classes derived from list / tuple / dict
                                 'derived_container_class_in_the_structure': 0.05, 'derived_class_in_the_structure=user_subclass_of_list': 0.012, 'derived_class_in_the_structure=user_subclass_of_tuple': 0.006,
                                 'derived_class_in_the_structure=user_subclass_of_dict': 0.006, 'derived_class_in_the_structure=OrderedDict': 0.012, 'derived_class_at_the_root': 0.03, 'derived_class_only_below_the_root': 0.014,
                                 'derived_container_class_in_the_structure_with_same_shape_companion': 0.012, 'flat_companion_is_an_instance_of_a_derived_class': 0.02, 'flat_companion_of_a_derived_class_shaped_like_the_data': 0.004}),
    Sub('lift_session', lambda tier: _session_case(), run_session, quick=1200, thorough=8000,
        rule='the operand structure and a pool of 1-3 companions are built ONCE, two leaf functions (made by one factory, any two shapes) are lifted - by ONE loop(list, tuple, dict) decorator object in 2 of 3 cases - and 2-4 calls are made on '
             'these same objects, their companion lists prefixes / extensions / permutations of one another, positional or by keyword; either function may be the outer function of a functools.wraps decorator whose inner function has another signature; before a call the harness may write one leaf cell of the operand (or of a list / dict companion) in place, in half of these cases repeating an earlier call exactly; '
             'oracle: every call judged by the single-call leaf-map model on the original content of the arguments plus the cells the harness wrote. '
             'non-trivial = some call takes a container companion',
        floor=0.2, class_floors={'one_decorator_object_two_functions': 0.13, 'one_decorator_object_two_functions_first_argument_by_two_names': 0.045, 'then_prefix': 0.1, 'then_extension': 0.12, 'then_permutation': 0.03, 'then_repeat': 0.16,
                                 'one_container_object_at_two_places': 0.03, 'companion_is_the_operand_object': 0.012, 'fn_with_varargs_or_keyword_only_and_companions': 0.09, 'unfilled_container_default_shaped_like_the_data': 0.06,
                                 # classes 24, 28, 29 of the brief
                                 'cell_written_in_place_between_calls': 0.07, 'cell_written_in_place_then_an_earlier_call_repeated': 0.025, 'fn_is_a_partial_with_a_bound_keyword': 0.025, 'falsy_companion_or_companion_element': 0.045, 'falsy_dict_key': 0.045,
                                 'fn_carries___wrapped___of_another_signature': 0.08, 'fn_carries___wrapped___structure_passed_by_keyword': 0.045,
                                 'derived_container_class_in_the_structure': 0.04, 'derived_class_at_the_root': 0.025, 'derived_class_only_below_the_root': 0.004, 'flat_companion_is_an_instance_of_a_derived_class': 0.009}),      # class 35
    Sub('libfuncs', lambda tier: _lib_case(), run_lib, quick=3000, thorough=18000,
        rule='lower/upper/strip/proper/capitalize/f12/as_float/replace/split on nested structures with string, number and None leaves; oracle: result equals the structure '
             'with the function applied to every leaf on its own, and (where python has the method) the python string method at string leaves; replace / split also with `old` / `sep` given as a two-character string or a list / tuple of 1-3 characters, which is matched element by element where a list / tuple of that length sits '
             '(the model passes it as a companion); the optional arguments (new, dedup, sep and dedup) passed explicitly - also as their documented defaults - or left out; every call is made twice on the same objects. non-trivial = depth >= 2',
        floor=0.3, class_floors={'list_argument_as_long_as_a_sequence_of_the_structure': 0.008, 'string_argument_as_long_as_a_sequence_of_the_structure': 0.006,
                                 'optional_arguments_left_out': 0.013, 'own_default_passed_explicitly': 0.018,      # class 26 of the brief
                                 'derived_container_class_in_the_structure': 0.04, 'derived_class_at_the_root': 0.02, 'derived_class_only_below_the_root': 0.014, 'derived_container_class_in_the_structure_and_further_arguments': 0.01}),      # class 35
    Sub('zipper', lambda tier: _zip_case(), run_zipper, quick=3000, thorough=20000,
        rule='0-4 arguments from scalars (0, "" and False among them), strings, lists / tuples / ranges / 1-d numpy arrays of length 0-4, possibly one sequence object passed twice; in 2 of 5 cases 1-2 further calls on the same argument objects (permuted, cut to a prefix); '
             'oracle: zip after broadcasting scalars and length-1 sequences, ValueError iff two lengths differ and neither is 1, every call judged by the original content of the arguments; lens returns the common length. non-trivial = broadcasting, mismatch or empty',
        floor=0.2, class_floors={'mismatch_raises': 0.04, 'range_or_array_argument': 0.15, 'range_or_array_of_length_1_broadcast': 0.015, 'one_sequence_object_passed_twice': 0.017, 'further_calls_on_the_same_objects': 0.09, 'further_calls_after_a_length_1_broadcast': 0.008,
                                 'falsy_scalar_argument': 0.08, 'empty_string_or_False_scalar_argument': 0.03,      # class 29 of the brief
                                 'argument_of_a_class_derived_from_list_or_tuple': 0.03, 'derived_class_argument_of_length_1_broadcast': 0.004}),      # class 35
    Sub('as_list', lambda tier: _al_case(), run_as_list, quick=2000, thorough=10000,
        rule='None, scalars (kind falsy: "", False, 0.0, 0), strings, lists, tuples, 1-tuples holding a list, ranges, zips, dicts, dict views, with the option none= left out / False / True; oracle: element preservation with exact result type and f(f(x)) == f(x)',
        floor=0.3, class_floors={'None_with_none=True': 0.014, 'kind=zip': 0.027, 'kind=falsy': 0.025}),
    Sub('waiter', lambda tier: _waiter_case(), run_waiter, quick=600, thorough=5000,
        rule='nested structures holding up to 6 futures/coroutines mixed with plain values, a future possibly placed several times; a driver resolves the futures in a generated permutation; in half of the coroutine-free cases waiter is called '
             'a second time on the same (now completed) structure; oracle: same structure and container types with every awaitable replaced by its result. non-trivial = >= 2 awaitables resolved out of creation order',
        floor=0.05, class_floors={'one_future_object_at_several_places': 0.05, 'second_call_on_the_same_completed_futures': 0.065,
                                  'derived_container_class_in_the_structure': 0.08, 'derived_class_at_the_root': 0.07, 'derived_class_only_below_the_root': 0.01, 'awaitable_inside_or_next_to_a_container_of_a_derived_class': 0.04}),      # class 35      # the spec space is small: in the thorough tier most cases repeat earlier ones, so the distinct share is low
    Sub('waiter_enforced', lambda tier: _gated_case(), run_waiter, quick=300, thorough=2500,
        rule='nested structures (depth 2-4) with 2-6 awaitables, at least two of them coroutine objects in different sub-containers / on different levels, whose completion order (any permutation) is ENFORCED: each awaitable waits for '
             'an event that the completion of its predecessor in the order sets (coroutine objects wait themselves, futures are completed by a helper task waiting for the event); oracle: waiter returns - within a bounded number of '
             'event-loop turns, nothing depends on time - the same structure with every awaitable replaced by its result. non-trivial = an awaitable inside an earlier sub-container can only complete after a coroutine in a later sibling has completed',
        floor=0.1, class_floors={'earlier_sub_container_can_only_complete_after_a_later_sibling': 0.13, 'earlier_sub_container_can_only_complete_after_a_later_sub_container': 0.08}),
    EnumSub('waiter_all_orders', enum_waiter, run_waiter, chunks=16,
            rule='8 fixed structures with 3-6 awaitables (one of them placing its futures at several places) x every completion order (exhaustive over the permutations), the awaitables resolved by a driver; '
                 '5 nested structures with 2-5 awaitables (coroutine objects in different sub-containers and levels) x every completion order, the order enforced by events'),
]
